"""./check entry point.

  ./check <ID> [--tier quick|thorough]      decide one property
  ./check --replay <path>                   re-run a stored replay file against the real code
  ./check --selftest-tools                  verify the tool chain (MANIFEST.setup_cmd)
  ./check --list                            list properties and functions under contract

Exit: 0 held (or only listed known findings) / 1 VIOLATION / 2 undecided / 3 checker error.
"""
from __future__ import annotations

import argparse
import json
import multiprocessing as mp
import os
import re
import subprocess
import sys
import time
import traceback
from pathlib import Path

HERE = Path(__file__).resolve().parent.parent
sys.path.insert(0, str(HERE))

VENV_PY = "/venv/bin/python"
OUT = Path(os.environ.get("VERIF_OUT_DIR", HERE / "out"))
EVID = Path(os.environ.get("VERIF_EVIDENCE_DIR", HERE / "evidence"))
REPO = os.environ.get("GOTRANX_REPO", "/repo")  # the tree under test (default: /repo's working tree)


def _oracle_env():
    env = dict(os.environ, PYTHONDONTWRITEBYTECODE="1")
    # sympy's simplifications are hash-seed dependent in places (listed findings): a fixed seed makes a run repeatable; the seed of the
    # run selects it, so different seeds still explore different hash orders (C09's oracle sets its own seeds for its children)
    env.setdefault("PYTHONHASHSEED", str(int(os.environ.get("VERIF_SEED", "0")) % 4294967295))
    if REPO != "/repo":
        env["PYTHONPATH"] = f"{REPO}/src" + (":" + env["PYTHONPATH"] if env.get("PYTHONPATH") else "")
    return env


def selftest_tools() -> int:
    ok = True

    def chk(name, fn):
        nonlocal ok
        try:
            r = fn()
            print(f"ok   {name}: {r}")
        except Exception as e:  # noqa
            ok = False
            print(f"FAIL {name}: {e}")

    chk("z3 (python3-vt)", lambda: __import__("z3").get_version_string())
    chk("cvc5", lambda: subprocess.run(["/usr/bin/cvc5", "--version"], capture_output=True, text=True).stdout.splitlines()[0])
    chk("gotranx under /venv", lambda: subprocess.run(
        [VENV_PY, "-c", "import gotranx,sys; print(gotranx.__file__)"], capture_output=True, text=True, check=True).stdout.strip())
    chk("gcc", lambda: subprocess.run(["gcc", "--version"], capture_output=True, text=True).stdout.splitlines()[0])
    chk("clang", lambda: subprocess.run(["clang", "--version"], capture_output=True, text=True).stdout.splitlines()[0])

    def engine():
        import contracts.all  # noqa
        from pyvc import verify
        r = verify.verify_function("gotranx.schemes.explicit_euler")
        assert r.status == "ok" and all(x.status == "discharged" for x in r.results), r.to_json()
        return f"{len(r.results)} obligations of explicit_euler discharged"

    chk("engine smoke", engine)
    OUT.mkdir(exist_ok=True)
    EVID.mkdir(exist_ok=True)
    return 0 if ok else 3


class _WallClock(Exception):
    pass


def _alarm(signum, frame):
    raise _WallClock()


def _verify_worker(args):
    qualname, timeout_ms, cross = args[:3]
    chunk = args[3] if len(args) > 3 else None
    # wall-clock limit per function (chunk): a body the symbolic interpreter cannot get through (path explosion after a change) must end
    # as "undecided", never as a check that hangs
    import signal
    limit = int(os.environ.get("VERIF_FUNCTION_WALL_S", "600" if timeout_ms <= 20000 else "1800"))
    signal.signal(signal.SIGALRM, _alarm)
    signal.alarm(limit)
    try:
        import contracts.all  # noqa
        from pyvc import verify
        return verify.verify_function(qualname, timeout_ms, cross, chunk=chunk).to_json()
    except _WallClock:
        return {"function": qualname, "status": "undecided", "reason": f"verification did not finish within {limit} s of wall-clock time (symbolic execution of this body does not terminate in reasonable time)",
                "results": [], "assumed_used": [], "dropped": [], "vacuity": {}, "info": None, "variants": 0, "paths": 0}
    except Exception as e:  # noqa
        return {"function": qualname, "status": "error", "reason": f"{type(e).__name__}: {e}\n{traceback.format_exc()[-2000:]}",
                "results": [], "assumed_used": [], "dropped": [], "vacuity": {}, "info": None, "variants": 0, "paths": 0}
    finally:
        signal.alarm(0)


def _lemma_worker(args):
    name, timeout_ms, cross = args
    try:
        import contracts.all  # noqa
        from contracts import lemmas
        from pyvc import verify
        return verify.prove_lemma(name, lemmas.LEMMAS[name], timeout_ms, cross).to_json()
    except Exception as e:  # noqa
        return {"obligation": f"lemma:{name}", "status": "error", "backend": "-", "seconds": 0, "kind": "lemma",
                "detail": f"{type(e).__name__}: {e}\n{traceback.format_exc()[-1500:]}", "line": None}


def merge_reports(reps):
    """reports of the variant chunks of one function are merged into one"""
    out, by = [], {}
    for r in reps:
        if r["function"] not in by:
            by[r["function"]] = r
            out.append(r)
            continue
        m = by[r["function"]]
        m["results"] += r["results"]
        m["paths"] = (m.get("paths") or 0) + (r.get("paths") or 0)
        m["vacuity"].update(r.get("vacuity", {}))
        m["assumed_used"] = sorted(set(m["assumed_used"]) | set(r["assumed_used"]))
        m["dropped"] = sorted(set(m["dropped"]) | set(r["dropped"]))
        if r["status"] != "ok" and m["status"] == "ok":
            m["status"], m["reason"] = r["status"], r["reason"]
        if m["status"] == "error" and m["reason"] == "zero obligations generated" and r["status"] == "ok":
            m["status"], m["reason"] = "ok", ""
    return out


def run_oracle(pid, tier, seed, focus=None, max_seconds=None):
    OUT.mkdir(exist_ok=True)
    out = OUT / f"oracle_{pid}_{tier}.json"
    if out.exists():
        out.unlink()
    cmd = [VENV_PY, str(HERE / "replay" / "run.py"), "--property", pid, "--tier", tier, "--seed", str(seed), "--out", str(out)]
    if focus:
        cmd += ["--focus", focus]
    if max_seconds:
        cmd += ["--max-seconds", str(max_seconds)]
    t0 = time.time()
    try:
        p = subprocess.run(cmd, capture_output=True, text=True, timeout=(max_seconds or (90 if tier == "quick" else 900)) + 120,
                           env=_oracle_env())
        if not out.exists():
            return {"harness_error": f"no output; rc={p.returncode}; stderr={p.stderr[-1500:]}", "failures": [], "cases": 0,
                    "distinct_nontrivial": 0, "rule": "", "samples": [], "errors": [], "wall_s": time.time() - t0}
        return json.loads(out.read_text())
    except subprocess.TimeoutExpired:
        return {"harness_error": "oracle timed out", "failures": [], "cases": 0, "distinct_nontrivial": 0, "rule": "",
                "samples": [], "errors": [], "wall_s": time.time() - t0}


def load_known():
    p = HERE / "known_findings.json"
    if not p.exists():
        return []
    return json.loads(p.read_text()).get("findings", [])


def check_property(pid: str, tier: str) -> int:
    t0 = time.time()
    seed = int(os.environ.get("VERIF_SEED", "0"))
    import contracts.all  # noqa
    from contracts import props
    from pyvc import registry
    if pid not in props.PROPS:
        print(f"unknown property {pid}")
        return 3
    P = props.PROPS[pid]
    timeout_ms = 20000 if tier == "quick" else 120000
    cross = tier == "thorough"
    funcs = list(P.get("functions", []))
    lemmas = list(P.get("lemmas", []))
    nproc = min(16, max(1, len(funcs) + len(lemmas)))
    with mp.get_context("fork").Pool(nproc) as pool:
        from pyvc import verify as _v
        tasks = []
        for f in funcs:
            try:
                nv = _v.n_variants(f)
            except Exception:  # noqa
                nv = 1
            k = min(8, max(1, nv // 4))
            tasks += [(f, timeout_ms, cross, (i, k)) for i in range(k)] if k > 1 else [(f, timeout_ms, cross)]
        fa = pool.map_async(_verify_worker, tasks, chunksize=1)
        la = pool.map_async(_lemma_worker, [(l, timeout_ms, cross) for l in lemmas], chunksize=1)
        freps = merge_reports(fa.get())
        lres = la.get()
    # the bounded stand-in runs after the solver pool (solver verdicts must not depend on machine load)
    oracle = None
    if P.get("oracle", True) and (HERE / "replay" / "run.py").exists():
        oracle = run_oracle(pid, tier, seed)

    known = [k for k in load_known() if k.get("property") == pid and k.get("status") == "known"]
    lines, violations, undecided, errors, known_hit = [], [], [], [], []
    obligations, discharged, solver_time = 0, 0, 0.0
    ob_list = []

    def known_for_obligation(name):
        for k in known:
            if k.get("kind") == "obligation" and re.search(k["match"], name):
                return k
        return None

    def known_for_signature(sig):
        for k in known:
            if k.get("kind") == "oracle" and sig.startswith(k["match"]):
                return k
        return None

    def scope_of(q):
        """all-inputs: symbolic parameters (enumerated ones range over a whole finite domain: enum members, booleans, aliases);
        bounded-instances: the body is executed on concrete instances (printer overrides / templates on hole strings): the sidecar says so;
        syntactic: class frame"""
        c_ = registry.CONTRACTS.get(q)
        if c_ is None:
            return "all-inputs"
        if q.startswith("frame:"):
            return "syntactic"
        if "BOUNDED" in (c_.note or "") or getattr(c_, "bounded", False):
            return "bounded-instances"
        return "all-inputs"

    scope_tot = {"all-inputs": [0, 0], "bounded-instances": [0, 0], "syntactic": [0, 0], "lemmas": [0, 0]}  # [obligations, discharged]
    for fr in freps:
        if fr["status"] == "undecided":
            undecided.append(f"{fr['function']}: {fr['reason']}")
            continue
        if fr["status"] == "error":
            errors.append(f"{fr['function']}: {fr['reason']}")
        for r in fr["results"]:
            solver_time += r["seconds"]
            kf = known_for_obligation(r["obligation"]) if r["status"] != "discharged" else None
            if kf is not None:
                known_hit.append((kf, r))
                continue
            obligations += 1
            sc_ = scope_of(fr["function"])
            scope_tot[sc_][0] += 1
            ob_list.append(dict({k: r[k] for k in ("obligation", "status", "backend", "seconds", "kind")}, scope=sc_))
            if r["status"] == "discharged":
                discharged += 1
                scope_tot[sc_][1] += 1
            elif r["status"] == "failed":
                violations.append(("obligation", r))
            elif r["status"] == "unknown":
                undecided.append(f"{r['obligation']}: solver unknown ({r['detail'][:200]})")
            else:
                errors.append(f"{r['obligation']}: {r['status']} {r['detail'][:300]}")
    for r in lres:
        solver_time += r["seconds"]
        obligations += 1
        scope_tot["lemmas"][0] += 1
        ob_list.append(dict({k: r[k] for k in ("obligation", "status", "backend", "seconds", "kind")}, scope="lemma (all inputs, induction)"))
        if r["status"] == "discharged":
            discharged += 1
            scope_tot["lemmas"][1] += 1
        elif r["status"] == "failed":
            violations.append(("lemma", r))
        elif r["status"] == "unknown":
            undecided.append(f"{r['obligation']}: solver unknown")
        else:
            errors.append(f"{r['obligation']}: {r['status']} {r['detail'][:300]}")

    oracle_fail_new = []
    if oracle is not None:
        if oracle.get("harness_error"):
            errors.append("bounded oracle: " + oracle["harness_error"])
        for f in oracle.get("failures", []):
            kf = known_for_signature(f.get("signature", ""))
            if kf is not None:
                known_hit.append((kf, {"obligation": f.get("signature"), "status": "oracle-failure", "detail": f.get("what", "")}))
            else:
                oracle_fail_new.append(f)

    # replay known-finding witnesses: a finding that no longer fails is simply not printed
    printed = set()
    for kf, r in known_hit:
        key = kf.get("group", kf.get("id", kf["match"]))
        if key in printed:
            continue
        printed.add(key)
        lines.append(f"KNOWN-FINDING: property={pid} {kf['what_fails']}")
    # listed findings this run did not happen to hit: replay their stored witness against the real code
    pending = {}
    for kf in known:
        key = kf.get("group", kf.get("id", kf["match"]))
        if key not in printed and key not in pending and kf.get("kind") == "oracle" and kf.get("witness"):
            pending[key] = kf
    if pending:
        from concurrent.futures import ThreadPoolExecutor
        (OUT / "replay").mkdir(parents=True, exist_ok=True)

        def _replay(item):
            key, kf = item
            tmp = OUT / "replay" / f"known_{pid}_{abs(hash(key)) % 10**8}.json"
            tmp.write_text(json.dumps({"property": pid, "failure": {"signature": kf["match"], "input": kf["witness"]}}, default=str))
            try:
                p = subprocess.run([VENV_PY, str(HERE / "replay" / "run.py"), "--replay", str(tmp)], capture_output=True, text=True, timeout=120, env=_oracle_env())
                return key, kf, '"still_fails": true' in p.stdout
            except subprocess.TimeoutExpired:
                return key, kf, "hang" in kf["match"]
            finally:
                tmp.unlink(missing_ok=True)

        with ThreadPoolExecutor(8) as ex:
            for key, kf, still in ex.map(_replay, pending.items()):
                if still:
                    printed.add(key)
                    lines.append(f"KNOWN-FINDING: property={pid} {kf['what_fails']}")

    (OUT / "replay").mkdir(parents=True, exist_ok=True)
    vcount = 0
    reported_sigs = set()
    searched = False
    for kind, r in violations:
        vcount += 1
        path = OUT / "replay" / f"{pid}_obligation_{vcount}.json"
        concrete = oracle_fail_new[0] if oracle_fail_new else None
        if concrete is None and not searched and oracle is not None and P.get("oracle", True):
            # guided search (once per run): a second, differently seeded oracle run for a concrete failing input
            searched = True
            o2 = run_oracle(pid, "thorough" if tier == "thorough" else "quick", seed + 1)
            oracle_fail_new = [f for f in o2.get("failures", []) if known_for_signature(f.get("signature", "")) is None]
            concrete = oracle_fail_new[0] if oracle_fail_new else None
        doc = {"property": pid, "kind": "failed-obligation", "obligation": r["obligation"], "obligation_kind": r["kind"],
               "source_line": r.get("line"), "solver": r["backend"], "verifier_output": r["detail"],
               "failure": concrete, "replay_cmd": f"./check --replay {path}"}
        path.write_text(json.dumps(doc, indent=1, default=str))
        suffix = "" if concrete is not None else " no-failing-input-found"
        if concrete is not None:
            reported_sigs.add(concrete.get("signature"))
        lines.append(f"VIOLATION property={pid} replay={path}{suffix}")
        lines.append(f"  failed obligation: {r['obligation']}")
    for f in oracle_fail_new:
        if f.get("signature") in reported_sigs:
            continue
        reported_sigs.add(f.get("signature"))
        vcount += 1
        path = OUT / "replay" / f"{pid}_oracle_{vcount}.json"
        path.write_text(json.dumps({"property": pid, "kind": "bounded-oracle-failure", "failure": f,
                                    "replay_cmd": f"./check --replay {path}"}, indent=1, default=str))
        lines.append(f"VIOLATION property={pid} replay={path}")
        lines.append(f"  bounded oracle: {f.get('signature')}: {f.get('what', '')}")
    if undecided and not vcount and oracle is not None and P.get("oracle", True):
        # a function could not be decided (sidecar no longer matches the source, construct outside the subset, solver
        # unknown): search harder for a concrete failing input before giving up
        for extra_seed in (seed + 1, seed + 2):
            o2 = run_oracle(pid, tier, extra_seed)
            fresh_f = [f for f in o2.get("failures", []) if known_for_signature(f.get("signature", "")) is None]
            for f in fresh_f:
                if f.get("signature") in reported_sigs:
                    continue
                reported_sigs.add(f.get("signature"))
                vcount += 1
                path = OUT / "replay" / f"{pid}_oracle_{vcount}.json"
                path.write_text(json.dumps({"property": pid, "kind": "bounded-oracle-failure", "undecided": undecided[:5], "failure": f,
                                            "replay_cmd": f"./check --replay {path}"}, indent=1, default=str))
                lines.append(f"VIOLATION property={pid} replay={path}")
                lines.append(f"  bounded oracle (after an undecided obligation): {f.get('signature')}: {f.get('what', '')}")
            if fresh_f:
                break
    for u in undecided:
        lines.append(f"UNDECIDED property={pid} {u[:400]}")
    for e in errors:
        lines.append(f"CHECKER-ERROR property={pid} {e[:600]}")

    # ---------------------------------------------------------------- evidence
    trusted = sorted({a for fr in freps for a in fr.get("assumed_used", [])} | set(P.get("trusted", [])))
    dropped = sorted({d for fr in freps for d in fr.get("dropped", [])})
    from contracts import assumptions

    by_scope = {"all-inputs": scope_tot["all-inputs"][1], "bounded-instances": scope_tot["bounded-instances"][1],
                "syntactic": scope_tot["syntactic"][1], "lemmas (induction, all inputs)": scope_tot["lemmas"][1]}
    proved_obl = scope_tot["all-inputs"][0] + scope_tot["lemmas"][0]
    proved_dis = scope_tot["all-inputs"][1] + scope_tot["lemmas"][1]
    ev = {
        "property_id": pid, "tier": tier, "seed": seed, "level": P.get("level", "proof"),
        "coverage": {
            # proof-level counts: obligations over all inputs (symbolic parameters, loops by invariant) and induction lemmas only;
            # obligations on bounded instances and syntactic frame checks are reported separately and are not counted as proved
            "obligations": proved_obl, "discharged": proved_dis,
            "bounded_instance_obligations": {"obligations": scope_tot["bounded-instances"][0], "discharged": scope_tot["bounded-instances"][1],
                                             "labelled": "bounded", "proved": False},
            "syntactic_obligations": {"obligations": scope_tot["syntactic"][0], "discharged": scope_tot["syntactic"][1]},
            "rule": (oracle or {}).get("rule", "") or "obligations generated from the sidecar contracts of the listed functions",
            "checker_cmd": f"./check {pid} --tier {tier}",
            "trusted_base": trusted,
            "discharged_by_scope": by_scope,
            "functions_under_contract": [dict(fr.get("info") or {"function": fr["function"]}, status=fr["status"], scope=scope_of(fr["function"]),
                                              obligations=len(fr["results"]), paths=fr.get("paths"), variants=fr.get("variants"))
                                         for fr in freps],
            "obligation_list": ob_list[:400],
            "lemmas": [r["obligation"] for r in lres],
            "solver_time_s": round(solver_time, 3),
            "back_ends": sorted({o["backend"] for o in ob_list}),
            "known_findings_applied": [{"finding": kf.get("id", kf["match"]), "what_fails": kf["what_fails"], "evidence": r.get("obligation")}
                                       for kf, r in known_hit][:50],
            "vacuity": {fr["function"]: fr.get("vacuity", {}) for fr in freps},
            "extraction_drops": dropped,
            "bounded_standins": ([{
                "name": f"replay/oracles/{pid.lower()}.py", "proved": False, "labelled": "bounded",
                "cases": oracle.get("cases", 0), "distinct_nontrivial": oracle.get("distinct_nontrivial", 0),
                "rule": oracle.get("rule", ""), "failures": len(oracle.get("failures", [])),
                "harness_errors": oracle.get("errors", [])[:5], "wall_s": oracle.get("wall_s"),
            }] if oracle is not None else []),
            "samples": ([o["obligation"] for o in ob_list[:3]] + (oracle.get("samples", [])[:2] if oracle else [])) or ["(none)"],
            "evaluations": (oracle or {}).get("cases", 0) + obligations,
            "distinct_nontrivial": max(2, (oracle or {}).get("distinct_nontrivial", 0)) if (oracle or obligations >= 2) else 0,
            "explanation": P.get("explanation", "") or "contract-based deductive verification of the listed functions (see level text in MANIFEST.json)",
            "undecided": undecided[:20], "checker_errors": errors[:20],
        },
        "assumptions": assumptions.COMMON + list(P.get("assumptions", [])) + [f"assumed contract: {t}" for t in trusted],
        "wall_s": round(time.time() - t0, 2),
        "violations": vcount,
    }
    EVID.mkdir(exist_ok=True)
    (EVID / f"{pid}.json").write_text(json.dumps(ev, indent=1, default=str))
    for ln in lines:
        print(ln)
    print(f"{pid} [{tier}]: {discharged}/{obligations} obligations discharged ({by_scope['all-inputs']} all-inputs, "
          f"{by_scope['bounded-instances']} bounded-instances, {by_scope['syntactic']} syntactic, {by_scope['lemmas (induction, all inputs)']} lemma) "
          f"over {len(funcs)} functions, {len(lres)} lemmas; "
          f"oracle cases={(oracle or {}).get('cases', 0)}; violations={vcount}; undecided={len(undecided)}; errors={len(errors)}; "
          f"{time.time() - t0:.1f}s")
    if vcount:
        return 1
    if errors:
        return 3
    if undecided:
        return 2
    if obligations == 0 and P.get("level", "proof") == "proof":
        print(f"CHECKER-ERROR property={pid} zero obligations")
        return 3
    return 0


def replay(path: str) -> int:
    doc = json.loads(Path(path).read_text())
    f = doc.get("failure")
    if not f:
        print(json.dumps({"still_fails": None, "detail": "no concrete input stored; failed obligation: " + str(doc.get("obligation")),
                          "verifier_output": doc.get("verifier_output", "")[:2000]}, indent=1))
        return 0
    tmp = OUT / "replay_tmp.json"
    tmp.write_text(json.dumps({"property": doc["property"], "failure": f}))
    p = subprocess.run([VENV_PY, str(HERE / "replay" / "run.py"), "--replay", str(tmp)], capture_output=True, text=True, env=_oracle_env())
    print(p.stdout[-4000:])
    if p.returncode != 0:
        print(p.stderr[-2000:])
    return 0


def main():
    ap = argparse.ArgumentParser()
    ap.add_argument("property", nargs="?")
    ap.add_argument("--tier", default=os.environ.get("VERIF_TIER", "quick"), choices=["quick", "thorough"])
    ap.add_argument("--replay")
    ap.add_argument("--selftest-tools", action="store_true")
    ap.add_argument("--list", action="store_true")
    a = ap.parse_args()
    if a.selftest_tools:
        sys.exit(selftest_tools())
    if a.replay:
        sys.exit(replay(a.replay))
    if a.list:
        import contracts.all  # noqa
        from contracts import props
        for pid, P in sorted(props.PROPS.items()):
            print(pid, len(P.get("functions", [])), "functions", len(P.get("lemmas", [])), "lemmas")
        sys.exit(0)
    if not a.property:
        ap.error("property id required")
    try:
        sys.exit(check_property(a.property, a.tier))
    except Exception:  # noqa
        traceback.print_exc()
        sys.exit(3)


if __name__ == "__main__":
    main()
