"""Operations on (concrete | symbolic) values used by the interpreter."""
from __future__ import annotations

import z3

from . import core
from .core import SV, TInt, TBool, TReal, TName, TSeq, TSet, TDict, Ty, lift, Record, EnumVal


class Unsupported(Exception):
    """Construct outside the supported subset -> the function is undecided, never pass/violation."""


class NeedFork(Exception):
    def __init__(self, cond):
        self.cond = cond


class PyRaise(Exception):
    """The interpreted program raises."""

    def __init__(self, exc):
        self.exc = exc


class ExcVal:
    def __init__(self, cls: str, args=(), kwargs=None):
        self.cls, self.args, self.kwargs = cls, tuple(args), kwargs or {}

    def __repr__(self):
        return f"{self.cls}{self.args}"


class Closure:
    def __init__(self, node, env, name=None, qualname=None):
        self.node, self.env, self.name, self.qualname = node, env, name, qualname


class ModuleRef:
    def __init__(self, dotted):
        self.dotted = dotted

    def __repr__(self):
        return f"<module {self.dotted}>"


class ClassRef:
    def __init__(self, dotted):
        self.dotted = dotted

    def __repr__(self):
        return f"<class {self.dotted}>"

    def __eq__(self, o):
        return isinstance(o, ClassRef) and o.dotted == self.dotted

    def __hash__(self):
        return hash(self.dotted)


class FuncRef:
    """Reference to a repository function that has a contract (or will be inlined)."""

    def __init__(self, dotted, co_name=None, fresh=False):
        self.dotted, self.co_name, self.fresh = dotted, co_name, fresh  # fresh: a new function object, not the module-level one

    def __repr__(self):
        return f"<function {self.dotted}>"


class BoundMethod:
    def __init__(self, obj, name, impl=None):
        self.obj, self.name, self.impl = obj, name, impl


class PyBuiltin:
    def __init__(self, name):
        self.name = name


# ---- iterables --------------------------------------------------------------


class SymIter:
    """Symbolic finite iterable: length() and at(j)."""

    def length(self):
        raise NotImplementedError

    def at(self, j):
        raise NotImplementedError


class SeqIter(SymIter):
    def __init__(self, seq: SV):
        self.seq = seq

    def length(self):
        return SV(TInt, z3.Length(self.seq.t))

    def at(self, j):
        return SV(self.seq.ty.args[0], self.seq.t[as_int(j).t])


class EnumIter(SymIter):
    def __init__(self, inner: SymIter, start=0):
        self.inner, self.start = inner, start

    def length(self):
        return self.inner.length()

    def at(self, j):
        return (arith("+", j, self.start), self.inner.at(j))


class ZipIter(SymIter):
    def __init__(self, inners):
        self.inners = inners

    def length(self):
        ls = [as_int(i.length()).t for i in self.inners]
        m = ls[0]
        for l in ls[1:]:
            m = z3.If(l < m, l, m)
        return SV(TInt, m)

    def at(self, j):
        return tuple(i.at(j) for i in self.inners)


class RangeIter(SymIter):
    def __init__(self, start, stop, step=1):
        self.start, self.stop, self.step = start, stop, step
        if not isinstance(step, int) or step <= 0:
            raise Unsupported("range with symbolic or non-positive step")

    def length(self):
        a, b = as_int(self.start).t, as_int(self.stop).t
        n = (b - a + (self.step - 1)) / self.step if self.step != 1 else b - a
        return SV(TInt, z3.If(n < 0, z3.IntVal(0), n))

    def at(self, j):
        return SV(TInt, as_int(self.start).t + as_int(j).t * self.step)


class ItemsIter(SymIter):
    def __init__(self, d: SV, mode="items"):
        self.d, self.mode = d, mode

    def length(self):
        return SV(TInt, z3.Length(core.dict_keys(self.d).t))

    def at(self, j):
        k = SV(self.d.ty.args[0], core.dict_keys(self.d).t[as_int(j).t])
        if self.mode == "keys":
            return k
        v = core.dict_get(self.d, k)
        return v if self.mode == "values" else (k, v)


class SetIter(SymIter):
    """Iteration over an unordered collection: the order is an uninterpreted sequence that is
    fresh for every execution of an iteration site (most permissive reading of CPython)."""

    def __init__(self, s: SV, site: str):
        self.s = s
        ety = s.ty.args[0]
        self.site = site
        self.order = core.fresh(TSeq(ety), f"iterorder[{site}]")
        self.pos = z3.Function(f"iterpos[{site}]!{next(core._FRESH)}", ety.sort(), z3.IntSort())

    def member_fact(self, k_term):
        """the element visited at step k is a member"""
        return z3.Select(self.s.t, self.order.t[k_term])

    def visited_fact(self, g_term):
        """every member g is visited at its (Skolem) position"""
        p = self.pos(g_term)
        return z3.Implies(z3.Select(self.s.t, g_term),
                          z3.And(p >= 0, p < z3.Length(self.order.t), self.order.t[p] == g_term))

    def position_fact(self, k_term):
        """positions are consistent: the element at step k has position k (elements are visited once)"""
        return z3.Implies(z3.And(k_term >= 0, k_term < z3.Length(self.order.t)), self.pos(self.order.t[k_term]) == k_term)

    def length(self):
        return SV(TInt, z3.Length(self.order.t))

    def at(self, j):
        return SV(self.s.ty.args[0], self.order.t[as_int(j).t])


# ---- helpers ----------------------------------------------------------------


def is_sym(v):
    return isinstance(v, SV)


def as_int(v) -> SV:
    if isinstance(v, SV):
        return v
    return lift(v)


def zbool(v):
    """z3 Bool term of a value used as a condition (python truthiness)."""
    if isinstance(v, SV):
        k = v.ty.kind
        if k == "bool":
            return v.t
        if k in ("int", "real"):
            return v.t != 0
        if k == "seq":
            return z3.Length(v.t) > 0
        if k == "dict":
            return z3.Length(core.dict_keys(v).t) > 0
        if k == "set":
            return v.t != z3.K(v.ty.args[0].sort(), z3.BoolVal(False))
        if k == "opt":
            return v.t != v.ty.sort().none
        if k == "u":
            if v.ty.name in TRUTH:
                return TRUTH[v.ty.name](v)
            return z3.BoolVal(True)
        raise Unsupported(f"truthiness of {v.ty!r}")
    if hasattr(v, "model_truth"):
        return zbool(v.model_truth())
    return z3.BoolVal(bool(v))


def _same(a, b):
    """lift a, b to a common type"""
    if isinstance(a, SV) and isinstance(b, SV):
        if a.ty == b.ty:
            return a, b
        if a.ty.kind == "int" and b.ty.kind == "real":
            return lift(a, TReal), b
        if a.ty.kind == "real" and b.ty.kind == "int":
            return a, lift(b, TReal)
        if a.ty.kind == "opt" and b.ty == a.ty.args[0]:
            return a, lift(b, a.ty)
        if b.ty.kind == "opt" and a.ty == b.ty.args[0]:
            return lift(a, b.ty), b
        raise Unsupported(f"incompatible types {a.ty!r} / {b.ty!r}")
    if isinstance(a, SV):
        return a, lift(b, a.ty)
    if isinstance(b, SV):
        return lift(a, b.ty), b
    return a, b


def py_eq(a, b):
    """value of a == b : python bool or SV bool"""
    if isinstance(a, EnumVal) and not isinstance(b, SV):
        return a == b
    if isinstance(b, EnumVal) and not isinstance(a, SV):
        return b == a
    if isinstance(a, (tuple, list)) and isinstance(b, (tuple, list)) and (
        any(isinstance(x, SV) for x in a) or any(isinstance(x, SV) for x in b)
    ):
        if len(a) != len(b):
            return False
        parts = [py_eq(x, y) for x, y in zip(a, b)]
        if any(p is False for p in parts):
            return False
        ts = [p.t for p in parts if isinstance(p, SV)]
        return SV(TBool, z3.And(*ts)) if ts else True
    if isinstance(a, Record) and isinstance(b, Record):
        if a.cls != b.cls:
            return False
        return py_eq(tuple(a.fields.values()), tuple(b.fields.values()))
    if not isinstance(a, SV) and not isinstance(b, SV):
        return a == b
    for x, y in ((a, b), (b, a)):
        if isinstance(x, SV) and x.ty.kind == "u" and x.ty.name in STR_VIEW and (isinstance(y, (str, EnumVal)) or (isinstance(y, SV) and y.ty == TName)):
            return py_eq(STR_VIEW[x.ty.name](x), y)  # str subclasses (lark Token) compare by text
    if CURRENT_MODE[0] == "code" and isinstance(a, SV) and isinstance(b, SV) and a.ty == b.ty and a.ty.kind == "u" and a.ty.name in EQ_HOOK:
        return EQ_HOOK[a.ty.name](a, b)  # python-level __eq__ of the class (attrs equality), not identity
    if a is None or b is None:
        sv = a if isinstance(a, SV) else b
        if sv.ty.kind == "opt":
            return SV(TBool, sv.t == sv.ty.sort().none)
        if sv.ty.kind == "u" and sv.ty.name in NONE_TEST:
            return NONE_TEST[sv.ty.name](sv)
        return False
    try:
        a, b = _same(a, b)
    except (Unsupported, core.LiftError):
        return False
    return SV(TBool, a.t == b.t)


def py_not(v):
    if hasattr(v, "model_truth"):
        v = v.model_truth()
    if isinstance(v, SV):
        return SV(TBool, z3.Not(zbool(v)))
    return not v


def arith(op, a, b):
    if not isinstance(a, SV) and not isinstance(b, SV):
        if op == "+":
            return a + b
        if op == "-":
            return a - b
        if op == "*":
            return a * b
        if op == "/":
            return a / b
        if op == "//":
            return a // b
        if op == "%":
            return a % b
        if op == "**":
            return a ** b
        raise Unsupported(op)
    # string concatenation on names
    if (isinstance(a, SV) and a.ty == TName) or (isinstance(b, SV) and b.ty == TName):
        if op != "+":
            raise Unsupported(f"{op} on names")
        a, b = lift(a, TName), lift(b, TName)
        f = core.uf("name_concat", TName.sort(), TName.sort(), TName.sort())
        return SV(TName, f(a.t, b.t))
    # sequences
    if (isinstance(a, SV) and a.ty.kind == "seq") or (isinstance(b, SV) and b.ty.kind == "seq"):
        if op != "+":
            raise Unsupported(f"{op} on sequences")
        if isinstance(a, SV):
            b = lift(b, a.ty)
        else:
            a = lift(a, b.ty)
        return SV(a.ty, z3.Concat(a.t, b.t))
    # sets
    if isinstance(a, SV) and a.ty.kind == "set":
        b = lift(b, a.ty)
        if op == "|":
            return SV(a.ty, z3.Map(_or_decl(), a.t, b.t))
        if op == "-":
            return SV(a.ty, z3.Map(_and_decl(), a.t, z3.Map(_not_decl(), b.t)))
        if op == "&":
            return SV(a.ty, z3.Map(_and_decl(), a.t, b.t))
        raise Unsupported(f"{op} on sets")
    # Sym arithmetic is registered by the sympy model
    for v in (a, b):
        if isinstance(v, SV) and v.ty.kind == "u":
            h = SYM_ARITH.get(v.ty.name)
            if h:
                return h(op, a, b)
    a, b = _same(a, b)
    if a.ty.kind not in ("int", "real"):
        raise Unsupported(f"arithmetic {op} on {a.ty!r}")
    if op == "+":
        return SV(a.ty, a.t + b.t)
    if op == "-":
        return SV(a.ty, a.t - b.t)
    if op == "*":
        return SV(a.ty, a.t * b.t)
    if op == "/":
        return SV(TReal, z3.ToReal(a.t) / z3.ToReal(b.t) if a.ty.kind == "int" else a.t / b.t)
    if op == "//" and a.ty.kind == "int":
        return SV(TInt, a.t / b.t)
    if op == "%" and a.ty.kind == "int":
        return SV(TInt, a.t % b.t)
    raise Unsupported(f"arithmetic {op}")


SYM_ARITH: dict = {}  # sort name -> handler(op, a, b)
CURRENT_MODE = ["spec"]  # set by the interpreter: `==` in real code is the class's __eq__, in contracts it is identity
EQ_HOOK: dict = {}  # sort name -> callable(a, b) -> SV bool
STR_VIEW: dict = {}  # sort name -> callable(sv) -> SV Name: objects that are str subclasses
TRUTH: dict = {}  # sort name -> callable(sv) -> z3 Bool (python truthiness of such objects)
NONE_TEST: dict = {}  # sort name -> callable(sv) -> SV bool  (value may be None)
SYM_COMPARE: dict = {}
SYM_UNARY: dict = {}


def _or_decl():
    return z3.Or(z3.Bool("p"), z3.Bool("q")).decl()


def _and_decl():
    return z3.And(z3.Bool("p"), z3.Bool("q")).decl()


def _not_decl():
    return z3.Not(z3.Bool("p")).decl()


def compare(op, a, b):
    if op == "==":
        return py_eq(a, b)
    if op == "!=":
        return py_not(py_eq(a, b))
    if op in ("is", "is not"):
        if b is None or a is None:
            r = py_eq(a, b) if (isinstance(a, SV) or isinstance(b, SV)) else (a is b)
        elif isinstance(a, SV) or isinstance(b, SV):
            for v in (a, b):
                if isinstance(v, SV) and v.ty.kind == "u" and v.ty.name in SYM_COMPARE:
                    r = SYM_COMPARE[v.ty.name]("is", a, b)
                    break
            else:
                saved = CURRENT_MODE[0]
                CURRENT_MODE[0] = "spec"  # `is` is identity, never the class's __eq__
                try:
                    r = py_eq(a, b)
                finally:
                    CURRENT_MODE[0] = saved
        else:
            r = a is b or (a == b and isinstance(a, (bool, int, str, EnumVal)))
        return r if op == "is" else py_not(r)
    if op in ("in", "not in"):
        r = contains(b, a)
        return r if op == "in" else py_not(r)
    if not isinstance(a, SV) and not isinstance(b, SV):
        return {"<": a < b, "<=": a <= b, ">": a > b, ">=": a >= b}[op]
    for v in (a, b):
        if isinstance(v, SV) and v.ty.kind == "u" and v.ty.name in SYM_COMPARE:
            return SYM_COMPARE[v.ty.name](op, a, b)
    a, b = _same(a, b)
    if a.ty.kind == "set":
        # subset order on sets; a counterexample element is a Skolem witness the solver finds itself
        lo, hi = (a, b) if op in ("<", "<=") else (b, a)
        sub = z3.IsSubset(lo.t, hi.t)
        return SV(TBool, sub if op in ("<=", ">=") else z3.And(sub, lo.t != hi.t))
    if a.ty.kind not in ("int", "real"):
        raise Unsupported(f"ordering comparison on {a.ty!r}")
    t = {"<": a.t < b.t, "<=": a.t <= b.t, ">": a.t > b.t, ">=": a.t >= b.t}[op]
    return SV(TBool, t)


def contains(container, x):
    if hasattr(container, "has") and hasattr(container, "kty"):
        return container.has(x)
    if isinstance(container, SV):
        k = container.ty.kind
        if k == "set":
            return SV(TBool, z3.Select(container.t, lift(x, container.ty.args[0]).t))
        if k == "dict":
            return SV(TBool, core.dict_has(container, lift(x, container.ty.args[0])))
        if k == "seq":
            return SV(TBool, z3.Contains(container.t, z3.Unit(lift(x, container.ty.args[0]).t)))
        if container.ty == TName:
            f = core.uf("str.contains", TName.sort(), TName.sort(), z3.BoolSort())
            return SV(TBool, f(container.t, lift(x, TName).t))
        raise Unsupported(f"'in' on {container.ty!r}")
    if isinstance(container, str):
        if isinstance(x, SV):
            raise Unsupported("substring test with symbolic needle")
        if isinstance(x, EnumVal):
            x = x.value
        return x in container
    if isinstance(container, (list, tuple, set, frozenset)):
        if not isinstance(x, SV) and not any(isinstance(c, SV) for c in container):
            return any(py_eq(x, c) is True for c in container)
        parts = [py_eq(x, c) for c in container]
        if any(p is True for p in parts):
            return True
        ts = [p.t for p in parts if isinstance(p, SV)]
        return SV(TBool, z3.Or(*ts)) if ts else False
    if isinstance(container, dict):
        if isinstance(x, SV):
            return contains(list(container.keys()), x)
        return x in container
    raise Unsupported(f"'in' on {type(container).__name__}")


ITER_HOOK: dict = {}  # sort name -> callable(sv) -> SymIter (objects that are iterable, e.g. a tuple of atoms)


def to_iter(v, site="?"):
    """Return a python list (concrete iteration) or a SymIter."""
    if isinstance(v, SymIter):
        return v
    if isinstance(v, SV) and v.ty.kind == "u" and v.ty.name in ITER_HOOK:
        return ITER_HOOK[v.ty.name](v)
    if hasattr(v, "model_iter"):
        return v.model_iter()
    if isinstance(v, SV):
        if v.ty.kind == "seq":
            return SeqIter(v)
        if v.ty.kind == "dict":
            return ItemsIter(v, "keys")
        if v.ty.kind == "set":
            return SetIter(v, site)
        raise Unsupported(f"iteration over {v.ty!r}")
    if isinstance(v, (list, tuple)):
        return list(v)
    if isinstance(v, dict):
        return list(v.keys())
    if isinstance(v, str):
        return list(v)
    if isinstance(v, EnumVal):
        return list(v.value)
    if isinstance(v, (set, frozenset)):
        if len(v) <= 1:
            return list(v)
        raise Unsupported("iteration over a concrete python set with >1 elements (order)")
    raise Unsupported(f"iteration over {type(v).__name__}")


def length(v):
    if isinstance(v, SymIter):
        return v.length()
    if isinstance(v, SV):
        if v.ty.kind == "seq":
            return SV(TInt, z3.Length(v.t))
        if v.ty.kind == "dict":
            return SV(TInt, z3.Length(core.dict_keys(v).t))
        if v.ty.kind == "set":
            f = core.uf(f"card<{v.ty.args[0]!r}>", v.ty.sort(), z3.IntSort())
            return SV(TInt, f(v.t))
        raise Unsupported(f"len of {v.ty!r}")
    if isinstance(v, EnumVal):
        return len(v.value)
    return len(v)


def subscript(v, idx):
    if hasattr(v, "get") and hasattr(v, "kty"):
        return v.get(idx)
    if isinstance(v, SV):
        k = v.ty.kind
        if k == "seq":
            if isinstance(idx, slice):
                lo = as_int(0 if idx.start is None else idx.start).t
                n = z3.Length(v.t)
                hi = n if idx.stop is None else as_int(idx.stop).t
                if idx.step not in (None, 1):
                    raise Unsupported("slice step")
                if not (idx.start is None or isinstance(idx.start, SV) or idx.start >= 0):
                    lo = n + lo
                if not (idx.stop is None or isinstance(idx.stop, SV) or idx.stop >= 0):
                    hi = n + hi
                return SV(v.ty, z3.Extract(v.t, lo, hi - lo))
            i = as_int(idx)
            if not isinstance(idx, SV) and idx < 0:
                return SV(v.ty.args[0], v.t[z3.Length(v.t) + idx])
            return SV(v.ty.args[0], v.t[i.t])
        if k == "dict":
            return core.dict_get(v, lift(idx, v.ty.args[0]))
        h = SUBSCRIPT.get(v.ty.name if k == "u" else None)
        if h:
            return h(v, idx)
        raise Unsupported(f"subscript on {v.ty!r}")
    if isinstance(v, Record) and v.cls in SUBSCRIPT:
        return SUBSCRIPT[v.cls](v, idx)
    if isinstance(v, EnumVal):
        v = v.value
    if isinstance(idx, SV):
        if isinstance(v, (list, tuple)) and v:
            return subscript(lift(v), idx)
        if isinstance(v, dict) and v:
            return subscript(lift(v), idx)
        raise Unsupported("symbolic index into concrete container")
    return v[idx]


SUBSCRIPT: dict = {}


def seq_of(values, ty: Ty | None = None):
    """list -> stays a python list; used by list(...)/tuple(...)"""
    return list(values)
