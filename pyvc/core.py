"""pyvc core: sorts, type descriptors, symbolic values, spec functions, unfolding.

Runs under python3-vt (z3-solver).  Nothing here executes gotranx.

Encoding assumptions (also emitted in every evidence file, see report.py):
  * Python ints are mathematical integers, floats are SMT reals.
  * Strings that name things are an uninterpreted sort `Name`; distinct string
    literals are distinct constants.
  * tuples/lists are z3 sequences; dicts are (insertion-ordered key sequence,
    domain array, value array); sets are extensional arrays into Bool.
  * objects of repository classes are values of an uninterpreted sort with one
    total function per field (AttributeError/TypeError are not modelled).
"""
from __future__ import annotations

import itertools
import z3

# ----------------------------------------------------------------------------
# type descriptors
# ----------------------------------------------------------------------------

_SORTS: dict[str, z3.SortRef] = {}
_DTS: dict[str, z3.DatatypeSortRef] = {}


def usort(name: str) -> z3.SortRef:
    if name not in _SORTS:
        _SORTS[name] = z3.DeclareSort(name)
    return _SORTS[name]


class Ty:
    """Type descriptor.  kind in int,bool,real,u,seq,set,dict,dt,opt,rec,enum,any"""

    __slots__ = ("kind", "name", "args")

    def __init__(self, kind, name=None, args=()):
        self.kind, self.name, self.args = kind, name, tuple(args)

    def __repr__(self):
        if self.kind in ("int", "bool", "real", "any"):
            return self.kind
        if self.kind in ("u", "dt", "rec", "enum"):
            return self.name
        return f"{self.kind}[{','.join(map(repr, self.args))}]"

    def __eq__(self, o):
        return isinstance(o, Ty) and repr(self) == repr(o)

    def __hash__(self):
        return hash(repr(self))

    def sort(self) -> z3.SortRef:
        k = self.kind
        if k == "int":
            return z3.IntSort()
        if k == "bool":
            return z3.BoolSort()
        if k == "real":
            return z3.RealSort()
        if k == "u":
            return usort(self.name)
        if k == "dt":
            return _DTS[self.name]
        if k == "seq":
            return z3.SeqSort(self.args[0].sort())
        if k == "set":
            return z3.ArraySort(self.args[0].sort(), z3.BoolSort())
        if k == "dict":
            return dict_sort(self.args[0], self.args[1])
        if k == "opt":
            return opt_sort(self.args[0])
        raise TypeError(f"type {self!r} has no z3 sort")


TInt, TBool, TReal, TAny = Ty("int"), Ty("bool"), Ty("real"), Ty("any")


def TU(name):
    return Ty("u", name)


def TSeq(e):
    return Ty("seq", None, (e,))


def TSet(e):
    return Ty("set", None, (e,))


def TDict(k, v):
    return Ty("dict", None, (k, v))


def TOpt(e):
    return Ty("opt", None, (e,))


TName = TU("Name")
TSym = TU("Sym")


def dict_sort(k: Ty, v: Ty):
    nm = f"Dict<{k!r},{v!r}>"
    if nm not in _DTS:
        d = z3.Datatype(nm)
        d.declare(
            "mkdict",
            ("keys", z3.SeqSort(k.sort())),
            ("dom", z3.ArraySort(k.sort(), z3.BoolSort())),
            ("map", z3.ArraySort(k.sort(), v.sort())),
        )
        _DTS[nm] = d.create()
    return _DTS[nm]


def opt_sort(e: Ty):
    nm = f"Opt<{e!r}>"
    if nm not in _DTS:
        d = z3.Datatype(nm)
        d.declare("none")
        d.declare("some", ("val", e.sort()))
        _DTS[nm] = d.create()
    return _DTS[nm]


def declare_datatype(name: str, ctors: list[tuple[str, list[tuple[str, Ty]]]]):
    d = z3.Datatype(name)
    for cname, fields in ctors:
        d.declare(cname, *[(f, t.sort()) for f, t in fields])
    _DTS[name] = d.create()
    return _DTS[name]


def parse_ty(s) -> Ty:
    """'Seq[Atom]', 'Dict[Name,Int]', 'Set[Name]', 'Opt[Atom]', 'Int', 'Bool', 'Real', '<Sort>'"""
    if isinstance(s, Ty):
        return s
    s = s.strip()
    low = s.lower()
    if low in ("int",):
        return TInt
    if low in ("bool",):
        return TBool
    if low in ("real", "float"):
        return TReal
    if low == "any":
        return TAny
    if "[" in s:
        head, rest = s.split("[", 1)
        rest = rest[: rest.rindex("]")]
        parts, depth, cur = [], 0, ""
        for ch in rest:
            if ch == "[":
                depth += 1
            if ch == "]":
                depth -= 1
            if ch == "," and depth == 0:
                parts.append(cur)
                cur = ""
            else:
                cur += ch
        parts.append(cur)
        a = [parse_ty(p) for p in parts]
        h = head.strip().lower()
        if h == "seq":
            return TSeq(a[0])
        if h == "set":
            return TSet(a[0])
        if h == "dict":
            return TDict(a[0], a[1])
        if h == "opt":
            return TOpt(a[0])
        raise ValueError(s)
    if s in _DTS:
        return Ty("dt", s)
    if s in RECORDS:
        return Ty("rec", s)
    if s in ENUMS:
        return Ty("enum", s)
    return TU(s)


# ----------------------------------------------------------------------------
# symbolic values
# ----------------------------------------------------------------------------


class SV:
    """A symbolic value: a z3 term with a type descriptor."""

    __slots__ = ("ty", "t")

    def __init__(self, ty: Ty, t):
        self.ty, self.t = ty, t

    def __repr__(self):
        return f"SV<{self.ty!r}>({self.t})"


class Record:
    """Python-level record (NamedTuple / small struct) with possibly symbolic fields."""

    def __init__(self, cls: str, fields: dict):
        self.cls, self.fields = cls, dict(fields)

    def __repr__(self):
        return f"{self.cls}({self.fields})"


class EnumVal:
    def __init__(self, cls, member, value):
        self.cls, self.member, self.value = cls, member, value

    def __repr__(self):
        return f"{self.cls}.{self.member}"

    def __eq__(self, o):
        if isinstance(o, EnumVal):
            return (self.cls, self.member) == (o.cls, o.member)
        if isinstance(o, str):  # str-Enum semantics
            return self.value == o
        return NotImplemented

    def __hash__(self):
        return hash(self.value)


RECORDS: dict[str, dict[str, str]] = {}  # record class -> field -> type string
ENUMS: dict[str, list[tuple[str, object]]] = {}  # enum class -> [(member, value)]

# ----------------------------------------------------------------------------
# names / literals
# ----------------------------------------------------------------------------

_LITS: dict[str, z3.ExprRef] = {}


def name_lit(s: str):
    if s not in _LITS:
        _LITS[s] = z3.Const("lit:" + s, TName.sort())
    return _LITS[s]


def lit_value(t):
    """the python string of a name literal term, else None"""
    if z3.is_const(t) and t.decl().name().startswith("lit:"):
        return t.decl().name()[4:]
    return None


def literal_axioms():
    v = list(_LITS.values())
    return [z3.Distinct(*v)] if len(v) > 1 else []


_FRESH = itertools.count()


def fresh(ty: Ty, hint="v") -> SV:
    return SV(ty, z3.Const(f"{hint}!{next(_FRESH)}", ty.sort()))


_UFS: dict[str, z3.FuncDeclRef] = {}


def uf(name: str, *sorts) -> z3.FuncDeclRef:
    key = name
    if key not in _UFS:
        _UFS[key] = z3.Function(name, *sorts)
    else:
        f = _UFS[key]
        have = [f.domain(i) for i in range(f.arity())] + [f.range()]
        if [s.sexpr() for s in have] != [s.sexpr() for s in sorts]:
            raise TypeError(f"uninterpreted function {name} re-declared with different sorts: {have} vs {sorts}")
    return _UFS[key]


# ----------------------------------------------------------------------------
# lifting concrete python values
# ----------------------------------------------------------------------------


class LiftError(Exception):
    pass


COERCIONS: dict = {}  # (repr(from_ty) | python type name, repr(to_ty)) -> callable(value) -> SV


def lift(v, ty: Ty | None = None) -> SV:
    """Turn a concrete python value (possibly containing SVs) into an SV."""
    if isinstance(v, SV):
        if ty is not None and ty.kind != "any" and v.ty != ty:
            co = COERCIONS.get((repr(v.ty), repr(ty)))
            if co is not None:
                return co(v)
            if ty.kind == "real" and v.ty.kind == "int":
                return SV(TReal, z3.ToReal(v.t))
            if ty.kind == "opt" and v.ty == ty.args[0]:
                return SV(ty, ty.sort().some(v.t))
            if v.ty.kind == "opt" and v.ty.args[0] == ty:
                return SV(ty, v.ty.sort().val(v.t))  # an Optional used where its value is expected (None case excluded by the path)
            raise LiftError(f"type mismatch: have {v.ty!r}, want {ty!r}")
        return v
    if ty is not None and not isinstance(v, SV):
        co = COERCIONS.get((type(v).__name__, repr(ty)))
        if co is not None:
            return co(v)
    if ty is not None and ty.kind == "opt":
        if v is None:
            return SV(ty, ty.sort().none)
        return SV(ty, ty.sort().some(lift(v, ty.args[0]).t))
    if isinstance(v, bool):
        return SV(TBool, z3.BoolVal(v))
    if isinstance(v, int):
        if ty is not None and ty.kind == "real":
            return SV(TReal, z3.RealVal(v))
        return SV(TInt, z3.IntVal(v))
    if isinstance(v, float):
        return SV(TReal, z3.RealVal(repr(v)))
    if isinstance(v, EnumVal):
        v = v.value
    if isinstance(v, str):
        return SV(TName, name_lit(v))
    if isinstance(v, (list, tuple)) and not v and ty is not None and ty.kind == "dict":
        return dict_empty(ty)  # an empty container used where a mapping is expected (only membership is asked)
    if isinstance(v, (list, tuple)):
        if ty is None or ty.kind != "seq":
            if not v:
                raise LiftError("cannot infer element type of empty list")
            elems = [lift(x) for x in v]
            ety = elems[0].ty
        else:
            ety = ty.args[0]
            elems = [lift(x, ety) for x in v]
        sty = TSeq(ety)
        if not elems:
            return SV(sty, z3.Empty(sty.sort()))
        t = z3.Unit(elems[0].t)
        for e in elems[1:]:
            t = z3.Concat(t, z3.Unit(e.t))
        return SV(sty, t)
    if isinstance(v, (set, frozenset)):
        if ty is None or ty.kind != "set":
            if not v:
                raise LiftError("cannot infer element type of empty set")
            elems = [lift(x) for x in v]
            ety = elems[0].ty
        else:
            ety = ty.args[0]
            elems = [lift(x, ety) for x in v]
        t = z3.K(ety.sort(), z3.BoolVal(False))
        for e in elems:
            t = z3.Store(t, e.t, z3.BoolVal(True))
        return SV(TSet(ety), t)
    if isinstance(v, dict):
        if ty is None or ty.kind != "dict":
            if not v:
                raise LiftError("cannot infer types of empty dict")
            k0, v0 = next(iter(v.items()))
            ty = TDict(lift(k0).ty, lift(v0).ty)
        d = dict_empty(ty)
        for kk, vv in v.items():
            d = dict_set(d, lift(kk, ty.args[0]), lift(vv, ty.args[1]))
        return d
    raise LiftError(f"cannot lift {type(v).__name__} value {v!r}")


# dict operations -------------------------------------------------------------


def dict_empty(ty: Ty) -> SV:
    s = ty.sort()
    k, v = ty.args
    default = z3.Const(f"dflt<{v!r}>", v.sort())
    return SV(
        ty,
        s.mkdict(
            z3.Empty(z3.SeqSort(k.sort())),
            z3.K(k.sort(), z3.BoolVal(False)),
            z3.K(k.sort(), default),
        ),
    )


def dict_set(d: SV, k: SV, v: SV) -> SV:
    s = d.ty.sort()
    keys, dom, mp = s.keys(d.t), s.dom(d.t), s.map(d.t)
    nk = z3.If(z3.Select(dom, k.t), keys, z3.Concat(keys, z3.Unit(k.t)))
    return SV(d.ty, s.mkdict(nk, z3.Store(dom, k.t, z3.BoolVal(True)), z3.Store(mp, k.t, v.t)))


def dict_has(d: SV, k: SV):
    return z3.Select(d.ty.sort().dom(d.t), k.t)


def dict_get(d: SV, k: SV) -> SV:
    return SV(d.ty.args[1], z3.Select(d.ty.sort().map(d.t), k.t))


def dict_keys(d: SV) -> SV:
    return SV(TSeq(d.ty.args[0]), d.ty.sort().keys(d.t))


# ----------------------------------------------------------------------------
# spec functions and unfolding
# ----------------------------------------------------------------------------


class SpecDef:
    """A defined function symbol F(formals) = body, unfolded on demand at ground instances."""

    def __init__(self, decl, formals, body, side=(), schematic=()):
        self.decl, self.formals, self.body, self.side = decl, formals, body, list(side)
        self.schematic = list(schematic)  # fresh constants standing for universally quantified ghosts of callee facts

    def instance(self, actuals):
        sub = list(zip(self.formals, actuals))
        d = self.decl(*actuals) == z3.substitute(self.body, *sub)
        if not self.side:
            return d
        facts = [z3.substitute(f, *sub) for f in self.side]
        out = list(facts)
        for g in self.schematic:
            for cst in list(QUERY_CONSTS.get(g.sort().name(), {}).values())[:6]:
                if not cst.eq(g):
                    out += [z3.substitute(f, (g, cst)) for f in facts]
        return z3.And(d, *out)


SPEC_DEFS: dict[str, SpecDef] = {}
QUERY_CONSTS: dict = {}  # sort name -> {id: constant} occurring in the current query (for axioms that need e.g. the environments)


_APPS_CACHE: dict = {}  # formula id -> defined-symbol applications occurring in it (formulas are hash-consed and immutable)
_KEEP: list = []  # keeps cached formulas alive so that ids are not reused


def _apps_of(f):
    fid = f.get_id()
    hit = _APPS_CACHE.get(fid)
    if hit is not None:
        return hit
    acc, seen, stack = [], set(), [f]
    while stack:
        x = stack.pop()
        i = x.get_id()
        if i in seen:
            continue
        seen.add(i)
        if z3.is_app(x):
            if x.num_args() > 0 and x.decl().name() in SPEC_DEFS:
                acc.append(x)
            stack.extend(x.children())
        elif z3.is_quantifier(x):
            stack.append(x.body())
    _APPS_CACHE[fid] = acc
    _KEEP.append(f)
    return acc


def unfold(formulas: list, depth: int = 2, limit: int = 400) -> list:
    """Ground unfolding axioms for all defined-symbol applications reachable in `depth` rounds."""
    axioms, done = [], set()
    frontier: list = []
    QUERY_CONSTS.clear()
    for f in formulas:
        for cst in _consts_of(f):
            QUERY_CONSTS.setdefault(cst.sort().name(), {})[cst.get_id()] = cst
    for f in formulas:
        frontier.extend(_apps_of(f))
    for _ in range(depth):
        nxt: list = []
        for app in frontier:
            key = app.get_id()
            if key in done:
                continue
            done.add(key)
            sd = SPEC_DEFS.get(app.decl().name())
            if sd is None:
                continue
            inst = sd.instance(app.children())
            axioms.append(inst)
            nxt.extend(_apps_of(inst))
            if len(axioms) >= limit:
                return axioms
        frontier = nxt
        if not frontier:
            break
    return axioms


COMMUTATIVE: set[str] = set()  # names of binary function symbols assumed commutative


TERM_AXIOMS: dict = {}  # function symbol name -> callable(app) -> list of (assumed) ground facts about that term


_CONST_CACHE: dict = {}


def _consts_of(f):
    fid = f.get_id()
    hit = _CONST_CACHE.get(fid)
    if hit is not None:
        return hit
    acc, seen, stack = [], set(), [f]
    while stack:
        x = stack.pop()
        i = x.get_id()
        if i in seen:
            continue
        seen.add(i)
        if z3.is_app(x):
            if x.num_args() == 0 and x.decl().kind() == z3.Z3_OP_UNINTERPRETED:
                acc.append(x)
            stack.extend(x.children())
    _CONST_CACHE[fid] = acc
    _KEEP.append(f)
    return acc


_TAX_CACHE: dict = {}  # formula id -> one round of term-axiom instances for the terms of that formula


def _term_axioms_of(f):
    fid = f.get_id()
    hit = _TAX_CACHE.get(fid)
    if hit is not None:
        return hit
    new, seen, stack = [], set(), [f]
    while stack:
        x = stack.pop()
        i = x.get_id()
        if i in seen:
            continue
        seen.add(i)
        if z3.is_app(x):
            if x.num_args() == 2 and x.decl().name() in COMMUTATIVE:
                a, b = x.children()
                if a.get_id() != b.get_id():
                    new.append(x == x.decl()(b, a))
            h = TERM_AXIOMS.get(x.decl().name()) if x.num_args() > 0 else None
            if h is not None:
                new.extend(h(x))
            stack.extend(x.children())
        elif z3.is_quantifier(x):
            stack.append(x.body())
    _TAX_CACHE[fid] = new
    _KEEP.append(f)
    return new


def commutativity_instances(formulas: list, rounds: int = 14, limit: int = 3000) -> list:
    """ground instances of commutativity and of the registered TERM_AXIOMS for the terms of the query
    (iterated, because an instantiated axiom mentions new terms)"""
    out, have = [], set()
    frontier = list(formulas)
    QUERY_CONSTS.clear()
    for f in formulas:
        for cst in _consts_of(f):
            QUERY_CONSTS.setdefault(cst.sort().name(), {})[cst.get_id()] = cst
    for _ in range(rounds):
        new = []
        for f in frontier:
            for ax in _term_axioms_of(f):
                if ax.get_id() not in have:
                    have.add(ax.get_id())
                    new.append(ax)
        if not new or len(out) > limit:
            break
        out.extend(new)
        frontier = new
    return out
