"""developer helper: verify every non-assumed contract; print the obligations that are not discharged"""
import sys, json, multiprocessing as mp
from pathlib import Path
sys.path.insert(0, str(Path(__file__).resolve().parent.parent))
from pyvc.cli import _verify_worker


def main():
    import contracts.all  # noqa
    from pyvc import registry, extract
    pat = sys.argv[1] if len(sys.argv) > 1 else ""
    qs = []
    for q, c in registry.CONTRACTS.items():
        if c.assumed or pat not in q:
            continue
        try:
            if not q.startswith("frame:"):
                extract.find_function(c.source or q)
            qs.append(q)
        except extract.ExtractError:
            pass
    with mp.get_context("fork").Pool(16) as pool:
        from pyvc import verify as _v
        from pyvc.cli import merge_reports
        tasks = []
        for q in qs:
            nv = _v.n_variants(q)
            k = min(8, max(1, nv // 4))
            tasks += [(q, 20000, False, (i, k)) for i in range(k)] if k > 1 else [(q, 20000, False)]
        reps = merge_reports(pool.map(_verify_worker, tasks, chunksize=1))
    tot = dis = 0
    for r in reps:
        bad = [x for x in r["results"] if x["status"] != "discharged"]
        tot += len(r["results"]); dis += len(r["results"]) - len(bad)
        flag = "OK " if r["status"] == "ok" and not bad else "!! "
        print(f"{flag}{r['function']}: {r['status']} {len(r['results'])-len(bad)}/{len(r['results'])} {r['reason'][:300] if r['status']!='ok' else ''}")
        for x in bad[:6]:
            print(f"      {x['status']} {x['obligation']} :: {x['detail'][:160]!r}")
    print(f"TOTAL {dis}/{tot} over {len(qs)} functions")


if __name__ == "__main__":
    main()
