"""Symbolic interpreter for the supported Python subset (see DESIGN.md 2.2).

Executes the *real* function AST extracted from /repo.  Calls use the callee's contract,
loops over symbolic collections use sidecar invariants, branches fork paths.
"""
from __future__ import annotations

import ast
import builtins
import copy
import textwrap

import z3

from . import core, extract, registry
from .core import SV, TInt, TBool, TReal, TName, TSeq, TSet, TDict, lift, Record, EnumVal, parse_ty
from .values import (
    Unsupported, NeedFork, PyRaise, ExcVal, Closure, ModuleRef, ClassRef, FuncRef, BoundMethod,
    PyBuiltin, SymIter, SeqIter, EnumIter, ZipIter, RangeIter, ItemsIter, SetIter,
    zbool, py_eq, py_not, arith, compare, contains, to_iter, length, subscript, as_int,
)
from . import values as V

DROPPED_CALL_PREFIXES = ("logger.", "structlog.", "warnings.warn", "typer.echo", "logging.")
NOOP_NAMES = {"gotranx.schemes.logger", "gotranx.ode.logger"}


class Obligation:
    def __init__(self, name, hyps, goal, kind="ensures", line=None):
        self.name, self.hyps, self.goal, self.kind, self.line = name, list(hyps), goal, kind, line


class State:
    def __init__(self, env=None, pc=None, decisions=None, assumed=None):
        self.env = env if env is not None else {}
        self.pc = pc if pc is not None else []
        self.decisions = decisions if decisions is not None else {}
        self.assumed = assumed if assumed is not None else set()  # ids of pc entries that are assumed facts, not branch decisions

    def fork(self):
        env = dict(self.env)
        for k, v in env.items():
            if isinstance(v, ObjUnderConstruction):
                env[k] = v.copy()
        return State(env, list(self.pc), dict(self.decisions), set(self.assumed))


class Outcome:
    def __init__(self, kind, st, val=None):
        self.kind, self.st, self.val = kind, st, val


_SOLVER_TIMEOUT_MS = 400


def quick_check(pc, extra):
    s = z3.Solver()
    s.set("timeout", _SOLVER_TIMEOUT_MS)
    s.add(*pc)
    s.add(*core.literal_axioms())
    s.add(extra)
    return s.check()


class Interp:
    def __init__(self, module: str, contract=None, qualname=None):
        self.module = module
        self.imports = extract.import_table(module) if module else {}
        self.contract = contract
        self.qualname = qualname or (contract.qualname if contract else "?")
        self.obligations: list[Obligation] = []
        self._buf: list[Obligation] = []
        self.loop_no = 0
        self.comp_no = 0
        self.call_no = 0
        self.assumed_used: set[str] = set()
        self.dropped: set[str] = set()
        self.covers: list[tuple[str, list]] = []
        self.extra_globals: dict = {}
        self.mode = "code"  # or "spec"
        self.loop_ord: dict = {}
        self.comp_ord: dict = {}
        self._maybe: dict = {}
        self._last_guard = None
        self._comp_ctx = None
        self._assuming: set = set()
        self.global_effects = []
        self.inlined: set = set()
        self.fresh_ghosts: list = []

    def index_function(self, fnode):
        """syntactic ordinals of loops and comprehensions (source order) - sidecar contracts are keyed by them"""
        loops = [n for n in ast.walk(fnode) if isinstance(n, (ast.For, ast.While))]
        loops.sort(key=lambda n: (n.lineno, n.col_offset))
        self.loop_ord = {id(n): i for i, n in enumerate(loops)}
        comps = [n for n in ast.walk(fnode) if isinstance(n, (ast.ListComp, ast.GeneratorExp, ast.SetComp, ast.DictComp))]
        comps.sort(key=lambda n: (n.lineno, n.col_offset))
        self.comp_ord = {id(n): i for i, n in enumerate(comps)}
        self.n_loops, self.n_comps = len(loops), len(comps)

    # ------------------------------------------------------------------ obligations
    def oblige(self, name, st, goal, kind="ensures", line=None):
        if isinstance(goal, SV):
            goal = zbool(goal)
        elif isinstance(goal, bool):
            goal = z3.BoolVal(goal)
        self._buf.append(Obligation(f"{self.qualname}/{name}", st.pc, goal, kind, line))

    def assume(self, st, fact):
        if isinstance(fact, SV):
            fact = zbool(fact)
        elif isinstance(fact, bool):
            fact = z3.BoolVal(fact)
        st.pc.append(fact)
        st.assumed.add(fact.get_id())

    # ------------------------------------------------------------------ decisions
    def decide(self, cond, st) -> bool:
        if hasattr(cond, "model_truth"):
            cond = cond.model_truth()
        if not isinstance(cond, SV):
            return bool(cond)
        t = z3.simplify(zbool(cond))
        if z3.is_true(t):
            return True
        if z3.is_false(t):
            return False
        key = t.get_id()
        if key in st.decisions:
            return st.decisions[key]
        raise NeedFork(t)

    def maybe_raise(self, cond, exc: ExcVal, st):
        if self._comp_ctx is not None and isinstance(cond, SV) and not z3.is_true(z3.simplify(zbool(cond))) \
                and not z3.is_false(z3.simplify(zbool(cond))):
            # inside a comprehension the condition is about the generic element: either some element raises
            # (one abstract exceptional path) or no element does (fact for every element in range)
            key = ("comp", self._comp_ctx, exc.cls)
            if key not in self._maybe:
                self._maybe[key] = core.fresh(TBool, f"some_element_raises?{exc.cls}@comp{self._comp_ctx}")
            if self.decide(self._maybe[key], st):
                raise PyRaise(exc)
            self.assume(st, SV(TBool, z3.Not(zbool(cond))))
            return
        if self.decide(cond, st):
            raise PyRaise(exc)

    # ------------------------------------------------------------------ name resolution
    def resolve_global(self, name):
        if name in self.extra_globals:
            return self.extra_globals[name]
        if name in registry.SPECS and (self.mode == "spec"):
            return registry.SPECS[name]
        if name in self.imports:
            return self.dotted_value(self.imports[name])
        if name in registry.SPECS:
            return registry.SPECS[name]
        if hasattr(builtins, name):
            return PyBuiltin(name)
        raise Unsupported(f"unresolved name {name}")

    def dotted_value(self, dotted):
        if dotted in registry.CLASS_OF and dotted in registry.CONTRACTS:
            return ClassRef(dotted)  # a modelled class that also has a call-site contract for its constructor
        if dotted in registry.CONTRACTS:
            return FuncRef(dotted)
        if dotted in registry.EXTERNALS:
            return registry.EXTERNALS[dotted]
        if dotted in registry.CLASS_OF or dotted in core.RECORDS_BY_DOTTED or dotted in core.ENUMS_BY_DOTTED:
            return ClassRef(dotted)
        if dotted in CONSTANTS:
            return CONSTANTS[dotted]
        root = dotted.split(".")[0]
        if root in STDLIB_PASSTHROUGH and "." in dotted:
            import importlib
            try:
                obj = importlib.import_module(root)
                for part in dotted.split(".")[1:]:
                    obj = getattr(obj, part)
                if callable(obj):
                    return StdlibCall(dotted, obj)
                if isinstance(obj, (int, float, str)):
                    return obj
            except (ImportError, AttributeError):
                pass
        if extract.is_module(dotted) or dotted.split(".")[0] in EXTERNAL_ROOTS:
            if extract.is_module(dotted):
                return ModuleRef(dotted)
            # external attribute chain, maybe modelled later
            return ModuleRef(dotted)
        # maybe a repo function without contract / class
        head, last = dotted.rsplit(".", 1)
        if not extract.is_module(head) and head.count(".") >= 1 and extract.is_module(head.rsplit(".", 1)[0]):
            try:
                extract.find_function(dotted)  # Class.method
                return FuncRef(dotted)
            except extract.ExtractError:
                pass
        if extract.is_module(head):
            tree, _ = extract.load_module(head)
            for node in tree.body:
                if isinstance(node, ast.ClassDef) and node.name == last:
                    return ClassRef(dotted)
            tbl = _imports_of(head)
            if last in tbl and tbl[last] != dotted:
                return self.dotted_value(tbl[last])  # a name the module imported
            return FuncRef(dotted)
        return ModuleRef(dotted)

    # ------------------------------------------------------------------ expressions
    def ev(self, node, st):
        if self.contract is not None and self.contract.abstractions and self.mode == "code" and isinstance(node, (ast.Call, ast.ListComp, ast.GeneratorExp)):
            txt = ast.unparse(node)
            if txt in self.contract.abstractions:
                self.assumed_used.add(f"expression abstraction in {self.qualname}: `{txt}` read as `{self.contract.abstractions[txt]}`")
                return self.ev_contract_expr(self.contract.abstractions[txt], st)
        m = getattr(self, "ev_" + type(node).__name__, None)
        if m is None:
            raise Unsupported(f"expression {type(node).__name__} at line {getattr(node, 'lineno', '?')}")
        return m(node, st)

    def ev_Constant(self, n, st):
        return n.value

    def ev_Name(self, n, st):
        if n.id in st.env:
            return st.env[n.id]
        return self.resolve_global(n.id)

    def ev_Tuple(self, n, st):
        out = []
        for e in n.elts:
            if isinstance(e, ast.Starred):
                it = to_iter(self.ev(e.value, st))
                if isinstance(it, SymIter):
                    raise Unsupported("starred symbolic iterable in tuple")
                out.extend(it)
            else:
                out.append(self.ev(e, st))
        return tuple(out)

    def ev_List(self, n, st):
        return list(self.ev_Tuple(n, st))

    def ev_Set(self, n, st):
        vals = [self.ev(e, st) for e in n.elts]
        if any(isinstance(v, SV) for v in vals):
            return lift(set(vals) if False else frozenset(vals))
        return set(vals)

    def ev_Dict(self, n, st):
        d = {}
        for k, v in zip(n.keys, n.values):
            if k is None:
                inner = self.ev(v, st)
                if not isinstance(inner, dict):
                    raise Unsupported("** of symbolic dict in dict display")
                d.update(inner)
            else:
                kk = self.ev(k, st)
                if isinstance(kk, SV):
                    raise Unsupported("dict display with symbolic key")
                d[kk] = self.ev(v, st)
        return d

    def ev_JoinedStr(self, n, st):
        parts = []
        for v in n.values:
            if isinstance(v, ast.Constant):
                parts.append(v.value)
            else:
                x = self.ev(v.value, st)
                if v.conversion == ord("r"):
                    x = repr(x) if not isinstance(x, SV) else x
                parts.append(x)
        if all(not isinstance(p, SV) for p in parts):
            return "".join(p.value if isinstance(p, EnumVal) else (p if isinstance(p, str) else str(p)) for p in parts)
        return self.format_string(parts, n)

    def format_string(self, parts, node):
        """an f-string with symbolic holes: hook (string-skeleton aware contexts override)"""
        h = registry.EXTERNALS.get("__fstring__")
        if h is None:
            raise Unsupported("f-string with symbolic parts")
        return h(self, parts, node)

    def ev_UnaryOp(self, n, st):
        v = self.ev(n.operand, st)
        if isinstance(n.op, ast.Not):
            return py_not(v)
        if isinstance(n.op, ast.USub):
            if isinstance(v, SV):
                if v.ty.kind == "u" and v.ty.name in V.SYM_UNARY:
                    return V.SYM_UNARY[v.ty.name]("-", v)
                return SV(v.ty, -v.t)
            return -v
        if isinstance(n.op, ast.UAdd):
            return v
        raise Unsupported("unary op")

    _BIN = {ast.Add: "+", ast.Sub: "-", ast.Mult: "*", ast.Div: "/", ast.FloorDiv: "//", ast.Mod: "%",
            ast.Pow: "**", ast.BitOr: "|", ast.BitAnd: "&"}

    def ev_BinOp(self, n, st):
        a, b = self.ev(n.left, st), self.ev(n.right, st)
        op = self._BIN.get(type(n.op))
        if op is None:
            raise Unsupported("binary op")
        if op == "%" and isinstance(a, str):
            if any(isinstance(x, SV) for x in (b if isinstance(b, tuple) else (b,))):
                return "<formatted>"
            return a % b
        if op == "|" and isinstance(a, (set, frozenset)) and isinstance(b, (set, frozenset)):
            return a | b
        if op == "*" and isinstance(a, str):
            if isinstance(b, SV):
                raise Unsupported("str * symbolic int")
            return a * b
        return arith(op, a, b)

    def ev_BoolOp(self, n, st):
        is_and = isinstance(n.op, ast.And)
        vals = []
        for e in n.values:
            v = self.ev(e, st)
            if not isinstance(v, SV):
                if is_and and not v:
                    if not vals:
                        return v
                    vals.append(False)
                    break
                if (not is_and) and v:
                    if not vals:
                        return v
                    vals.append(True)
                    break
                if e is n.values[-1] and not vals:
                    return v
                continue
            if v.ty.kind != "bool":
                # python returns the operand; decide its truthiness
                d = self.decide(SV(TBool, zbool(v)), st)
                if is_and and not d:
                    return v
                if (not is_and) and d:
                    return v
                if e is n.values[-1]:
                    return v
                continue
            vals.append(v)
        ts = [zbool(v) if isinstance(v, SV) else z3.BoolVal(v) for v in vals]
        if not ts:
            return is_and
        return SV(TBool, z3.And(*ts) if is_and else z3.Or(*ts))

    _CMP = {ast.Eq: "==", ast.NotEq: "!=", ast.Lt: "<", ast.LtE: "<=", ast.Gt: ">", ast.GtE: ">=",
            ast.Is: "is", ast.IsNot: "is not", ast.In: "in", ast.NotIn: "not in"}

    def ev_Compare(self, n, st):
        V.CURRENT_MODE[0] = self.mode
        left = self.ev(n.left, st)
        res = []
        for op, c in zip(n.ops, n.comparators):
            right = self.ev(c, st)
            res.append(compare(self._CMP[type(op)], left, right))
            left = right
        if len(res) == 1:
            return res[0]
        if any(r is False for r in res):
            return False
        ts = [r.t for r in res if isinstance(r, SV)]
        return SV(TBool, z3.And(*ts)) if ts else True

    def ev_IfExp(self, n, st):
        c = self.ev(n.test, st)
        if not isinstance(c, SV):
            return self.ev(n.body if c else n.orelse, st)
        ct = z3.simplify(zbool(c))
        if z3.is_true(ct):
            return self.ev(n.body, st)
        if z3.is_false(ct):
            return self.ev(n.orelse, st)
        if ct.get_id() in st.decisions:
            return self.ev(n.body if st.decisions[ct.get_id()] else n.orelse, st)
        # try to merge
        try:
            s1, s2 = st.fork(), st.fork()
            a, b = self.ev(n.body, s1), self.ev(n.orelse, s2)
            if len(s1.pc) == len(st.pc) and len(s2.pc) == len(st.pc):
                if isinstance(a, list) and isinstance(b, list) and (not a or not b):
                    other = a or b
                    if other:
                        ty = lift(other).ty
                        a, b = lift(a, ty), lift(b, ty)
                if isinstance(a, SV) or isinstance(b, SV):
                    a, b = V._same(a, b)
                    return SV(a.ty, z3.If(ct, a.t, b.t))
        except (Unsupported, core.LiftError, NeedFork, PyRaise):
            pass
        raise NeedFork(ct)

    def ev_NamedExpr(self, n, st):
        v = self.ev(n.value, st)
        st.env[n.target.id] = v
        return v

    def ev_Lambda(self, n, st):
        return Closure(n, dict(st.env))

    def ev_Starred(self, n, st):
        raise Unsupported("starred expression")

    def ev_Slice(self, n, st):
        return slice(*(None if x is None else self.ev(x, st) for x in (n.lower, n.upper, n.step)))

    def ev_Subscript(self, n, st):
        v = self.ev(n.value, st)
        idx = self.ev(n.slice, st)
        if hasattr(v, "model_subscript"):
            return v.model_subscript(self, st, idx)
        if isinstance(v, (ClassRef, ModuleRef, PyBuiltin)):
            return v  # typing subscripts
        if isinstance(v, SV) and v.ty.kind == "u" and (v.ty.name, "__getitem__") in registry.METHODS:
            c = registry.CONTRACTS[registry.METHODS[(v.ty.name, "__getitem__")]]
            return self.call_contract(c, [v, idx], {}, st)
        if isinstance(v, SV) and v.ty.kind == "dict":
            k = lift(idx, v.ty.args[0])
            if self.mode == "code":
                self.maybe_raise(SV(TBool, z3.Not(core.dict_has(v, k))), ExcVal("KeyError", (idx,)), st)
        if isinstance(v, dict) and not isinstance(idx, SV):
            key = idx
            if key not in v:
                for kk in v:
                    if py_eq(kk, key) is True:
                        key = kk
                        break
                else:
                    raise PyRaise(ExcVal("KeyError", (idx,)))
            return v[key]
        return subscript(v, idx)

    def ev_Attribute(self, n, st):
        # dotted module paths
        obj = self.ev(n.value, st)
        return self.getattr(obj, n.attr, st, n)

    def getattr(self, obj, attr, st, node=None):
        if isinstance(obj, ModuleRef):
            return self.dotted_value(f"{obj.dotted}.{attr}")
        if isinstance(obj, ClassRef):
            d = obj.dotted
            if d in core.ENUMS_BY_DOTTED:
                en = core.ENUMS_BY_DOTTED[d]
                for mname, mval in core.ENUMS[en]:
                    if mname == attr:
                        return EnumVal(en, mname, mval)
            full = f"{d}.{attr}"
            if full in registry.CONTRACTS:
                return FuncRef(full)
            if full in registry.EXTERNALS:
                return registry.EXTERNALS[full]
            return self.dotted_value(full)
        if isinstance(obj, TypeOf) and attr == "__name__":
            v_ = obj.v
            return SV(TName, core.uf(f"{v_.ty.name}.__class__.__name__", v_.ty.sort(), TName.sort())(v_.t))
        if isinstance(obj, FuncRef):
            if attr == "__code__":
                return Record("code", {"co_name": obj.co_name or obj.dotted.rsplit(".", 1)[1], "_func": obj})
            if attr in ("__globals__", "__defaults__", "__closure__", "__kwdefaults__", "__doc__", "__dict__", "__name__"):
                return Record("funcattr", {"of": obj.dotted, "attr": attr})
            raise Unsupported(f"attribute {attr} of function")
        if isinstance(obj, Record):
            if attr in obj.fields:
                return obj.fields[attr]
            h = registry.EXTERNALS.get(f"{obj.cls}.{attr}")
            if h:
                return h(self, st, obj)
            if obj.cls == "code" and attr == "replace":
                return BoundMethod(obj, "replace")
            fb = getattr(registry, "RECORD_ATTR_FALLBACK", {}).get(obj.cls)
            if fb is not None:
                return fb(self, st, obj, attr)
            raise Unsupported(f"record {obj.cls} has no field {attr}")
        if isinstance(obj, EnumVal):
            if attr == "value":
                return obj.value
            if attr == "name":
                return obj.member
            return getattr_str(obj.value, attr)
        if isinstance(obj, SV):
            return self.getattr_sv(obj, attr, st)
        if hasattr(obj, "model_method"):
            return BoundMethod(obj, attr)
        if isinstance(obj, ObjUnderConstruction):
            if attr in obj.fields:
                return obj.fields[attr]
            if (obj.sort, attr) in registry.METHODS:
                return BoundMethod(self.freeze(obj, st), attr)
            raise Unsupported(f"attribute {attr} read before it is set on the object under construction")
        if isinstance(obj, Closure) and attr == "__code__":
            return Record("code", {"co_name": obj.name, "_func": obj})
        if isinstance(obj, str):
            return getattr_str(obj, attr)
        if isinstance(obj, (list, tuple, dict, set, frozenset)):
            return BoundMethod(obj, attr)
        if isinstance(obj, ExcVal):
            if attr in obj.kwargs:
                return obj.kwargs[attr]
        if isinstance(obj, PyBuiltin) and obj.name == "str":
            return PyBuiltin("str." + attr)
        if isinstance(obj, PyBuiltin) and obj.name == "object" and attr == "__setattr__":
            return PyBuiltin("object.__setattr__")
        raise Unsupported(f"attribute {attr} on {type(obj).__name__}")

    def freeze(self, obj, st):
        """the object under construction as a term of its sort: the fields assigned so far have their values, everything else
        (class attributes, fields not yet assigned) is unconstrained; the same term while no further field is assigned"""
        key = tuple((k_, id(v_)) for k_, v_ in obj.fields.items())
        if obj.frozen is not None and obj.frozen[0] == key:
            return obj.frozen[1]
        m = registry.CLASS_MODELS[obj.sort]
        new = core.fresh(core.TU(obj.sort), "self")
        for f_, v_ in obj.fields.items():
            if f_ in m.fields:
                ft = registry.field_term(obj.sort, f_, new.t)
                try:
                    st.pc.append(ft.t == lift(v_, ft.ty).t)
                except core.LiftError:
                    pass
        obj.frozen = (key, new)
        return new

    def getattr_sv(self, obj: SV, attr, st):
        k = obj.ty.kind
        if k == "u":
            sort = obj.ty.name
            m = registry.CLASS_MODELS.get(sort)
            if m and attr in m.fields:
                return registry.field_term(sort, attr, obj.t)
            if m and attr in m.properties:
                return self.call_contract(registry.CONTRACTS[m.properties[attr]], [obj], {}, st)
            if (sort, attr) in registry.METHODS:
                return BoundMethod(obj, attr)
            h = registry.EXTERNALS.get(f"{sort}.{attr}")
            if h is not None:
                return h(self, st, obj)
            fb = getattr(registry, "SORT_ATTR_FALLBACK", {}).get(sort)
            if fb is not None:
                r_ = fb(self, st, obj, attr)
                if r_ is not None:
                    return r_
            raise Unsupported(f"{sort} has no modelled attribute '{attr}'")
        if k in ("dict", "set", "seq"):
            return BoundMethod(obj, attr)
        if k == "opt":
            inner = SV(obj.ty.args[0], obj.ty.sort().val(obj.t))
            return self.getattr_sv(inner, attr, st)
        raise Unsupported(f"attribute {attr} on {obj.ty!r}")

    # comprehension ---------------------------------------------------------
    def ev_ListComp(self, n, st):
        return self.comprehension(n, st, "list")

    def ev_GeneratorExp(self, n, st):
        return self.comprehension(n, st, "list")

    def ev_SetComp(self, n, st):
        r = self.comprehension(n, st, "set")
        if isinstance(r, list):
            if any(isinstance(x, SV) for x in r):
                return lift(frozenset(r))
            return set(r)
        return r

    def ev_DictComp(self, n, st):
        return self.comprehension(n, st, "dict")

    def seq_to_set(self, seq: SV):
        ety = seq.ty.args[0]
        f = core.uf(f"set_of_seq<{ety!r}>", seq.ty.sort(), TSet(ety).sort())
        return SV(TSet(ety), f(seq.t))

    def bind_target(self, target, value, st):
        if isinstance(target, ast.Name):
            st.env[target.id] = value
        elif isinstance(target, (ast.Tuple, ast.List)):
            if isinstance(value, Record):
                value = tuple(value.fields.values())
            if isinstance(value, SV) and value.ty.kind == "seq":
                n = len(target.elts)
                st.pc.append(z3.Length(value.t) == n)  # TypeError/ValueError on arity mismatch not modelled
                value = [SV(value.ty.args[0], value.t[i]) for i in range(n)]
            if isinstance(value, SV):
                raise Unsupported("unpacking a symbolic value")
            vals = list(value)
            if len(vals) != len(target.elts):
                raise Unsupported("unpack arity")
            for t, v in zip(target.elts, vals):
                self.bind_target(t, v, st)
        else:
            raise Unsupported(f"assignment target {type(target).__name__}")

    def comprehension(self, n, st, kind):
        if len(n.generators) != 1:
            raise Unsupported("nested comprehension generators")
        g = n.generators[0]
        it = to_iter(self.ev(g.iter, st), site=f"{self.qualname}:{n.lineno}")
        inner = st.fork()
        if isinstance(it, list):
            out_l, out_d = [], {}
            for x in it:
                self.bind_target(g.target, x, inner)
                keep = True
                for cond in g.ifs:
                    c = self.ev(cond, inner)
                    if not self.decide(c, inner):
                        keep = False
                        break
                if not keep:
                    continue
                if kind == "dict":
                    kk = self.ev(n.key, inner)
                    if isinstance(kk, SV):
                        raise Unsupported("dict comprehension over concrete list with symbolic key")
                    out_d[kk] = self.ev(n.value, inner)
                else:
                    out_l.append(self.ev(n.elt, inner))
            st.pc[:] = inner.pc
            return out_d if kind == "dict" else out_l
        # symbolic: define Comp_site(j) by recursion on the prefix length
        self.comp_no += 1
        ordinal = self.comp_ord.get(id(n), -1)
        if isinstance(it, SetIter):
            st.env[f"ORDER{ordinal}"] = it.order  # the (arbitrary) iteration order, so that contracts can talk about it
        saved_ctx = self._comp_ctx
        self._comp_ctx = ordinal
        try:
            return self._comprehension_symbolic(n, st, kind, g, it, inner, ordinal)
        finally:
            self._comp_ctx = saved_ctx

    def _comprehension_symbolic(self, n, st, kind, g, it, inner, ordinal):
        j = core.fresh(TInt, "cj")
        elem = it.at(SV(TInt, j.t - 1))
        rng = z3.And(j.t >= 1, j.t <= as_int(it.length()).t)
        inner.pc.append(rng)
        self.bind_target(g.target, elem, inner)
        npc = len(inner.pc)
        conds = []
        for cond in g.ifs:
            conds.append(zbool(self.ev(cond, inner)) if isinstance(self.ev(cond, inner), SV) else z3.BoolVal(bool(self.ev(cond, inner))))
        keep = z3.And(*conds) if conds else z3.BoolVal(True)
        if kind == "dict":
            kv = lift(self.ev(n.key, inner))
            vv = lift(self.ev(n.value, inner))
            rty = TDict(kv.ty, vv.ty)
        else:
            ev_ = lift(self.ev(n.elt, inner))
            rty = TSeq(ev_.ty)
        # facts assumed while evaluating the element expression (callee postconditions): valid for every
        # element in range; instantiated together with the definition
        side = [z3.Implies(rng, f) for f in inner.pc[npc:]]
        name = f"comp[{self.qualname}#{ordinal}@{next(core._FRESH)}]"
        F = z3.Function(name, z3.IntSort(), rty.sort())
        prev = F(j.t - 1)
        if kind == "set":
            rty = TSet(ev_.ty)
            F = z3.Function(name, z3.IntSort(), rty.sort())
            prev = F(j.t - 1)
            step = z3.Store(prev, ev_.t, z3.BoolVal(True))
            base = z3.K(ev_.ty.sort(), z3.BoolVal(False))
        elif kind == "dict":
            step = core.dict_set(SV(rty, prev), kv, vv).t
            base = core.dict_empty(rty).t
        else:
            step = z3.Concat(prev, z3.Unit(ev_.t))
            base = z3.Empty(rty.sort())
        body = z3.If(j.t <= 0, base, z3.If(keep, step, prev))
        core.SPEC_DEFS[name] = core.SpecDef(F, [j.t], body, side, list(self.fresh_ghosts))
        n_t = as_int(it.length()).t
        result = SV(rty, F(n_t))
        # sidecar lemma: comp(j) == spec(j), proved by induction and then assumed at len
        c = self.contract
        if c is not None and ordinal in c.comps and self.mode == "code":
            self.comp_lemma(ordinal, c.comps[ordinal], F, n_t, rty, st)
        return result

    def comp_lemma(self, ordinal, spec_expr, F, n_t, rty, st):
        jj = core.fresh(TInt, "j")
        env = dict(st.env)

        def spec_at(jterm):
            s2 = State(dict(env), list(st.pc), dict(st.decisions))
            s2.env["j"] = SV(TInt, jterm)
            return lift(self.ev_contract_expr(spec_expr, s2), rty)

        base_goal = F(z3.IntVal(0)) == spec_at(z3.IntVal(0)).t
        self.oblige(f"comp{ordinal}.lemma.base", st, base_goal, "comp")
        s3 = st.fork()
        s3.pc += [jj.t >= 0, jj.t < n_t, F(jj.t) == spec_at(jj.t).t]
        self.oblige(f"comp{ordinal}.lemma.step", s3, F(jj.t + 1) == spec_at(jj.t + 1).t, "comp")
        st.pc.append(z3.Implies(n_t >= 0, F(n_t) == spec_at(n_t).t))

    # calls -----------------------------------------------------------------
    def ev_Call(self, n, st):
        # dropped calls (logging etc.)
        try:
            txt = ast.unparse(n.func)
        except Exception:
            txt = ""
        if txt.startswith(DROPPED_CALL_PREFIXES):
            self.dropped.add(txt)
            return None
        if (isinstance(n.func, ast.Attribute) and n.func.attr == "setdefault" and isinstance(n.func.value, ast.Name)
                and isinstance(st.env.get(n.func.value.id), SV) and st.env[n.func.value.id].ty.kind == "dict"):
            d = st.env[n.func.value.id]
            key = lift(self.ev(n.args[0], st), d.ty.args[0])
            val = lift(self.ev(n.args[1], st), d.ty.args[1])
            had = core.dict_has(d, key)
            old = core.dict_get(d, key)
            st.env[n.func.value.id] = SV(d.ty, z3.If(had, d.t, core.dict_set(d, key, val).t))
            return SV(val.ty, z3.If(had, old.t, val.t))
        if txt == "final" and self.mode == "spec" and len(n.args) == 1 and isinstance(n.args[0], ast.Name) and "__final__" in st.env:
            return st.env["__final__"][n.args[0].id]  # value of a (rebound / updated) variable at the return
        if txt == "object.__setattr__" and len(n.args) == 3 and isinstance(n.args[0], ast.Name):
            base = st.env.get(n.args[0].id)
            fld = self.ev(n.args[1], st)
            val = self.ev(n.args[2], st)
            if isinstance(base, ObjUnderConstruction) and isinstance(fld, str):
                base.fields[fld] = val
                return None
            if isinstance(base, SV) and base.ty.kind == "u" and isinstance(fld, str):
                m = registry.CLASS_MODELS.get(base.ty.name)
                if m is None or fld not in m.fields:
                    raise Unsupported(f"object.__setattr__ of unmodelled field {fld}")
                # functional update: a new object term that agrees with the old one on every other field (and its class)
                new = core.fresh(base.ty, n.args[0].id)
                for f_ in m.fields:
                    ft_new = registry.field_term(base.ty.name, f_, new.t)
                    if f_ == fld:
                        st.pc.append(ft_new.t == lift(val, ft_new.ty).t)
                    else:
                        st.pc.append(ft_new.t == registry.field_term(base.ty.name, f_, base.t).t)
                st.pc.append(registry.tag_term(base.ty.name, new.t) == registry.tag_term(base.ty.name, base.t))
                st.env[n.args[0].id] = new
                return None
            raise Unsupported("object.__setattr__ on this receiver")
        if txt == "returns" and self.mode == "spec" and len(n.args) == 1:
            # returns(f(args)): the mentioned call terminates normally (True for a function that cannot raise)
            self._last_guard = None
            self.ev(n.args[0], st)
            g_ = self._last_guard
            return SV(TBool, g_ if g_ is not None else z3.BoolVal(True))
        f = self.ev(n.func, st)
        args, kwargs = [], {}
        for a in n.args:
            if isinstance(a, ast.Starred):
                v = self.ev(a.value, st)
                it = to_iter(v, site=f"{self.qualname}:{n.lineno}")
                if isinstance(it, SymIter):
                    args.append(StarArgs(it, v))
                else:
                    args.extend(it)
            else:
                args.append(self.ev(a, st))
        for k in n.keywords:
            if k.arg is None:
                v = self.ev(k.value, st)
                if not isinstance(v, dict):
                    raise Unsupported("**kwargs with symbolic mapping")
                kwargs.update(v)
            else:
                kwargs[k.arg] = self.ev(k.value, st)
        return self.call(f, args, kwargs, st, n)

    def call(self, f, args, kwargs, st, node=None):
        if isinstance(f, PyBuiltin) and isinstance(getattr(builtins, f.name, None), type) and issubclass(getattr(builtins, f.name), BaseException):
            return ExcVal(f.name, args, kwargs)
        if isinstance(f, PyBuiltin):
            return self.call_builtin(f.name, args, kwargs, st, node)
        if isinstance(f, FuncRef):
            c = registry.CONTRACTS.get(f.dotted)
            if c is None:
                return self.inline_concrete(f, args, kwargs, st)
            return self.call_contract(c, args, kwargs, st)
        if isinstance(f, ClassRef):
            return self.construct(f, args, kwargs, st)
        if isinstance(f, BoundMethod):
            return self.call_method(f, args, kwargs, st, node)
        if isinstance(f, Closure):
            return self.call_closure(f, args, kwargs, st)
        if isinstance(f, SV) and f.ty.kind == "u" and f.ty.name in registry.CALLABLE_SORTS:
            c = registry.CONTRACTS[registry.CALLABLE_SORTS[f.ty.name]]
            return self.call_contract(c, [f] + list(args), kwargs, st)
        if callable(f):
            return f(self, st, *args, **kwargs)
        raise Unsupported(f"call of {f!r}")

    def inline_concrete(self, f, args, kwargs, st):
        """a repository function without contract may be executed in place when every argument is concrete
        (its real body is interpreted; it must be deterministic and single-path on these arguments)"""
        def concrete(v):
            if isinstance(v, (SV, SymIter)):
                return False
            if isinstance(v, (list, tuple, set, frozenset)):
                return all(concrete(x) for x in v)
            if isinstance(v, dict):
                return all(concrete(x) for x in v.values())
            return True
        if not all(concrete(a) for a in list(args) + list(kwargs.values())):
            raise Unsupported(f"call to {f.dotted} which has no contract (symbolic arguments)")
        try:
            fi = extract.find_function(f.dotted)
        except extract.ExtractError as e:
            raise Unsupported(f"call to {f.dotted}: {e}")
        sub = Interp(fi.module, qualname=f.dotted)
        sub.mode = self.mode
        a = fi.node.args
        names = [x.arg for x in a.posonlyargs + a.args]
        env = {}
        for nme, dflt in zip(names[len(names) - len(a.defaults):], a.defaults):
            env[nme] = sub.ev(dflt, State())
        for kw, dflt in zip(a.kwonlyargs, a.kw_defaults):
            if dflt is not None:
                env[kw.arg] = sub.ev(dflt, State())
        env.update(dict(zip(names, args)))
        if a.vararg is not None:
            env[a.vararg.arg] = tuple(args[len(names):])
        elif len(args) > len(names):
            raise PyRaise(ExcVal("TypeError", ("too many positional arguments",)))
        extra = {k: v for k, v in kwargs.items() if k not in names and k not in [x.arg for x in a.kwonlyargs]}
        env.update({k: v for k, v in kwargs.items() if k not in extra})
        if a.kwarg is not None:
            env[a.kwarg.arg] = extra
        elif extra:
            raise PyRaise(ExcVal("TypeError", (f"unexpected keyword {list(extra)}",)))
        missing = [n_ for n_ in names if n_ not in env]
        if missing:
            raise Unsupported(f"inline call {f.dotted}: missing {missing}")
        outs = sub.exec_block(fi.node.body, State(env, list(st.pc)))
        self.dropped |= sub.dropped
        self.inlined.add(f.dotted)
        rets = [o for o in outs if o.kind in ("return", "fall")]
        if len(outs) == 1 and outs[0].kind == "raise":
            raise PyRaise(outs[0].val)
        if len(outs) != 1 or not rets:
            raise Unsupported(f"inlined call to {f.dotted} has several paths")
        return rets[0].val if rets[0].kind == "return" else None

    def construct(self, cref: ClassRef, args, kwargs, st):
        d = cref.dotted
        if d in core.ENUMS_BY_DOTTED:
            en = core.ENUMS_BY_DOTTED[d]
            (v,) = args
            if isinstance(v, EnumVal) and v.cls == en:
                return v
            if isinstance(v, EnumVal):
                v = v.value
            if isinstance(v, SV):
                raise Unsupported("enum construction from symbolic value")
            for mname, mval in core.ENUMS[en]:
                if mval == v:
                    return EnumVal(en, mname, mval)
            raise PyRaise(ExcVal("ValueError", (v,)))
        if d in core.RECORDS_BY_DOTTED:
            rn = core.RECORDS_BY_DOTTED[d]
            spec = core.RECORDS[rn]
            names = list(spec)
            fields = {}
            for nme, v in zip(names, args):
                fields[nme] = v
            fields.update(kwargs)
            defaults = core.RECORD_DEFAULTS.get(rn, {})
            for nme in names:
                if nme not in fields:
                    if nme in defaults:
                        fields[nme] = defaults[nme]
                    else:
                        raise Unsupported(f"record {rn}: missing field {nme}")
            return Record(rn, {nme: fields[nme] for nme in names})
        ctor = registry.CONTRACTS.get(d + ".__init__")
        if ctor is None or ctor.params.get("self") == "PyObj":  # an __init__ contract on the object under construction is for its body only
            ctor = registry.CONTRACTS.get(d) or (None if ctor is not None and ctor.params.get("self") == "PyObj" and d not in registry.CONTRACTS else ctor)
        if ctor is not None:
            return self.call_contract(ctor, args, kwargs, st)
        h = registry.EXTERNALS.get(d)
        if h is not None:
            return h(self, st, *args, **kwargs)
        if d in registry.ATTRS_CLASSES:
            # ASSUMED: the attrs-generated __init__ stores each keyword argument in the field of the same name; fields that
            # __attrs_post_init__ may replace (listed per class) and defaulted fields stay unconstrained
            sort, replaced = registry.ATTRS_CLASSES[d]
            m = registry.CLASS_MODELS[sort]
            self.assumed_used.add(f"attrs-generated {d}.__init__ stores its keyword arguments in the fields of the same name")
            if args:
                raise Unsupported(f"{d}: positional construction of a kw_only attrs class")
            obj = core.fresh(core.TU(sort), d.rsplit(".", 1)[1].lower())
            st.pc.append(registry.tag_term(sort, obj.t) == m.tags[d])
            for k_, v_ in kwargs.items():
                if k_ not in m.fields:
                    raise Unsupported(f"{d}: unmodelled field {k_}")
                if k_ in replaced:
                    continue
                ft = registry.field_term(sort, k_, obj.t)
                st.pc.append(ft.t == lift(v_, ft.ty).t)
            return obj
        simple = d.rsplit(".", 1)[1]
        if d.startswith("gotranx.exceptions.") or simple.endswith(("Error", "Exception")) or hasattr(builtins, simple) and isinstance(getattr(builtins, simple), type) and issubclass(getattr(builtins, simple), BaseException):
            return ExcVal(simple, args, kwargs)
        raise Unsupported(f"construction of {d}")

    def call_closure(self, f: Closure, args, kwargs, st):
        node = f.node
        a = node.args
        names = [x.arg for x in a.posonlyargs + a.args]
        env = dict(f.env)
        # late binding of the enclosing function's variables
        for k, v in st.env.items():
            if k not in env or k in f.env:
                env.setdefault(k, v)
        defaults = a.defaults
        dvals = {}
        for nme, dnode in zip(names[len(names) - len(defaults):], defaults):
            dvals[nme] = self.ev(dnode, st)
        bound = dict(zip(names, args))
        bound.update(kwargs)
        for nme in names:
            if nme not in bound:
                if nme in dvals:
                    bound[nme] = dvals[nme]
                else:
                    raise Unsupported(f"closure call: missing argument {nme}")
        env.update(bound)
        if f.qualname and f.qualname in registry.CONTRACTS:
            return self.call_contract(registry.CONTRACTS[f.qualname], args, kwargs, st)
        if isinstance(node, ast.Lambda):
            s2 = State(env, st.pc, st.decisions, st.assumed)
            return self.ev(node.body, s2)
        # inline non-recursive nested def: must be single-path
        s2 = State(env, list(st.pc), st.decisions, st.assumed)
        outs = self.exec_block(node.body, s2)
        rets = [o for o in outs if o.kind in ("return", "fall")]
        raises = [o for o in outs if o.kind == "raise"]
        if len(rets) == 1 and not raises:
            st.pc[:] = rets[0].st.pc
            return rets[0].val if rets[0].kind == "return" else None
        raise Unsupported("inlined nested function with several paths (needs a contract)")

    def call_method(self, bm: BoundMethod, args, kwargs, st, node):
        obj, name = bm.obj, bm.name
        if hasattr(obj, "model_method"):
            return obj.model_method(self, st, name, args, kwargs)
        if bm.impl is not None:
            return bm.impl(self, st, *args, **kwargs)
        if isinstance(obj, Record) and obj.cls == "code" and name == "replace":
            r = Record("code", dict(obj.fields))
            r.fields.update(kwargs)
            return r
        if isinstance(obj, SV):
            k = obj.ty.kind
            if k == "u":
                c = registry.CONTRACTS[registry.METHODS[(obj.ty.name, name)]]
                return self.call_contract(c, [obj] + list(args), kwargs, st)
            if k == "dict":
                if name == "items":
                    return ItemsIter(obj, "items")
                if name == "keys":
                    return ItemsIter(obj, "keys")
                if name == "values":
                    return ItemsIter(obj, "values")
                if name == "get":
                    key = lift(args[0], obj.ty.args[0])
                    dflt = args[1] if len(args) > 1 else kwargs.get("default")
                    got = core.dict_get(obj, key)
                    if dflt is None:
                        oty = core.TOpt(got.ty)
                        return SV(oty, z3.If(core.dict_has(obj, key), oty.sort().some(got.t), oty.sort().none))
                    d = lift(dflt, got.ty)
                    return SV(got.ty, z3.If(core.dict_has(obj, key), got.t, d.t))
            if k == "set":
                if name in ("union", "difference", "intersection"):
                    op = {"union": "|", "difference": "-", "intersection": "&"}[name]
                    r = obj
                    for a in args:
                        r = arith(op, r, self.to_set(a, obj.ty))
                    return r
                if name == "copy":
                    return obj
            if k == "seq":
                if name == "index":
                    raise Unsupported("list.index")
            raise Unsupported(f"method {name} on {obj.ty!r}")
        if isinstance(obj, dict):
            if name == "items":
                return list(obj.items())
            if name == "keys":
                return list(obj.keys())
            if name == "values":
                return list(obj.values())
            if name == "get":
                key = args[0]
                if isinstance(key, SV):
                    raise Unsupported("dict.get with symbolic key on concrete dict")
                return obj.get(key, args[1] if len(args) > 1 else None)
        if isinstance(obj, (list, tuple)) and name in ("index", "count") and not any(isinstance(x, SV) for x in list(obj) + list(args)):
            return getattr(obj, name)(*args)
        if isinstance(obj, (set, frozenset)) and name in ("union", "difference", "intersection", "copy"):
            if all(isinstance(a, (set, frozenset)) for a in args):
                return getattr(obj, name)(*args)
            if not obj and args:
                s = self.to_set(args[0], None)
                if name == "union":
                    return s
        raise Unsupported(f"method {name} on {type(obj).__name__}")

    def to_set(self, v, ty):
        if isinstance(v, SV) and v.ty.kind == "set":
            return v
        if isinstance(v, SV) and v.ty.kind == "seq":
            return self.seq_to_set(v)
        if isinstance(v, (set, frozenset, list, tuple)):
            if not v and ty is None:
                raise Unsupported("empty set of unknown type")
            return lift(frozenset(v), ty)
        raise Unsupported("to_set")

    # contract calls --------------------------------------------------------
    def signature(self, c):
        """(names, defaults) from the real source if available, else from the contract."""
        if True:
            try:
                try:
                    fi = extract.find_function(c.qualname)
                except extract.ExtractError:
                    fi = extract.find_function(c.qualname + ".__init__")  # a contract on a class: the signature of its constructor
                a = fi.node.args
                names = [x.arg for x in a.posonlyargs + a.args]
                defaults = {}
                for nme, d in zip(names[len(names) - len(a.defaults):], a.defaults):
                    defaults[nme] = d
                for kw, d in zip(a.kwonlyargs, a.kw_defaults):
                    names.append(kw.arg)
                    if d is not None:
                        defaults[kw.arg] = d
                if list(c.params)[:1] == ["self"] and names[:1] != ["self"]:
                    names = ["self"] + names  # staticmethod / protocol called through an instance
                if names[:1] == ["self"] and "self" not in c.params:
                    names = names[1:]  # constructor contract: the new object is the result
                if a.vararg is not None:
                    names = names + [p_ for p_ in c.params if p_ not in names]  # *args: positional order of the contract
                return names, defaults, fi
            except extract.ExtractError:
                pass
        return list(c.params), {}, None

    def call_contract(self, c, args, kwargs, st, verify_requires=True):
        self.call_no += 1
        callno = self.call_no
        names, defaults, fi = self.signature(c)
        bound = {}
        pos = list(args)
        for nme, v in zip(names, pos):
            bound[nme] = v
        if len(pos) > len(names):
            raise Unsupported(f"too many positional args calling {c.qualname}")
        kwname = fi.node.args.kwarg.arg if (fi is not None and fi.node.args.kwarg is not None) else None
        if kwname and kwname in c.params:
            bound[kwname] = {}
        for k, v in kwargs.items():
            if k in names or k in c.params:
                bound[k] = v
            elif kwname and kwname in c.params:
                bound[kwname][k] = v
            elif kwname:
                bound[k] = v
            else:
                raise PyRaise(ExcVal("TypeError", (f"unexpected keyword {k}",)))
        for nme in names:
            if nme not in bound:
                if nme in defaults:
                    sub = Interp(fi.module) if fi else self
                    bound[nme] = sub.ev(defaults[nme], State())
                elif nme in c.params and c.params[nme].startswith("?"):
                    bound[nme] = None
                elif nme in c.params or fi is not None:
                    raise Unsupported(f"missing argument {nme} calling {c.qualname}")
        env = {}
        uf_args = []
        uf_suffix = ""
        for nme, tystr in c.params.items():
            if nme not in bound:
                raise Unsupported(f"contract {c.qualname}: parameter {nme} not bound")
            v = bound[nme]
            t = tystr.lstrip("?")
            if t.startswith("Rec:"):
                if not isinstance(v, Record):
                    raise Unsupported(f"calling {c.qualname}: argument {nme} is not a record")
                env[nme] = v
                uf_args.extend(record_terms(v))
                continue
            if t.startswith(("Fn:", "Py", "Enum:")) or t == "any":
                env[nme] = v
                if t.startswith("Enum:") or t == "PyStr":
                    if isinstance(v, SV):
                        if v.ty != TName:
                            v = lift(v, TName)
                            env[nme] = v
                        uf_args.append(v)
                    else:
                        uf_args.append(lift(v.value if isinstance(v, EnumVal) else v))
                elif t == "PyList":
                    uf_args.append(lift(v) if v else None)
                elif t == "PyFunc" and isinstance(v, FuncRef):
                    uf_args.append(lift(f"{v.dotted}|{v.co_name or v.dotted.rsplit('.', 1)[1]}"))
                elif t == "PyDict" and isinstance(v, dict):
                    uf_suffix += "<" + ",".join(sorted(v)) + ">"
                    for kk in sorted(v):
                        try:
                            uf_args.append(lift(v[kk]))
                        except core.LiftError:
                            pass
                continue
            ty = parse_ty(t)
            try:
                sv = lift(v, ty)
            except core.LiftError as e:
                raise Unsupported(f"calling {c.qualname}: argument {nme}: {e}")
            env[nme] = sv
            uf_args.append(sv)
        uf_args = [a for a in uf_args if a is not None]
        for cv, cty in c.captured.items():
            if cv not in st.env:
                raise Unsupported(f"calling {c.qualname}: captured variable {cv} not in scope")
            env[cv] = lift(st.env[cv], parse_ty(cty))
            uf_args.append(env[cv])
        for g, gty in c.ghost.items():
            # a callee postcondition with ghosts is universally quantified: instantiate it with the caller's
            # same-named ghost (pointwise facts flow along) or, failing that, with an arbitrary fresh constant
            cand = st.env.get(g)
            if isinstance(cand, SV) and cand.ty == parse_ty(gty):
                env[g] = cand
            else:
                env[g] = core.fresh(parse_ty(gty), g)
                self.fresh_ghosts.append(env[g].t)
        for wname, (wty, _wexpr) in c.witness.items():
            env[wname] = core.fresh(parse_ty(wty), wname)  # exists: proved for a specific term in the body
        if c.traced and self.mode == "code":
            st.env["__trace__"] = st.env.get("__trace__", ()) + ((c.qualname, dict(env)),)
        cst = State(env, st.pc, st.decisions, st.assumed)
        cmod = contract_module(c)
        for g, gexpr in c.where.items():
            cst.env[g] = self.ev_contract_expr(gexpr, cst, cmod)
        if verify_requires and self.mode == "code":
            for i, r in enumerate(c.requires):
                self.oblige(f"call{callno}:{c.qualname.rsplit('.', 1)[-1]}.requires[{i}]", st,
                            self.ev_contract_expr(r, cst, cmod), "call-requires")
        if c.assumed:
            self.assumed_used.add(c.qualname)
        # normal-termination guard: the postconditions of a function that may raise are facts about the calls that
        # return.  In code mode the continuation after the call *is* a normal return; in spec mode (a mention inside a
        # contract) the facts stay guarded, otherwise a postcondition that no result can satisfy for some arguments
        # (find_state when no state has that name) would make everything after the mention vacuous.
        ret_guard = None
        if c.raises:
            exact = [w_ for w_ in c.raises.values() if w_ != "maybe"]
            conds = [zbool(lift(self.ev_contract_expr(w_, cst, cmod))) for w_ in exact]
            if len(exact) == len(c.raises):
                ret_guard = z3.Not(z3.Or(*conds)) if conds else None
            else:
                gargs = [a_ for a_ in uf_args]
                if c.pure and gargs:
                    sig_ = ",".join(repr(a_.ty) for a_ in gargs)
                    gfn = core.uf(f"returns!{c.qualname}{uf_suffix}<{sig_}>", *[a_.ty.sort() for a_ in gargs], z3.BoolSort())
                    ret_guard = gfn(*[a_.t for a_ in gargs])
                elif c.pure:
                    ret_guard = z3.Const("returns!" + c.qualname, z3.BoolSort())
                else:
                    ret_guard = core.fresh(TBool, "returns!" + c.qualname.rsplit(".", 1)[-1]).t
                for cnd in conds:
                    self.assume(st, SV(TBool, z3.Implies(ret_guard, z3.Not(cnd))))
        self._last_guard = ret_guard
        if self.mode == "code":
            for exc, when in c.raises.items():
                if when == "maybe":
                    key = (callno, exc)
                    if key not in self._maybe:
                        self._maybe[key] = core.fresh(TBool, f"raises?{exc}@{callno}")
                    w = self._maybe[key]
                else:
                    w = self.ev_contract_expr(when, cst, cmod)
                self.maybe_raise(w, ExcVal(exc, ()), st)
            if ret_guard is not None:
                self.assume(st, SV(TBool, ret_guard))
        # result
        result = None
        if c.ret is not None:
            rt = c.ret
            if rt.startswith("Rec:"):
                def mk(path, fty):
                    fn = core.uf(f"{c.qualname}.{path}", *[a.ty.sort() for a in uf_args], fty.sort())
                    return SV(fty, fn(*[a.t for a in uf_args]))
                result = make_record(rt[4:], mk)
            elif rt.startswith("Py"):
                result = c.ret_py(self, st, env) if c.ret_py is not None else None
            else:
                rty = parse_ty(rt)
                if c.pure:
                    if uf_args:
                        fn = core.uf(c.qualname + uf_suffix, *[a.ty.sort() for a in uf_args], rty.sort())
                        result = SV(rty, fn(*[a.t for a in uf_args]))
                    else:
                        result = SV(rty, z3.Const(c.qualname, rty.sort()))
                else:
                    result = core.fresh(rty, c.qualname.rsplit(".", 1)[-1])
        cst.env["result"] = result
        nested = c.qualname in self._assuming
        short = c.qualname.rsplit(".", 1)[1] + "("
        self._assuming.add(c.qualname)
        try:
            guard = None
            if c.ghost_requires:
                guard = z3.And(*[zbool(lift(self.ev_contract_expr(g, cst, cmod))) for g in c.ghost_requires])
            for ename, e in c.ensures.items():
                if nested and isinstance(e, str) and short in e:
                    continue  # a mention of f inside f's own postcondition only gets the non-recursive clauses
                if nested and callable(e):
                    continue
                val = self.ev_contract_expr(e, cst, cmod)
                if guard is not None:
                    val = SV(TBool, z3.Implies(guard, zbool(lift(val))))
                if ret_guard is not None and self.mode != "code":
                    val = SV(TBool, z3.Implies(ret_guard, zbool(lift(val))))
                self.assume(st, val)
        finally:
            if not nested:
                self._assuming.discard(c.qualname)
        self._last_guard = ret_guard
        return result

    def ev_contract_expr(self, e, st, module=None):
        if callable(e):
            return e(self, st)
        node = _parse_expr(e)
        saved = self.mode, self.imports
        self.mode = "spec"
        if module is not None:
            self.imports = _imports_of(module)
        try:
            return self.ev(node, st)
        finally:
            self.mode, self.imports = saved

    # builtins ----------------------------------------------------------------
    def call_builtin(self, name, args, kwargs, st, node):
        if name == "len":
            return length(args[0])
        if name == "iter" and len(args) == 1:
            key_ = ("iter", id(node))
            if key_ not in self._maybe:  # the statement is re-executed after a case split: keep the same order term
                self._maybe[key_] = to_iter(args[0], site=f"{self.qualname}:{getattr(node, 'lineno', 0)}")
            return IterCursor(self._maybe[key_])
        if name == "next" and args and isinstance(args[0], IterCursor):
            cur = args[0]
            it_ = cur.it
            if isinstance(it_, list):
                if cur.i >= len(it_):
                    if len(args) > 1:
                        return args[1]
                    raise PyRaise(ExcVal("StopIteration"))
                cur.i += 1
                return it_[cur.i - 1]
            n_ = as_int(it_.length())
            empty = SV(TBool, n_.t <= cur.i)
            if len(args) > 1:
                if self.decide(empty, st):
                    return args[1]
            else:
                self.maybe_raise(empty, ExcVal("StopIteration"), st)
            if isinstance(it_, SetIter):
                st.pc.append(it_.member_fact(z3.IntVal(cur.i)))
                st.pc.append(it_.position_fact(z3.IntVal(cur.i)))
            cur.i += 1
            return it_.at(cur.i - 1)
        if name == "isinstance":
            return self.isinstance_(args[0], args[1], st)
        if name == "enumerate":
            it = to_iter(args[0], site=f"{self.qualname}:{getattr(node, 'lineno', 0)}")
            start = args[1] if len(args) > 1 else kwargs.get("start", 0)
            if isinstance(it, list):
                return [(arith("+", i, start), x) for i, x in enumerate(it)]
            return EnumIter(it, start)
        if name == "zip":
            its = [to_iter(a) for a in args]
            if all(isinstance(i, list) for i in its):
                return list(zip(*its))
            its = [SeqIter(lift(i)) if isinstance(i, list) else i for i in its]
            return ZipIter(its)
        if name == "range":
            if all(not isinstance(a, SV) for a in args):
                return list(range(*args))
            if len(args) == 1:
                return RangeIter(0, args[0])
            if len(args) == 2:
                return RangeIter(args[0], args[1])
            return RangeIter(args[0], args[1], args[2])
        if name in ("tuple", "list"):
            if not args:
                return () if name == "tuple" else []
            v = args[0]
            if isinstance(v, SV) and v.ty.kind == "seq":
                return v
            it = to_iter(v, site=f"{self.qualname}:{getattr(node, 'lineno', 0)}")
            if isinstance(it, list):
                return tuple(it) if name == "tuple" else list(it)
            if isinstance(it, SetIter):
                return it.order
            return self.materialize(it)
        if name in ("set", "frozenset"):
            if not args:
                return set() if name == "set" else frozenset()
            v = unwrap_opt(args[0])
            if isinstance(v, SV) and v.ty.kind == "set":
                return v
            if isinstance(v, SV) and v.ty.kind == "seq":
                return self.seq_to_set(v)
            if isinstance(v, (list, tuple, set, frozenset)):
                if any(isinstance(x, SV) for x in v):
                    return lift(frozenset(v))
                return set(v) if name == "set" else frozenset(v)
            if isinstance(v, ItemsIter) and v.mode == "keys":
                d = v.d
                return SV(TSet(d.ty.args[0]), d.ty.sort().dom(d.t))  # the key set of a dict is its domain
            if isinstance(v, SymIter):
                return self.seq_to_set(self.materialize(v))
            raise Unsupported(f"{name}() of {type(v).__name__}")
        if name == "dict":
            if not args:
                return dict(kwargs)
            v = args[0]
            if isinstance(v, DefaultDict):
                return v.as_dict()
            if isinstance(v, (dict,)) or (isinstance(v, SV) and v.ty.kind == "dict"):
                return v
            if isinstance(v, list):
                return dict(v)
            raise Unsupported("dict() of symbolic iterable")
        if name == "str":
            v = args[0]
            if isinstance(v, SV):
                if v.ty == TName:
                    return v
                if v.ty.kind == "int":
                    return SV(TName, core.uf("str_of_int", z3.IntSort(), TName.sort())(v.t))
                h = registry.EXTERNALS.get(f"str:{v.ty!r}")
                if h:
                    return h(self, st, v)
                raise Unsupported(f"str() of {v.ty!r}")
            if isinstance(v, EnumVal):
                return v.value
            return str(v)
        if name == "repr" and not isinstance(args[0], SV):
            return repr(args[0])
        if name in ("int", "float", "bool") and not isinstance(args[0], SV):
            return getattr(builtins, name)(*args)
        if name == "bool":
            return SV(TBool, zbool(args[0]))
        if name in ("any", "all"):
            v = args[0]
            if isinstance(v, list):
                ts = [zbool(x) if isinstance(x, SV) else z3.BoolVal(bool(x)) for x in v]
                if not any(isinstance(x, SV) for x in v):
                    return getattr(builtins, name)(v)
                return SV(TBool, z3.Or(*ts) if name == "any" else z3.And(*ts))
            if isinstance(v, SV) and v.ty.kind == "seq" and v.ty.args[0].kind == "bool":
                f = core.uf(f"{name}_of", v.ty.sort(), z3.BoolSort())
                return SV(TBool, f(v.t))
            raise Unsupported(f"{name}() of {type(v).__name__}")
        if name == "sorted":
            return self.sorted_(args, kwargs, st, node)
        if name == "sum":
            v = args[0]
            if isinstance(v, list) and len(v) > 0 and not any(isinstance(x, SV) for x in v):
                return sum(v)
            h = registry.EXTERNALS.get("__sum__")
            if h:
                return h(self, st, v)
            raise Unsupported("sum")
        if name == "abs":
            v = args[0]
            if isinstance(v, SV):
                if v.ty.kind == "u" and v.ty.name in V.SYM_UNARY:
                    return V.SYM_UNARY[v.ty.name]("abs", v)
                return SV(v.ty, z3.If(v.t >= 0, v.t, -v.t))
            return abs(v)
        if name in ("min", "max") and not any(isinstance(a, SV) for a in args):
            return getattr(builtins, name)(*args)
        if name in ("min", "max") and len(args) >= 2:
            acc = V._same(args[0], args[1])[0] if not isinstance(args[0], SV) else args[0]
            for a in args[1:]:
                x, y = V._same(acc, a)
                acc = SV(x.ty, z3.If((x.t >= y.t) if name == "max" else (x.t <= y.t), x.t, y.t))
            return acc
        if name == "map":
            f, xs = args[0], to_iter(args[1])
            if isinstance(xs, list):
                return [self.call(f, [x], {}, st) for x in xs]
            raise Unsupported("map over symbolic iterable")
        if name == "getattr":
            obj, attr = args[0], args[1]
            if isinstance(attr, SV):
                h = registry.EXTERNALS.get("__getattr_symbolic__")
                if h:
                    return h(self, st, obj, attr, *args[2:])
                raise Unsupported("getattr with symbolic name")
            try:
                return self.getattr(obj, attr.value if isinstance(attr, EnumVal) else attr, st)
            except Unsupported:
                if len(args) > 2:
                    return args[2]
                raise
        if name == "hasattr":
            try:
                self.getattr(args[0], args[1], st)
                return True
            except Unsupported:
                return False
        if name == "type":
            v = args[0]
            if isinstance(v, SV) and v.ty.kind == "u":
                return TypeOf(v)
            raise Unsupported("type()")
        if name == "cast":
            return args[1]
        if name == "print":
            return None
        if name == "object.__setattr__":
            raise Unsupported("object.__setattr__ outside a modelled constructor")
        if name.startswith("str."):
            return Closure(None, {}, name=name)
        if name == "reversed" and isinstance(args[0], (list, tuple)):
            return list(reversed(args[0]))
        raise Unsupported(f"builtin {name}")

    def materialize(self, it: SymIter) -> SV:
        """sequence of the elements of a symbolic iterable (as an auto-defined comprehension)"""
        j = core.fresh(TInt, "mj")
        e = lift(it.at(SV(TInt, j.t - 1)))
        rty = TSeq(e.ty)
        name = f"mat[{next(core._FRESH)}]"
        F = z3.Function(name, z3.IntSort(), rty.sort())
        core.SPEC_DEFS[name] = core.SpecDef(F, [j.t], z3.If(j.t <= 0, z3.Empty(rty.sort()), z3.Concat(F(j.t - 1), z3.Unit(e.t))))
        return SV(rty, F(as_int(it.length()).t))

    def sorted_(self, args, kwargs, st, node):
        v = args[0]
        key = kwargs.get("key")
        if isinstance(v, (list, tuple, set, frozenset)) and not any(isinstance(x, SV) for x in v) and key is None:
            return sorted(v)
        h = registry.EXTERNALS.get("__sorted__")
        if h is None:
            raise Unsupported("sorted() of symbolic collection")
        return h(self, st, v, key, node)

    def isinstance_(self, obj, cls, st):
        classes = list(cls) if isinstance(cls, (tuple, list)) else [cls]
        res = []
        for c in classes:
            res.append(self.isinstance1(obj, c, st))
        if any(r is True for r in res):
            return True
        ts = [r.t for r in res if isinstance(r, SV)]
        return SV(TBool, z3.Or(*ts)) if ts else False

    def isinstance1(self, obj, c, st):
        if isinstance(c, PyBuiltin):
            pyt = {"str": str, "int": int, "float": float, "bool": bool, "list": list, "tuple": tuple, "dict": dict}.get(c.name)
            if pyt is None:
                raise Unsupported(f"isinstance with builtin {c.name}")
            if isinstance(obj, SV):
                if pyt is str:
                    return obj.ty == TName
                if pyt is int:
                    return obj.ty.kind == "int"
                if pyt is float:
                    return obj.ty.kind == "real"
                if pyt in (list, tuple):
                    return obj.ty.kind == "seq"
                return False
            if isinstance(obj, EnumVal):
                return pyt is str and isinstance(obj.value, str)
            return isinstance(obj, pyt)
        if isinstance(c, ModuleRef):
            c = ClassRef(c.dotted)
        if callable(c) and not isinstance(c, (ClassRef, PyBuiltin)):
            for dn, fn in registry.EXTERNALS.items():
                if fn is c and f"isinstance:{dn}" in registry.EXTERNALS:
                    c = ClassRef(dn)
                    break
        if isinstance(c, ClassRef):
            d = c.dotted
            if f"isinstance:{d}" in registry.EXTERNALS:
                return registry.EXTERNALS[f"isinstance:{d}"](self, st, obj)
            if d in core.ENUMS_BY_DOTTED:
                return isinstance(obj, EnumVal) and obj.cls == core.ENUMS_BY_DOTTED[d]
            if d in core.RECORDS_BY_DOTTED:
                return isinstance(obj, Record) and obj.cls == core.RECORDS_BY_DOTTED[d]
            sort = registry.CLASS_OF.get(d)
            if sort is None:
                h = registry.EXTERNALS.get(f"isinstance:{d}")
                if h:
                    return h(self, st, obj)
                if isinstance(obj, SV) and obj.ty.kind == "u" and obj.ty.name in registry.CLASS_MODELS:
                    return False
                raise Unsupported(f"isinstance with unmodelled class {d}")
            if isinstance(obj, SV) and obj.ty.kind == "opt":
                inner = SV(obj.ty.args[0], obj.ty.sort().val(obj.t))
                r = self.isinstance1(inner, c, st)
                notnone = obj.t != obj.ty.sort().none
                if r is False:
                    return False
                return SV(TBool, z3.And(notnone, r.t if isinstance(r, SV) else z3.BoolVal(True)))
            if not (isinstance(obj, SV) and obj.ty.kind == "u"):
                return False
            if obj.ty.name != sort:
                return False
            m = registry.CLASS_MODELS[sort]
            subs = registry.subclasses(sort, d)
            if len(subs) == len(m.classes):
                return True
            tag = registry.tag_term(sort, obj.t)
            return SV(TBool, z3.Or(*[tag == m.tags[s] for s in subs]))
        raise Unsupported(f"isinstance against {c!r}")

    # ------------------------------------------------------------------ statements
    def exec_block(self, stmts, st) -> list[Outcome]:
        outs = [Outcome("fall", st)]
        for s in stmts:
            nxt = []
            for o in outs:
                if o.kind != "fall":
                    nxt.append(o)
                    continue
                nxt.extend(self.exec_stmt(s, o.st))
            outs = nxt
            if not any(o.kind == "fall" for o in outs):
                break
        return outs

    def feasible(self, st, cond):
        try:
            return quick_check(st.pc, cond) != z3.unsat
        except z3.Z3Exception:
            return True

    def exec_stmt(self, s, st) -> list[Outcome]:
        work = st.fork()
        mark = len(self._buf)
        saved_counts = (self.loop_no, self.comp_no, self.call_no)
        try:
            m = getattr(self, "st_" + type(s).__name__, None)
            if m is None:
                raise Unsupported(f"statement {type(s).__name__} at line {s.lineno}")
            return m(s, work)
        except NeedFork as nf:
            del self._buf[mark:]
            outs = []
            # every case split re-executes the statement with one more decision; a statement whose re-execution keeps asking NEW
            # questions (fresh terms in the condition each time) would never settle
            if len(st.decisions) > 48:
                raise Unsupported(f"case splits of the statement at line {getattr(s, 'lineno', '?')} do not settle (more than 48 decisions on one path)")
            for b in (True, False):
                s2 = st.fork()
                c = nf.cond if b else z3.Not(nf.cond)
                if not self.feasible(s2, c):
                    continue
                s2.decisions[nf.cond.get_id()] = b
                s2.pc.append(c)
                self.loop_no, self.comp_no, self.call_no = saved_counts
                outs.extend(self.exec_stmt(s, s2))
            return outs
        except PyRaise as pr:
            return [Outcome("raise", work, pr.exc)]

    def st_Expr(self, s, st):
        v = s.value
        if isinstance(v, ast.Constant):
            return [Outcome("fall", st)]
        if isinstance(v, ast.Call) and isinstance(v.func, ast.Attribute):
            r = self.try_mutation(v, st)
            if r is not None:
                return r
        self.ev(v, st)
        return [Outcome("fall", st)]

    def try_mutation(self, call, st):
        """x.append(v), x.add(v), x.extend(v), x.update(v), d[k].add(v) as rebinding of x / d"""
        meth = call.func.attr
        tgt = call.func.value
        if meth not in ("append", "add", "extend", "update", "discard", "remove"):
            return None
        if isinstance(tgt, ast.Name) and tgt.id in st.env:
            cur = st.env[tgt.id]
            args = []
            for a in call.args:
                if isinstance(a, ast.Starred):
                    v = self.ev(a.value, st)
                    it_ = to_iter(v, site=f"{self.qualname}:{call.lineno}")
                    if isinstance(it_, list):
                        args.extend(it_)
                    else:
                        args.append(StarArgs(it_, v))
                else:
                    args.append(self.ev(a, st))
            new = self.mutate(cur, meth, args, st, call)
            if new is NotImplemented:
                return None
            st.env[tgt.id] = new
            return [Outcome("fall", st)]
        if (isinstance(tgt, ast.Subscript) and isinstance(tgt.value, ast.Subscript) and isinstance(tgt.value.value, ast.Name)
                and hasattr(st.env.get(tgt.value.value.id), "model_mutate2")):
            nm = tgt.value.value.id
            k1, k2 = self.ev(tgt.value.slice, st), self.ev(tgt.slice, st)
            args = [self.ev(a, st) for a in call.args]
            st.env[nm] = st.env[nm].model_mutate2(self, st, k1, k2, meth, args)
            return [Outcome("fall", st)]
        if isinstance(tgt, ast.Subscript) and isinstance(tgt.value, ast.Name) and tgt.value.id in st.env:
            d = st.env[tgt.value.id]
            key = self.ev(tgt.slice, st)
            args = [self.ev(a, st) for a in call.args]
            if isinstance(d, DefaultDict):
                st.env[tgt.value.id] = d.mutate_entry(self, key, meth, args, st, call)
                return [Outcome("fall", st)]
            if isinstance(d, dict) and not isinstance(key, SV) and key in d:
                d2 = dict(d)
                d2[key] = self.mutate(d[key], meth, args, st, call)
                st.env[tgt.value.id] = d2
                return [Outcome("fall", st)]
            raise Unsupported("mutation through subscript")
        return None

    def mutate(self, cur, meth, args, st, node):
        if isinstance(cur, Record) and (cur.cls, meth) in RECORD_MUTATORS:
            return RECORD_MUTATORS[(cur.cls, meth)](self, st, cur, args)
        if meth == "append":
            (x,) = args
            if isinstance(cur, list):
                return cur + [x]
            if isinstance(cur, SV) and cur.ty.kind == "seq":
                return arith("+", cur, [x])
        if meth == "extend":
            (x,) = args
            if isinstance(cur, list) and isinstance(x, (list, tuple)):
                return cur + list(x)
            if isinstance(cur, SV) and cur.ty.kind == "seq":
                return arith("+", cur, x if isinstance(x, SV) else list(x))
            if isinstance(cur, list) and isinstance(x, SV) and x.ty.kind == "seq":
                return arith("+", lift(cur, x.ty), x)
        if meth == "add":
            (x,) = args
            if isinstance(cur, (set, frozenset)):
                if isinstance(x, SV) or any(isinstance(y, SV) for y in cur):
                    if not cur:
                        return lift(frozenset([x]))
                    return lift(frozenset(list(cur) + [x]))
                return set(cur) | {x}
            if isinstance(cur, SV) and cur.ty.kind == "set":
                return SV(cur.ty, z3.Store(cur.t, lift(x, cur.ty.args[0]).t, z3.BoolVal(True)))
        if meth == "update":
            (x,) = args
            if isinstance(cur, dict) and isinstance(x, dict):
                d = dict(cur)
                d.update(x)
                return d
            if isinstance(cur, (set, frozenset)) and isinstance(x, (set, frozenset)):
                return set(cur) | set(x)
            if isinstance(cur, SV) and cur.ty.kind == "set":
                return arith("|", cur, self.to_set(x, cur.ty))
        return NotImplemented

    def st_Pass(self, s, st):
        return [Outcome("fall", st)]

    def st_Import(self, s, st):
        for a in s.names:
            st.env[a.asname or a.name.split(".")[0]] = ModuleRef(a.name if a.asname else a.name.split(".")[0])
        return [Outcome("fall", st)]

    def st_ImportFrom(self, s, st):
        pkg = self.module.split(".")
        if not extract.module_path(self.module).name == "__init__.py":
            pkg = pkg[:-1]
        if s.level:
            base = pkg[: len(pkg) - (s.level - 1)]
            full = ".".join(base + ([s.module] if s.module else []))
        else:
            full = s.module or ""
        for a in s.names:
            st.env[a.asname or a.name] = self.dotted_value(f"{full}.{a.name}")
        return [Outcome("fall", st)]

    def st_Assert(self, s, st):
        c = self.ev(s.test, st)
        if not self.decide(c, st):
            raise PyRaise(ExcVal("AssertionError", ()))
        return [Outcome("fall", st)]

    def st_Return(self, s, st):
        v = self.ev(s.value, st) if s.value is not None else None
        return [Outcome("return", st, v)]

    def st_Raise(self, s, st):
        if s.exc is None:
            return [Outcome("raise", st, st.env.get("__exc__", ExcVal("Exception")))]
        e = self.ev(s.exc, st)
        if isinstance(e, ClassRef):
            e = self.construct(e, [], {}, st)
        if isinstance(e, PyBuiltin):
            e = ExcVal(e.name)
        if not isinstance(e, ExcVal):
            raise Unsupported("raise of non-exception value")
        return [Outcome("raise", st, e)]

    def st_Break(self, s, st):
        return [Outcome("break", st)]

    def st_Continue(self, s, st):
        return [Outcome("continue", st)]

    def st_FunctionDef(self, s, st):
        q = f"{self.qualname}.{s.name}"
        st.env[s.name] = Closure(s, dict(st.env), name=s.name, qualname=q if q in registry.CONTRACTS else None)
        return [Outcome("fall", st)]

    def st_AnnAssign(self, s, st):
        if s.value is None:
            return [Outcome("fall", st)]
        v = self.ev(s.value, st)
        if isinstance(v, PendingTyped) or (isinstance(v, dict) and not v and isinstance(s.target, ast.Name)
                                           and self.contract is not None and s.target.id in self.contract.locals):
            decl = (self.contract.locals if self.contract is not None else {}).get(s.target.id if isinstance(s.target, ast.Name) else None)
            if decl is None:
                raise Unsupported(f"'{ast.unparse(s.target)}' needs a type in the sidecar 'locals'")
            v = v.make(decl) if isinstance(v, PendingTyped) else MODEL_TYPES[decl.split("[")[0]](decl)
        v = self.annotate(v, s.annotation)
        self.assign(s.target, v, st)
        return [Outcome("fall", st)]

    def annotate(self, v, ann):
        return v

    def st_Assign(self, s, st):
        v = self.ev(s.value, st)
        if isinstance(v, PendingTyped):
            tname = s.targets[0].id if isinstance(s.targets[0], ast.Name) else None
            decl = (self.contract.locals if self.contract is not None else {}).get(tname)
            if decl is None:
                raise Unsupported(f"'{tname}' needs a type in the sidecar 'locals' ({v.what})")
            v = v.make(decl)
        for t in s.targets:
            self.assign(t, v, st)
        return [Outcome("fall", st)]

    def assign(self, target, v, st):
        if isinstance(target, ast.Name):
            st.env[target.id] = v
        elif isinstance(target, (ast.Tuple, ast.List)):
            self.bind_target(target, v, st)
        elif (isinstance(target, ast.Subscript) and isinstance(target.value, ast.Subscript) and isinstance(target.value.value, ast.Name)
              and hasattr(st.env.get(target.value.value.id), "model_set2")):
            nm = target.value.value.id
            st.env[nm] = st.env[nm].model_set2(self, st, self.ev(target.value.slice, st), self.ev(target.slice, st), v)
        elif isinstance(target, ast.Subscript) and isinstance(target.value, ast.Name) and hasattr(st.env.get(target.value.id), "model_set1"):
            nm = target.value.id
            st.env[nm] = st.env[nm].model_set1(self, st, self.ev(target.slice, st), v)
        elif isinstance(target, ast.Subscript) and isinstance(target.value, ast.Name):
            nm = target.value.id
            cur = st.env.get(nm)
            key = self.ev(target.slice, st)
            if isinstance(cur, DefaultDict):
                st.env[nm] = cur.set(self, key, v)
            elif isinstance(cur, dict) and not isinstance(key, SV):
                d = dict(cur)
                d[key] = v
                st.env[nm] = d
            elif isinstance(cur, dict) and isinstance(key, SV):
                if cur:
                    d = lift(cur)
                    st.env[nm] = core.dict_set(d, lift(key, d.ty.args[0]), lift(v, d.ty.args[1]))
                else:
                    kv, vv = lift(key), lift(v)
                    st.env[nm] = core.dict_set(core.dict_empty(TDict(kv.ty, vv.ty)), kv, vv)
            elif isinstance(cur, SV) and cur.ty.kind == "dict":
                st.env[nm] = core.dict_set(cur, lift(key, cur.ty.args[0]), lift(v, cur.ty.args[1]))
            else:
                raise Unsupported("subscript assignment")
        elif isinstance(target, ast.Attribute) and isinstance(target.value, ast.Name):
            h = getattr(self, "assign_attribute", None)
            base = st.env.get(target.value.id)
            if isinstance(base, ObjUnderConstruction):
                base.fields[target.attr] = v
                return
            if isinstance(base, FuncRef) and base.fresh:
                if target.attr == "__code__" and isinstance(v, Record):
                    st.env[target.value.id] = FuncRef(base.dotted, co_name=v.fields.get("co_name"), fresh=True)
                return  # attribute of a freshly created function object: no global effect
            if isinstance(base, FuncRef):
                self.global_effects.append((base.dotted, target.attr, v))
                if target.attr != "__code__":
                    return
            if isinstance(base, FuncRef) and target.attr == "__code__":
                # rebinding the code object of a module-level function: global effect
                st.env[target.value.id] = FuncRef(base.dotted, co_name=v.fields.get("co_name") if isinstance(v, Record) else None)
                return
            raise Unsupported(f"attribute assignment {ast.unparse(target)}")
        else:
            raise Unsupported("assignment target")

    global_effects: list = []  # reset per instance in __init__

    def st_AugAssign(self, s, st):
        op = self._BIN.get(type(s.op))
        cur = self.ev(s.target, st)
        v = self.ev(s.value, st)
        if op == "+" and isinstance(cur, list) and isinstance(v, (list, tuple)):
            new = cur + list(v)
        elif op == "+" and isinstance(cur, str) and isinstance(v, str):
            new = cur + v
        elif op == "|" and isinstance(cur, (set, frozenset)):
            if isinstance(v, (set, frozenset)):
                new = set(cur) | set(v)
            elif not cur:
                new = self.to_set(v, None)
            else:
                new = arith("|", lift(frozenset(cur)), self.to_set(v, None))
        else:
            new = arith(op, cur, v)
        self.assign(s.target, new, st)
        return [Outcome("fall", st)]

    def st_If(self, s, st):
        c = self.ev(s.test, st)
        b = self.decide(c, st)
        return self.exec_block(s.body if b else s.orelse, st)

    def st_With(self, s, st):
        for item in s.items:
            txt = ast.unparse(item.context_expr)
            self.dropped.add("with " + txt)
        return self.exec_block(s.body, st)

    def st_Try(self, s, st):
        outs = []
        for o in self.exec_block(s.body, st):
            if o.kind == "raise":
                handled = False
                for h in s.handlers:
                    if h.type is None or self.exc_matches(o.val, self.ev(h.type, o.st)):
                        st2 = o.st
                        if h.name:
                            st2.env[h.name] = o.val
                        st2.env["__exc__"] = o.val
                        outs.extend(self.exec_block(h.body, st2))
                        handled = True
                        break
                if not handled:
                    outs.append(o)
            elif o.kind == "fall" and s.orelse:
                outs.extend(self.exec_block(s.orelse, o.st))
            else:
                outs.append(o)
        if s.finalbody:
            res = []
            for o in outs:
                for f in self.exec_block(s.finalbody, o.st):
                    res.append(o if f.kind == "fall" else f)
            outs = res
        return outs

    def exc_matches(self, exc: ExcVal, handler):
        hs = list(handler) if isinstance(handler, (tuple, list)) else [handler]
        for h in hs:
            if isinstance(h, PyBuiltin):
                hn = h.name
            elif isinstance(h, (ClassRef, ModuleRef, FuncRef)):
                hn = h.dotted.rsplit(".", 1)[1]
            else:
                raise Unsupported("except clause")
            if exc_isinstance(exc.cls, hn):
                return True
        return False

    # loops -------------------------------------------------------------------
    def assigned_names(self, nodes):
        names = set()
        for node in nodes:
            for sub in ast.walk(node):
                if isinstance(sub, ast.Name) and isinstance(sub.ctx, ast.Store):
                    names.add(sub.id)
                elif isinstance(sub, ast.AugAssign) and isinstance(sub.target, ast.Name):
                    names.add(sub.target.id)
                elif isinstance(sub, ast.Expr) and isinstance(sub.value, ast.Call) and isinstance(sub.value.func, ast.Attribute):
                    if sub.value.func.attr in ("append", "add", "extend", "update"):
                        t = sub.value.func.value
                        while isinstance(t, ast.Subscript):
                            t = t.value
                        if isinstance(t, ast.Name):
                            names.add(t.id)
                elif isinstance(sub, ast.Subscript) and isinstance(sub.ctx, ast.Store):
                    t = sub.value
                    while isinstance(t, ast.Subscript):
                        t = t.value
                    if isinstance(t, ast.Name):
                        names.add(t.id)
                elif isinstance(sub, ast.Call) and isinstance(sub.func, ast.Attribute) and sub.func.attr == "setdefault" and isinstance(sub.func.value, ast.Name):
                    names.add(sub.func.value.id)
        return names

    def st_For(self, s, st):
        it = to_iter(self.ev(s.iter, st), site=f"{self.qualname}:{s.lineno}")
        if isinstance(it, list):
            return self.for_concrete(s, it, st)
        return self.for_symbolic(s, it, st)

    def for_concrete(self, s, items, st):
        outs_done = []
        live = [st]
        for x in items:
            nxt = []
            for cur in live:
                self.bind_target(s.target, x, cur)
                for o in self.exec_block(s.body, cur):
                    if o.kind in ("fall", "continue"):
                        nxt.append(o.st)
                    elif o.kind == "break":
                        outs_done.append(Outcome("fall", o.st))
                    else:
                        outs_done.append(o)
            live = nxt
        for cur in live:
            if s.orelse:
                outs_done.extend(self.exec_block(s.orelse, cur))
            else:
                outs_done.append(Outcome("fall", cur))
        return outs_done

    def ghost_terms(self):
        return list(getattr(self, "ghosts", []))

    def loop_spec(self, ordinal):
        c = self.contract
        if c is None or ordinal not in c.loops:
            return None
        return c.loops[ordinal]

    def havoc_like(self, v, hint):
        if isinstance(v, SV):
            return core.fresh(v.ty, hint)
        if isinstance(v, bool):
            return core.fresh(TBool, hint)
        if isinstance(v, int):
            return core.fresh(TInt, hint)
        if isinstance(v, float):
            return core.fresh(TReal, hint)
        if isinstance(v, str):
            return core.fresh(TName, hint)
        if isinstance(v, (list, tuple)) and v:
            return core.fresh(lift(list(v)).ty, hint)
        if isinstance(v, dict) and v and all(not isinstance(x, (list, dict, set, frozenset)) for x in v.values()):
            return core.fresh(lift(v).ty, hint)
        if isinstance(v, (set, frozenset)) and v:
            return core.fresh(lift(frozenset(v)).ty, hint)
        if isinstance(v, DefaultDict) or hasattr(v, "model_havoc"):
            return v.havoc(hint) if isinstance(v, DefaultDict) else v.model_havoc(hint)
        if isinstance(v, Record) and v.cls in core.RECORDS:
            return make_record(v.cls, lambda path, fty: core.fresh(fty, f"{hint}.{path}"))
        return None

    def for_symbolic(self, s, it: SymIter, st):
        ordinal = self.loop_ord.get(id(s), -1)
        spec = self.loop_spec(ordinal)
        if spec is None:
            raise Unsupported(f"loop #{ordinal} at line {s.lineno} over a symbolic collection needs a sidecar invariant")
        invs = spec.get("invariant", {})
        types = spec.get("types", {})
        n_t = as_int(it.length()).t
        modified = sorted(self.assigned_names(s.body) & (set(st.env) | set(types)))
        # target names are rebound each iteration
        tnames = {x.id for x in ast.walk(s.target) if isinstance(x, ast.Name)}
        modified = [m for m in modified if m not in tnames]

        pre_snapshot = {m + "__pre": st.env[m] for m in modified if m in st.env}
        ghosts = self.ghost_terms()

        def set_facts(state, k_term):
            if isinstance(it, SetIter):
                state.pc.append(it.member_fact(k_term))
                state.pc.append(it.position_fact(k_term))

        def inv_terms(state, k_term):
            s2 = State(dict(state.env), list(state.pc), dict(state.decisions))
            s2.env["k"] = SV(TInt, k_term)
            s2.env.update(pre_snapshot)
            if isinstance(it, SetIter):
                s2.env["ORDER"] = it.order
                s2.env["POS"] = lambda ctx, st_, x: SV(TInt, it.pos(lift(x, it.s.ty.args[0]).t))
            out = []
            base = len(s2.pc)
            for nm, e in invs.items():
                out.append((nm, self.ev_contract_expr(e, s2)))
            # facts assumed while evaluating the invariants (postconditions of the contracts they mention) stay available
            for f in s2.pc[base:]:
                state.pc.append(f)
                state.assumed.add(f.get_id())
            return out

        # lift initial values of modified variables to their declared/inferred types
        init = st
        for m in modified:
            if m in types:
                ty = parse_ty(types[m])
                cur = init.env.get(m)
                if isinstance(cur, DefaultDict):
                    continue
                try:
                    init.env[m] = lift(cur if cur is not None else [], ty)
                except core.LiftError as e:
                    raise Unsupported(f"loop #{ordinal}: cannot lift initial {m}: {e}")
        # 1. entry
        if isinstance(it, SetIter):
            for g_ in ghosts:
                if g_.ty == it.s.ty.args[0]:
                    init.pc.append(it.visited_fact(g_.t))
        for nm, g in inv_terms(init, z3.IntVal(0)):
            self.oblige(f"loop{ordinal}.invariant.{nm}.entry", init, g, "loop-entry", s.lineno)
        # 2. arbitrary iteration
        body_st = init.fork()
        k = core.fresh(TInt, "k")
        for m in modified:
            hv = self.havoc_like(body_st.env.get(m), m)
            if hv is None:
                raise Unsupported(f"loop #{ordinal}: cannot havoc variable '{m}' (declare its type in the sidecar 'types')")
            body_st.env[m] = hv
        havoc_env = dict(body_st.env)
        body_st.pc += [k.t >= 0, k.t < n_t]
        set_facts(body_st, k.t)
        if isinstance(it, SetIter):
            for g_ in ghosts:
                if g_.ty == it.s.ty.args[0]:
                    body_st.pc.append(it.visited_fact(g_.t))
        for nm, g in inv_terms(body_st, k.t):
            self.assume(body_st, g)
        self.bind_target(s.target, it.at(k), body_st)
        body_st.env["k"] = k  # the ghost iteration index stays visible (e.g. on a `break` path)
        body_st.env[f"k{ordinal}"] = k  # ... and under its loop ordinal for the invariants of nested loops
        self.covers.append((f"{self.qualname}/loop{ordinal}.body.reachable", list(body_st.pc)))
        outs = []
        for o in self.exec_block(s.body, body_st):
            if o.kind in ("fall", "continue"):
                for nm, g in inv_terms(o.st, k.t + 1):
                    self.oblige(f"loop{ordinal}.invariant.{nm}.preserved", o.st, g, "loop-preserved", s.lineno)
            elif o.kind == "break":
                outs.append(Outcome("fall", o.st))
            else:
                outs.append(o)
        # 3. exit
        exit_st = init.fork()
        for m in modified:
            exit_st.env[m] = self.havoc_like(havoc_env[m], m + "'")
        kk = core.fresh(TInt, "kexit")
        exit_st.pc += [kk.t == n_t, n_t >= 0]
        if isinstance(it, SetIter):
            for g_ in ghosts:
                if g_.ty == it.s.ty.args[0]:
                    exit_st.pc.append(it.visited_fact(g_.t))
        for nm, g in inv_terms(exit_st, kk.t):
            self.assume(exit_st, g)
        exit_st.env["k"] = kk
        if isinstance(it, SetIter):
            exit_st.env[f"ORDER{ordinal}"] = it.order  # witnesses of existential postconditions may name positions in it
        if s.orelse:
            outs.extend(self.exec_block(s.orelse, exit_st))
        else:
            outs.append(Outcome("fall", exit_st))
        return outs

    def st_While(self, s, st):
        ordinal = self.loop_ord.get(id(s), -1)
        spec = self.loop_spec(ordinal)
        if spec is None:
            raise Unsupported(f"while loop #{ordinal} at line {s.lineno} needs a sidecar invariant")
        invs = spec.get("invariant", {})
        types = spec.get("types", {})
        modified = sorted(self.assigned_names(s.body) & (set(st.env) | set(types)))

        def inv_terms(state):
            s2 = State(dict(state.env), list(state.pc), dict(state.decisions))
            return [(nm, self.ev_contract_expr(e, s2)) for nm, e in invs.items()]

        for m in modified:
            if m in types:
                st.env[m] = lift(st.env.get(m, []), parse_ty(types[m]))
        for nm, g in inv_terms(st):
            self.oblige(f"loop{ordinal}.invariant.{nm}.entry", st, g, "loop-entry", s.lineno)
        outs = []
        for phase in ("body", "exit"):
            cur = st.fork()
            for m in modified:
                hv = self.havoc_like(cur.env.get(m), m)
                if hv is None:
                    raise Unsupported(f"while loop #{ordinal}: cannot havoc '{m}'")
                cur.env[m] = hv
            for nm, g in inv_terms(cur):
                self.assume(cur, g)
            # evaluate the guard (may fork)
            guard_outs = self.exec_stmt(ast.Expr(value=ast.NamedExpr(target=ast.Name(id="__guard__", ctx=ast.Store()), value=s.test), lineno=s.lineno), cur)
            for go in guard_outs:
                if go.kind == "raise":
                    if phase == "body":
                        outs.append(go)
                    continue
                g = go.st.env["__guard__"]
                gt = zbool(g) if isinstance(g, SV) else z3.BoolVal(bool(g))
                if phase == "body":
                    go.st.pc.append(gt)
                    if not self.feasible(go.st, z3.BoolVal(True)):
                        continue
                    if "variant" in spec:
                        v0 = as_int(self.ev_contract_expr(spec["variant"], go.st)).t
                    for o in self.exec_block(s.body, go.st):
                        if o.kind in ("fall", "continue"):
                            for nm, gl in inv_terms(o.st):
                                self.oblige(f"loop{ordinal}.invariant.{nm}.preserved", o.st, gl, "loop-preserved", s.lineno)
                            if "variant" in spec:
                                v1 = as_int(self.ev_contract_expr(spec["variant"], o.st)).t
                                self.oblige(f"loop{ordinal}.variant.decreases", o.st, z3.And(v1 < v0, v0 >= 0) if False else z3.And(v1 < v0, v1 >= 0), "loop-variant", s.lineno)
                        elif o.kind == "break":
                            outs.append(Outcome("fall", o.st))
                        else:
                            outs.append(o)
                else:
                    go.st.pc.append(z3.Not(gt))
                    if not self.feasible(go.st, z3.BoolVal(True)):
                        continue
                    if s.orelse:
                        outs.extend(self.exec_block(s.orelse, go.st))
                    else:
                        outs.append(Outcome("fall", go.st))
        return outs


def make_record(rn, mk, path=""):
    fields = {}
    for fname, ftys in core.RECORDS[rn].items():
        fp = f"{path}{fname}"
        if ftys.startswith("Py"):
            fields[fname] = None
        elif ftys.startswith("Rec:"):
            fields[fname] = make_record(ftys[4:], mk, fp + ".")
        else:
            fields[fname] = mk(fp, parse_ty(ftys))
    return Record(rn, fields)


def record_terms(r):
    out = []
    for v in r.fields.values():
        if isinstance(v, Record):
            out.extend(record_terms(v))
        elif isinstance(v, SV):
            out.append(v)
        elif isinstance(v, (str, int, float, bool)) and v is not None:
            out.append(lift(v))
    return out


def unwrap_opt(v):
    if isinstance(v, SV) and v.ty.kind == "opt":
        return SV(v.ty.args[0], v.ty.sort().val(v.t))
    return v


class StarArgs:
    def __init__(self, it, value):
        self.it, self.value = it, value


class TypeOf:
    def __init__(self, v):
        self.v = v


class IterCursor:
    """iter(x): a cursor over a (symbolic) iterable; next() takes the element at the cursor - for an unordered collection that is
    an arbitrary member (fresh order per iter() call)"""

    def __init__(self, it):
        self.it, self.i = it, 0


class ObjUnderConstruction:
    def __init__(self, sort):
        self.sort, self.fields = sort, {}
        self.frozen = None

    def copy(self):
        o = ObjUnderConstruction(self.sort)
        o.fields = dict(self.fields)
        o.frozen = self.frozen
        return o

    def __repr__(self):
        return f"<new {self.sort}>"


class PendingTyped:
    def __init__(self, what, make):
        self.what, self.make = what, make


class DefaultDict:
    """defaultdict(set): symbolic map key -> set (total, default empty set) plus the set of touched keys.
    The key insertion order is NOT tracked (it may depend on set iteration order)."""

    def __init__(self, kty, ety, term=None, dom=None):
        self.kty, self.ety = kty, ety
        arr = z3.ArraySort(kty.sort(), TSet(ety).sort())
        self.term = term if term is not None else z3.K(kty.sort(), z3.K(ety.sort(), z3.BoolVal(False)))
        self.dom = dom if dom is not None else z3.K(kty.sort(), z3.BoolVal(False))
        self.sort = arr

    def havoc(self, hint):
        n = next(core._FRESH)
        return DefaultDict(self.kty, self.ety, z3.Const(f"{hint}!{n}", self.sort),
                           z3.Const(f"{hint}.dom!{n}", z3.ArraySort(self.kty.sort(), z3.BoolSort())))

    def get(self, key):
        return SV(TSet(self.ety), z3.Select(self.term, lift(key, self.kty).t))

    def has(self, key):
        return SV(TBool, z3.Select(self.dom, lift(key, self.kty).t))

    def mutate_entry(self, interp, key, meth, args, st, node):
        cur = self.get(key)
        new = interp.mutate(cur, meth, args, st, node)
        if new is NotImplemented:
            raise Unsupported(f"defaultdict entry mutation {meth}")
        k = lift(key, self.kty).t
        return DefaultDict(self.kty, self.ety, z3.Store(self.term, k, new.t), z3.Store(self.dom, k, z3.BoolVal(True)))

    def set(self, interp, key, v):
        k = lift(key, self.kty).t
        return DefaultDict(self.kty, self.ety, z3.Store(self.term, k, lift(v, TSet(self.ety)).t), z3.Store(self.dom, k, z3.BoolVal(True)))

    def as_dict(self) -> SV:
        """dict(d): same domain and values; key order unknown (fresh)"""
        ty = TDict(self.kty, TSet(self.ety))
        keys = core.fresh(TSeq(self.kty), "keyorder")
        return SV(ty, ty.sort().mkdict(keys.t, self.dom, self.term))


STDLIB_PASSTHROUGH = {"re", "textwrap", "math", "string"}  # pure stdlib functions: executed for real on concrete arguments (ASSUMED correct)


class StdlibCall:
    def __init__(self, dotted, fn):
        self.dotted, self.fn = dotted, fn

    def __call__(self, ctx, st, *args, **kwargs):
        def concrete(v):
            if isinstance(v, (SV, SymIter, Record)):
                return False
            if isinstance(v, (list, tuple)):
                return all(concrete(x) for x in v)
            return True
        if not all(concrete(a) for a in list(args) + list(kwargs.values())):
            raise Unsupported(f"{self.dotted} with symbolic arguments")
        ctx.assumed_used.add(f"stdlib {self.dotted} executed on concrete arguments")
        return self.fn(*args, **kwargs)


MODEL_TYPES: dict = {}  # name of a sidecar-declared model type -> constructor(decl string)
CONSTANTS: dict = {}
RECORD_MUTATORS: dict = {}  # (record class, method) -> callable(ctx, st, record, args) -> new record
EXTERNAL_ROOTS = {"sympy", "typing", "structlog", "lark", "pint", "attr", "graphlib", "collections", "functools",
                  "pathlib", "enum", "abc", "types", "re", "textwrap", "warnings", "typer", "logging", "myokit", "black"}
registry.CALLABLE_SORTS = {}
core.RECORDS_BY_DOTTED = {}
core.ENUMS_BY_DOTTED = {}
core.RECORD_DEFAULTS = {}

_EXC_BASES = {
    "GotranxError": ["Exception"],
    "MissingSymbolError": ["GotranxError", "KeyError"],
    "ResolveExpressionError": ["GotranxError", "ValueError"],
    "CycleError": ["ValueError"],
    "UndefinedUnitError": ["AttributeError"],
}


def exc_isinstance(name, handler):
    if name == handler or handler in ("Exception", "BaseException"):
        return True
    if name in _EXC_BASES:
        return any(exc_isinstance(b, handler) for b in _EXC_BASES[name])
    if name.endswith(("Error", "Exception", "NotFound", "NotFoundInComponent")) and not hasattr(builtins, name):
        return exc_isinstance("GotranxError", handler)
    a, b = getattr(builtins, name, None), getattr(builtins, handler, None)
    if isinstance(a, type) and isinstance(b, type):
        return issubclass(a, b)
    return False


def getattr_str(s: str, attr):
    def impl(interp, st, *args, **kwargs):
        if attr == "join":
            (xs,) = args
            xs = to_iter(xs)
            if isinstance(xs, list) and all(isinstance(x, (str, EnumVal)) for x in xs):
                return s.join(x.value if isinstance(x, EnumVal) else x for x in xs)
            h = registry.EXTERNALS.get("__join__")
            if h is None:
                raise Unsupported("str.join of symbolic parts")
            return h(interp, st, s, args[0])
        if any(isinstance(a, SV) for a in args):
            raise Unsupported(f"str.{attr} with symbolic argument")
        return getattr(s, attr)(*args, **kwargs)

    return BoundMethod(s, attr, impl)


_IMPORTS_CACHE: dict = {}


def _imports_of(module):
    if module not in _IMPORTS_CACHE:
        try:
            _IMPORTS_CACHE[module] = extract.import_table(module)
        except extract.ExtractError:
            _IMPORTS_CACHE[module] = {}
    return _IMPORTS_CACHE[module]


def contract_module(c):
    if getattr(c, "_module", None) is None:
        parts = c.qualname.split(".")
        c._module = ""
        for cut in range(len(parts) - 1, 0, -1):
            if extract.is_module(".".join(parts[:cut])):
                c._module = ".".join(parts[:cut])
                break
    return c._module or None


_EXPR_CACHE: dict[str, ast.AST] = {}


def _parse_expr(e: str):
    if e not in _EXPR_CACHE:
        _EXPR_CACHE[e] = ast.parse(textwrap.dedent(e).strip(), mode="eval").body
    return _EXPR_CACHE[e]
