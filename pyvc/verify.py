"""Verification driver: spec definitions, function verification, obligation discharge."""
from __future__ import annotations

import ast
import os
import subprocess
import tempfile
import textwrap
import time
import traceback

import z3

from . import core, extract, registry
from .core import SV, TInt, TBool, lift, parse_ty, Record, EnumVal
from .interp import Interp, State, Outcome, Obligation, ObjUnderConstruction
from .values import Unsupported, ExcVal, PyRaise, NeedFork, zbool, py_eq
from . import interp as _interp

MAX_FAILED_PER_FUNCTION = 3  # a broken function fails many obligations: the first few name the problem, the rest only cost time
GLOBAL_AXIOMS: list = []  # callables () -> list of z3 facts (class axioms etc.)


# ----------------------------------------------------------------------------- spec functions


class SpecFn:
    def __init__(self, name, params, ret, src):
        self.name, self.params, self.ret_s, self.src = name, params, ret, src
        self._decl = None
        self._defined = False

    def decl(self):
        if self._decl is None:
            self.tys = [parse_ty(t) for t in self.params.values()]
            self.ret = parse_ty(self.ret_s)
            self._decl = core.uf(self.name, *[t.sort() for t in self.tys], self.ret.sort())
        return self._decl

    def define(self):
        if self._defined:
            return
        self._defined = True
        F = self.decl()
        if self.src is None:
            return
        fn = ast.parse(textwrap.dedent(self.src)).body[0]
        it = Interp(None, qualname=f"spec:{self.name}")
        it.mode = "spec"
        it.imports = {}
        formals = [core.fresh(t, f"{self.name}.{p}") for p, t in zip(self.params, self.tys)]
        st = State(dict(zip(self.params, formals)))
        outs = it.exec_block(fn.body, st)
        body = None
        side = []
        for o in reversed(outs):
            if o.kind == "raise":
                continue
            if o.kind != "return":
                raise Unsupported(f"spec {self.name}: path without return")
            v = lift(o.val, self.ret)
            branch = [f for f in o.st.pc if f.get_id() not in o.st.assumed]
            facts = [f for f in o.st.pc if f.get_id() in o.st.assumed]
            pc = z3.And(*branch) if branch else z3.BoolVal(True)
            side.extend(z3.Implies(pc, f) for f in facts)
            body = v.t if body is None else z3.If(pc, v.t, body)
        if body is None:
            raise Unsupported(f"spec {self.name}: no returning path")
        core.SPEC_DEFS[self.name] = core.SpecDef(F, [f.t for f in formals], body, side, list(it.fresh_ghosts))

    def __call__(self, interp, st, *args):
        F = self.decl()
        self.define()
        if len(args) != len(self.tys):
            raise Unsupported(f"spec {self.name}: arity")
        a = [lift(x.value if isinstance(x, EnumVal) else x, t) for x, t in zip(args, self.tys)]
        return SV(self.ret, F(*[x.t for x in a]))


def defspec(name, params: dict, ret: str, src: str | None = None):
    f = SpecFn(name, params, ret, src)
    registry.SPECS[name] = f
    return f


# ----------------------------------------------------------------------------- solving


class Result:
    def __init__(self, name, status, backend, seconds, detail="", kind="ensures", line=None):
        self.name, self.status, self.backend, self.seconds, self.detail, self.kind, self.line = (
            name, status, backend, seconds, detail, kind, line)

    def to_json(self):
        return {"obligation": self.name, "status": self.status, "backend": self.backend,
                "seconds": round(self.seconds, 4), "kind": self.kind, "detail": self.detail[:4000], "line": self.line}


def all_axioms():
    out = list(core.literal_axioms())
    for g in GLOBAL_AXIOMS:
        out.extend(g())
    return out


def build_query(hyps, goal, depth=2):
    base = list(hyps) + [z3.Not(goal)] + all_axioms()
    ax = core.unfold(base, depth=depth)
    return base + ax + core.commutativity_instances(base + ax)


def run_cvc5(smt2: str, timeout_s: int):
    # z3 prints its internal seq.nth_i / seq.nth_u (in-bounds / out-of-bounds parts of seq.nth); cvc5's seq.nth is
    # total with an unspecified out-of-bounds value, which is the same thing
    smt2 = smt2.replace("seq.nth_i", "seq.nth").replace("seq.nth_u", "seq.nth")
    with tempfile.NamedTemporaryFile("w", suffix=".smt2", delete=False, dir=os.environ.get("TMPDIR", "/tmp")) as f:
        f.write("(set-logic ALL)\n" + smt2)
        path = f.name
    try:
        p = subprocess.run(["/usr/bin/cvc5", "--strings-exp", f"--tlimit={timeout_s * 1000}", path],
                           capture_output=True, text=True, timeout=timeout_s + 5)
        out = p.stdout.strip().splitlines()
        return out[0] if out else "error:" + p.stderr[:200]
    except subprocess.TimeoutExpired:
        return "timeout"
    finally:
        os.unlink(path)


def model_summary(m: z3.ModelRef, limit=60):
    out = []
    for d in m.decls()[:limit]:
        try:
            out.append(f"{d.name()} = {m[d]}")
        except Exception:
            pass
    return "; ".join(out)


def discharge(ob: Obligation, timeout_ms=20000, cross_check=False, depth=2) -> Result:
    """z3 with a short budget, then cvc5, then z3 with the full budget; `sat` is retried with deeper unfolding"""
    t0 = time.time()
    try:
        q = build_query(ob.hyps, ob.goal, depth)
        s = z3.Solver()
        s.set("timeout", min(5000, timeout_ms))
        s.add(*q)
        r = s.check()
        backend, detail = "z3", ""
        if r == z3.unknown:
            c = run_cvc5(s.to_smt2(), max(10, timeout_ms // 2000))
            if c == "unsat":
                return Result(ob.name, "discharged", "cvc5", time.time() - t0, "", ob.kind, ob.line)
            if c != "sat":
                s.set("timeout", timeout_ms)
                r = s.check()
                if r == z3.unknown:
                    return Result(ob.name, "unknown", "z3,cvc5", time.time() - t0, f"z3: {s.reason_unknown()}; cvc5: {c}", ob.kind, ob.line)
            else:
                s.set("timeout", timeout_ms)
                r = s.check()
                if r == z3.unknown:
                    r2 = discharge(ob, timeout_ms, False, depth + 2) if depth < 4 else None
                    if r2 is not None and r2.status == "discharged":
                        return r2
                    return Result(ob.name, "failed", "cvc5", time.time() - t0, "cvc5: sat (no model extracted); z3: unknown", ob.kind, ob.line)
        if r == z3.unsat:
            status = "discharged"
            if cross_check:
                c = run_cvc5(s.to_smt2(), max(10, timeout_ms // 1000))
                if c == "sat":
                    status, detail = "backend-disagreement", "z3 unsat, cvc5 sat"
                elif c == "unsat":
                    backend = "z3+cvc5"
        else:
            status = "failed"
            detail = model_summary(s.model())
            # a deeper unfolding may still refute: spec functions are only unfolded to a fixed depth
            if depth < 4:
                r2 = discharge(ob, timeout_ms, False, depth + 2)
                if r2.status == "discharged":
                    r2.seconds = time.time() - t0
                    return r2
        return Result(ob.name, status, backend, time.time() - t0, detail, ob.kind, ob.line)
    except z3.Z3Exception as e:
        return Result(ob.name, "error", "z3", time.time() - t0, str(e), ob.kind, ob.line)


# ----------------------------------------------------------------------------- function verification


class FunctionReport:
    def __init__(self, qualname):
        self.qualname = qualname
        self.info = None
        self.results: list[Result] = []
        self.status = "ok"  # ok | undecided | error
        self.reason = ""
        self.assumed_used: list[str] = []
        self.dropped: list[str] = []
        self.vacuity = {}
        self.variants = 0
        self.paths = 0
        self.lemmas_used: set = set()

    def to_json(self):
        return {"function": self.qualname, "info": self.info, "status": self.status, "reason": self.reason,
                "results": [r.to_json() for r in self.results], "assumed_used": sorted(self.assumed_used),
                "dropped": sorted(self.dropped), "vacuity": self.vacuity, "variants": self.variants, "paths": self.paths,
                "lemmas_used": sorted(self.lemmas_used)}


def _enum_space(c):
    """cartesian product of enumerated parameter values (or a covering set when c.enum_cover)"""
    if c.enum_cover and c.enum_params:
        n = max(len(v) for v in c.enum_params.values())
        items = list(c.enum_params.items())
        out, seen = [], set()
        for shift in (0, 1, 2):
            for k in range(n):
                v = {p: vals[(k + shift * i) % len(vals)] for i, (p, vals) in enumerate(items)}
                key = repr(sorted((p, repr(x)) for p, x in v.items()))
                if key not in seen:
                    seen.add(key)
                    out.append(v)
        return out
    space = [{}]
    for p, vals in c.enum_params.items():
        space = [dict(s, **{p: v}) for s in space for v in vals]
    return space


def symbolic_params(c, it: Interp, fixed: dict):
    env = {}
    for nme, tystr in c.params.items():
        t = tystr.lstrip("?")
        if nme in fixed:
            env[nme] = fixed[nme]
            continue
        if t.startswith("Enum:"):
            raise Unsupported(f"{c.qualname}: enum parameter {nme} must be listed in enum_params")
        if t.startswith("Fn:"):
            env[nme] = registry.make_callable(t[3:], nme)
            continue
        if t.startswith("Rec:"):
            env[nme] = _interp.make_record(t[4:], lambda path, fty, nme=nme: core.fresh(fty, f"{nme}.{path}"))
            continue
        if t.startswith("Py") or t == "any":
            raise Unsupported(f"{c.qualname}: python-level parameter {nme} must be listed in enum_params")
        env[nme] = core.fresh(parse_ty(t), nme)
    for g, t in c.ghost.items():
        env[g] = core.fresh(parse_ty(t), g)
    for g, t in c.captured.items():
        env[g] = core.fresh(parse_ty(t), g)
    return env


def n_variants(qualname: str) -> int:
    if qualname.startswith("frame:"):
        return 1
    return len(_enum_space(registry.CONTRACTS[qualname]))


def verify_function(qualname: str, timeout_ms=20000, cross_check=False, only=None, chunk=None) -> FunctionReport:
    """verify with the primary sidecar; if it does not match the source (undecided), try the listed alternative
    sidecars for other known shapes of the body - the top-level clauses stay the same"""
    c = registry.CONTRACTS[qualname]
    rep = _verify_function(qualname, timeout_ms, cross_check, only, chunk)
    if rep.status == "undecided" and c.alternatives:
        for i, alt in enumerate(c.alternatives):
            saved = {k: getattr(c, k) for k in alt}
            try:
                for k, v in alt.items():
                    setattr(c, k, v)
                rep2 = _verify_function(qualname, timeout_ms, cross_check, only, chunk)
            finally:
                for k, v in saved.items():
                    setattr(c, k, v)
            if rep2.status != "undecided":
                rep2.reason = (rep2.reason + f" [sidecar alternative #{i + 1} matched the source]").strip()
                return rep2
    return rep


def _verify_frame(qualname: str, chunk=None) -> FunctionReport:
    """frame of a class: the members its source defines are exactly those the sidecar knows (under contract or acknowledged as
    not under contract).  A member the sidecar has never seen means the contracts no longer describe the class: undecided."""
    rep = FunctionReport(qualname)
    c = registry.CONTRACTS[qualname]
    if chunk is not None and chunk[0] != 0:
        return rep
    cls = qualname[len("frame:"):]
    t0 = time.time()
    try:
        node = extract.class_def(cls)
    except extract.ExtractError as e:
        rep.status, rep.reason = "undecided", f"extraction: {e}"
        return rep
    rep.info = {"qualname": qualname, "kind": "class frame", "lineno": node.lineno}
    have = set()
    for st_ in node.body:
        if isinstance(st_, (ast.FunctionDef, ast.AsyncFunctionDef)):
            have.add(st_.name)
        elif isinstance(st_, ast.Assign):
            have |= {t.id for t in st_.targets if isinstance(t, ast.Name)}
        elif isinstance(st_, ast.AnnAssign) and isinstance(st_.target, ast.Name):
            have.add(st_.target.id)
    known = set(c.frame["under_contract"]) | set(c.frame["acknowledged"])
    new, gone = sorted(have - known), sorted(set(c.frame["under_contract"]) - have)
    if new or gone:
        rep.status = "undecided"
        rep.reason = (f"sidecar no longer matches the source: class {cls} " + (f"defines members the contracts do not know: {new} " if new else "")
                      + (f"no longer defines members under contract: {gone}" if gone else ""))
        return rep
    rep.results.append(Result(f"{qualname}/frame.members_are_the_ones_the_contracts_describe", "discharged", "syntactic", time.time() - t0,
                              kind="frame", line=node.lineno))
    rep.variants = 1
    return rep


def _verify_function(qualname: str, timeout_ms=20000, cross_check=False, only=None, chunk=None) -> FunctionReport:
    if qualname.startswith("frame:"):
        return _verify_frame(qualname, chunk)
    rep = FunctionReport(qualname)
    c = registry.CONTRACTS[qualname]
    try:
        fi = extract.find_function(c.source or qualname)
        rep.info = fi.describe()
    except extract.ExtractError as e:
        rep.status, rep.reason = "undecided", f"extraction: {e}"
        return rep
    obligations: list[Obligation] = []
    try:
        space = _enum_space(c)
        rep.variants = len(space)
        any_return = False
        covers = []
        for vi, fixed in enumerate(space):
            if chunk is not None and vi % chunk[1] != chunk[0]:
                continue
            it = Interp(fi.module, contract=c, qualname=qualname)
            it.index_function(fi.node)
            missing = [k for k in c.loops if k >= it.n_loops] + [k for k in c.comps if k >= it.n_comps]
            if missing:
                raise Unsupported(f"sidecar names loop/comprehension ordinals {missing} that the source no longer has")
            env = symbolic_params(c, it, fixed)
            it.ghosts = [env[g] for g in c.ghost]
            from .values import Closure as _Closure
            try:
                extract.find_function(qualname.rsplit(".", 1)[0])  # nested function: its own name is in scope (recursion)
                env.setdefault(fi.node.name, _Closure(fi.node, {}, name=fi.node.name, qualname=qualname))
            except extract.ExtractError:
                pass
            st = State(env)
            for g, gexpr in c.where.items():
                st.env[g] = it.ev_contract_expr(gexpr, st)
            for r in list(c.requires) + list(c.ghost_requires):
                it.assume(st, it.ev_contract_expr(r, st))
            st.assumed = set()
            spec_env = dict(st.env)
            entry_pc = list(st.pc)
            # drop docstring
            body = fi.node.body
            outs = it.exec_block(body, st)
            it.obligations.extend(it._buf)
            it._buf = []
            tag = f"[{','.join(f'{k}={v!r}' for k, v in fixed.items())}]" if fixed else ""
            if len(tag) > 200:  # keep obligation names readable: long variant descriptions are cut and made unique by a digest
                import hashlib
                tag = tag[:150] + "...~" + hashlib.sha1(tag.encode()).hexdigest()[:8] + "]"
            rep.paths += len(outs)
            for pi, o in enumerate(outs):
                if o.kind in ("return", "fall"):
                    any_return = True
                    covers.append((f"{qualname}/return.reachable{tag}#{pi}", list(o.st.pc)))
                    fenv = {k_: v_ for k_, v_ in o.st.env.items() if k_ not in spec_env}
                    fenv.update(spec_env)  # parameters keep their entry value; final locals are visible too
                    est = State(fenv, o.st.pc, o.st.decisions)
                    est.env["result"] = o.val if o.kind == "return" else None
                    est.env["__final__"] = dict(o.st.env)
                    for pk, pv in o.st.env.items():
                        if isinstance(pv, ObjUnderConstruction) and pk in est.env:
                            est.env[pk] = pv
                    for wname, (wty, wexpr) in c.witness.items():
                        est.env[wname] = lift(it.ev_contract_expr(wexpr, est), parse_ty(wty))
                    for lname, binding in c.uses:
                        from contracts import lemmas as _lem
                        fact = _lem.instantiate(it, est, lname, binding)
                        o.st.pc.append(fact)
                        rep.lemmas_used.add(lname)
                    for ename, e in list(c.ensures.items()) + list(c.internal.items()):
                        try:
                            it._assuming.add(c.qualname)
                            g = it.ev_contract_expr(e, est)
                        except NeedFork:
                            raise Unsupported(f"ensures {ename}: condition needs a case split")
                        it.oblige(f"ensures.{ename}{tag}#p{pi}", o.st, g, "ensures", fi.node.lineno)
                    # a call site takes a non-"maybe" raises condition as exact (normal return => condition false):
                    # that converse is an obligation of the body too
                    rst = State(dict(spec_env), o.st.pc, o.st.decisions)
                    for en, when in c.raises.items():
                        if when != "maybe":
                            g = it.ev_contract_expr(when, rst)
                            it.oblige(f"raises.{en}.complete{tag}#p{pi}", o.st, SV(TBool, z3.Not(zbool(g))), "raises", fi.node.lineno)
                elif o.kind == "raise":
                    exc = o.val
                    allowed = None
                    for en, when in c.raises.items():
                        if _interp.exc_isinstance(exc.cls, en):
                            allowed = (en, when)
                            break
                    est = State(dict(spec_env), o.st.pc, o.st.decisions)
                    est.env["__trace__"] = o.st.env.get("__trace__", ())
                    for ename, e in c.on_raise.items():
                        it.oblige(f"on_raise.{ename}{tag}#p{pi}", o.st, it.ev_contract_expr(e, est), "on-raise", fi.node.lineno)
                    if allowed is None:
                        it.oblige(f"raises.{exc.cls}.unexpected{tag}#p{pi}", o.st, z3.BoolVal(False), "raises", fi.node.lineno)
                    elif allowed[1] != "maybe":
                        g = it.ev_contract_expr(allowed[1], est)
                        it.oblige(f"raises.{allowed[0]}.allowed{tag}#p{pi}", o.st, g, "raises", fi.node.lineno)
                else:
                    raise Unsupported(f"path ends with {o.kind}")
            it.obligations.extend(it._buf)
            it._buf = []
            obligations.extend(it.obligations)
            rep.assumed_used = sorted(set(rep.assumed_used) | it.assumed_used)
            rep.dropped = sorted(set(rep.dropped) | it.dropped)
            covers.extend(it.covers)
            # vacuity: requires must be satisfiable
            s = z3.Solver()
            s.set("timeout", 5000)
            s.add(*entry_pc, *all_axioms())
            rep.vacuity[f"requires.satisfiable{tag}"] = str(s.check())
        # reachability covers: at least one return path must be feasible, each loop body reachable
        ret_ok = False
        for nm, pc in covers:
            s = z3.Solver()
            s.set("timeout", 3000)
            s.add(*pc, *all_axioms())
            r = str(s.check())
            if "return.reachable" in nm:
                ret_ok = ret_ok or r != "unsat"
            else:
                rep.vacuity[nm] = r
        rep.vacuity["some_return_path_feasible"] = ret_ok or not any_return
    except Unsupported as e:
        rep.status, rep.reason = "undecided", f"outside subset / sidecar mismatch: {e}"
        return rep
    except core.LiftError as e:
        rep.status, rep.reason = "undecided", f"sidecar no longer matches the source (type of a value changed): {e}"
        return rep
    except (TypeError, KeyError, z3.Z3Exception, AttributeError, IndexError, ValueError) as e:
        rep.status, rep.reason = "error", f"{type(e).__name__}: {e}\n{traceback.format_exc()[-1500:]}"
        return rep
    if not obligations:
        rep.status, rep.reason = "error", "zero obligations generated"
        return rep
    seen = set()
    bad = skipped = 0
    for ob in obligations:
        if only and not any(x in ob.name for x in only):
            continue
        if ob.name in seen:
            n = 2
            while f"{ob.name}~{n}" in seen:
                n += 1
            ob.name = f"{ob.name}~{n}"
        seen.add(ob.name)
        if bad >= MAX_FAILED_PER_FUNCTION:
            skipped += 1
            continue
        r = discharge(ob, timeout_ms, cross_check)
        rep.results.append(r)
        if r.status != "discharged":
            bad += 1
    if skipped:
        rep.reason = (rep.reason + f" [{skipped} further obligations not attempted after {MAX_FAILED_PER_FUNCTION} undischarged ones]").strip()
    for k, v in rep.vacuity.items():
        if v == "unsat" or v is False:
            rep.status, rep.reason = "error", f"vacuity guard failed: {k} = {v}"
    return rep


# ----------------------------------------------------------------------------- lemmas


def prove_lemma(name, hyps_goal_fn, timeout_ms=20000, cross_check=False) -> Result:
    """hyps_goal_fn(interp, state) -> goal (z3 Bool / SV); hypotheses are added to state.pc"""
    it = Interp(None, qualname=f"lemma:{name}")
    it.mode = "spec"
    st = State({})
    try:
        goal = hyps_goal_fn(it, st)
        if isinstance(goal, SV):
            goal = zbool(goal)
        return discharge(Obligation(f"lemma:{name}", st.pc, goal, "lemma"), timeout_ms, cross_check)
    except (Unsupported, core.LiftError, z3.Z3Exception) as e:
        return Result(f"lemma:{name}", "error", "-", 0.0, f"{type(e).__name__}: {e}", "lemma")
