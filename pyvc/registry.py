"""Registries: contracts, class models, external (assumed) models, spec functions."""
from __future__ import annotations

from collections import OrderedDict

from . import core


class Contract:
    def __init__(self, qualname, params=None, self_ty=None, ret=None, requires=(), ensures=None,
                 raises=None, where=None, loops=None, comps=None, pure=True, assumed=False,
                 properties=(), note="", ret_fields=None, enum_params=None, ghost=None, fn_params=None,
                 raises_only=False, any_raises=False, locals=None, uses=(), captured=None, ret_py=None, abstractions=None, traced=False, on_raise=None, enum_cover=False, ghost_requires=(), alternatives=(), internal=None, witness=None, source=None, frame=None):
        self.qualname = qualname
        self.params = OrderedDict(params or {})  # name -> type string
        self.self_ty = self_ty
        self.ret = ret
        self.requires = list(requires)
        self.ensures = OrderedDict(ensures or {})
        self.raises = OrderedDict(raises or {})  # exception class name -> condition (string) under which raised
        self.where = OrderedDict(where or {})
        self.loops = loops or {}
        self.comps = comps or {}
        self.pure = pure
        self.assumed = assumed
        self.properties = tuple(properties)
        self.note = note
        self.ret_fields = ret_fields
        self.enum_params = enum_params or {}  # name -> list of concrete values to enumerate
        self.ghost = OrderedDict(ghost or {})  # extra universally quantified ghost constants name->type
        self.fn_params = fn_params or {}  # param name -> contract qualname of the callable
        self.any_raises = any_raises
        self.captured = OrderedDict(captured or {})  # free variables of a nested function: name -> type
        self.ret_py = ret_py  # callable(ctx, st, env) -> python-level result at call sites (for ret='Py...')
        self.abstractions = dict(abstractions or {})  # source text of an expression -> spec expression (ASSUMED reading)
        self.alternatives = list(alternatives)  # sidecar variants (dicts of attribute overrides) for other known shapes of the body
        self.ghost_requires = list(ghost_requires)  # hypotheses about the ghosts: assumed in the body, guard the ensures at call sites
        self.enum_cover = enum_cover  # enumerate a covering set of variants (every value at least once) instead of the product
        self.traced = traced  # calls are recorded in the ghost trace of the caller
        self.on_raise = OrderedDict(on_raise or {})  # clauses that must hold on every exceptional exit
        self.internal = OrderedDict(internal or {})  # postconditions over final locals: proved, but not visible at call sites
        self.witness = OrderedDict(witness or {})  # name -> (type, expression over the final state): existential witnesses of the ensures;
        # proved for that term in the body, a fresh constant at call sites
        self.frame = frame  # class frame: {'under_contract': [...], 'acknowledged': [...]} member names
        self.source = source  # instance contract: verify the body of this other qualified name (an extra, more concrete contract)
        self.uses = list(uses)  # [(lemma name, {lemma var: expr})]: proved lemmas instantiated as hypotheses at return
        self.locals = locals or {}  # local variable -> type string (for values whose type cannot be inferred)  # callee may raise anything (assumed externals)


CONTRACTS: dict[str, Contract] = {}
METHODS: dict[tuple[str, str], str] = {}  # (sort name, method name) -> contract qualname
EXTERNALS: dict[str, object] = {}  # dotted name -> python callable(ctx, *args, **kwargs)
SPECS: dict[str, object] = {}  # name -> python callable usable in contract strings


def contract(qualname, **kw) -> Contract:
    c = Contract(qualname, **kw)
    CONTRACTS[qualname] = c
    return c


def method(sort: str, name: str, qualname: str):
    METHODS[(sort, name)] = qualname


def external(*names):
    def deco(f):
        for n in names:
            EXTERNALS[n] = f
        return f
    return deco


def spec(name=None):
    def deco(f):
        SPECS[name or f.__name__] = f
        return f
    return deco


class ClassModel:
    """An uninterpreted object sort with python classes mapped onto it."""

    def __init__(self, sort: str, fields: dict[str, str], classes: dict[str, list[str]] | None = None,
                 properties: dict[str, str] | None = None):
        self.sort = sort
        self.fields = dict(fields)  # field -> type string
        self.classes = classes or {}  # python class dotted name -> list of base class dotted names (same sort)
        self.properties = properties or {}  # property name -> contract qualname
        self.tags = {c: i + 1 for i, c in enumerate(self.classes)}


CLASS_MODELS: dict[str, ClassModel] = {}  # sort name -> model
ATTRS_CLASSES: dict[str, tuple] = {}  # attrs class dotted name -> (sort, fields its __attrs_post_init__ may replace)
CLASS_OF: dict[str, str] = {}  # python class dotted name -> sort name


def class_model(sort, fields, classes=None, properties=None) -> ClassModel:
    m = ClassModel(sort, fields, classes, properties)
    CLASS_MODELS[sort] = m
    for c in m.classes:
        CLASS_OF[c] = sort
    return m


def subclasses(sort: str, cls: str) -> list[str]:
    m = CLASS_MODELS[sort]
    out = []

    def is_sub(c, seen=()):
        if c == cls:
            return True
        return any(is_sub(b, seen + (c,)) for b in m.classes.get(c, []) if b not in seen)

    for c in m.classes:
        if is_sub(c):
            out.append(c)
    return out


def field_term(sort: str, field: str, obj_t):
    m = CLASS_MODELS[sort]
    ty = core.parse_ty(m.fields[field])
    f = core.uf(f"{sort}.{field}", core.usort(sort), ty.sort())
    return core.SV(ty, f(obj_t))


def tag_term(sort: str, obj_t):
    import z3
    return core.uf(f"{sort}.__class__", core.usort(sort), z3.IntSort())(obj_t)


SORT_ATTR_FALLBACK: dict = {}  # sort name -> callable(ctx, st, obj, attr) -> value or None
