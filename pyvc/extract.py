"""Mechanical extraction of functions, classes, enums and import tables from /repo's working tree."""
from __future__ import annotations

import ast
import hashlib
import os
from pathlib import Path

REPO = Path(os.environ.get("GOTRANX_REPO", "/repo"))
SRC = REPO / "src"


class ExtractError(Exception):
    pass


_MOD_CACHE: dict[str, tuple[ast.Module, str]] = {}


def module_path(mod: str) -> Path:
    p = SRC / Path(*mod.split("."))
    if p.with_suffix(".py").is_file():
        return p.with_suffix(".py")
    if (p / "__init__.py").is_file():
        return p / "__init__.py"
    raise ExtractError(f"module {mod} not found under {SRC}")


def load_module(mod: str) -> tuple[ast.Module, str]:
    if mod not in _MOD_CACHE:
        path = module_path(mod)
        text = path.read_text()
        try:
            _MOD_CACHE[mod] = (ast.parse(text), text)
        except SyntaxError as e:  # pragma: no cover
            raise ExtractError(f"{path}: {e}")
    return _MOD_CACHE[mod]


def is_module(mod: str) -> bool:
    try:
        module_path(mod)
        return True
    except ExtractError:
        return False


class FuncInfo:
    def __init__(self, qualname, module, node, text, cls=None):
        self.qualname, self.module, self.node, self.cls = qualname, module, node, cls
        seg = ast.get_source_segment(text, node) or ""
        self.sha = hashlib.sha256(seg.encode()).hexdigest()[:16]
        self.file = str(module_path(module))
        self.lines = (node.lineno, node.end_lineno)

    def describe(self):
        return {"function": self.qualname, "file": self.file, "lines": list(self.lines), "sha256_16": self.sha}


_FUNC_CACHE: dict = {}


def find_function(qualname: str) -> FuncInfo:
    if qualname not in _FUNC_CACHE:
        try:
            _FUNC_CACHE[qualname] = _find_function(qualname)
        except ExtractError as e:
            _FUNC_CACHE[qualname] = e
    r = _FUNC_CACHE[qualname]
    if isinstance(r, ExtractError):
        raise r
    return r


def _find_function(qualname: str) -> FuncInfo:
    """qualname like gotranx.schemes.explicit_euler, gotranx.codegen.base.CodeGenerator.rhs,
    gotranx.expressions.build_expression.expr2symbols (nested def)."""
    parts = qualname.split(".")
    for cut in range(len(parts) - 1, 0, -1):
        mod = ".".join(parts[:cut])
        if is_module(mod):
            tree, text = load_module(mod)
            node, cls = tree, None
            for p in parts[cut:]:
                found = None
                for ch in ast.iter_child_nodes(node) if not isinstance(node, ast.Module) else node.body:
                    if isinstance(ch, (ast.FunctionDef, ast.ClassDef)) and ch.name == p:
                        found = ch
                if found is None and isinstance(node, ast.FunctionDef):
                    for ch in ast.walk(node):
                        if isinstance(ch, ast.FunctionDef) and ch.name == p and ch is not node:
                            found = ch
                            break
                if found is None:
                    raise ExtractError(f"{qualname}: '{p}' not found in {mod}")
                if isinstance(found, ast.ClassDef):
                    cls = found.name
                node = found
            if not isinstance(node, ast.FunctionDef):
                raise ExtractError(f"{qualname} is not a function")
            return FuncInfo(qualname, mod, node, text, cls)
    raise ExtractError(f"{qualname}: no module found")


def import_table(mod: str) -> dict[str, str]:
    """local alias -> fully qualified dotted name, from the module's import statements."""
    tree, _ = load_module(mod)
    pkg = mod.split(".")
    if not module_path(mod).name == "__init__.py":
        pkg = pkg[:-1]
    table: dict[str, str] = {}
    for node in ast.walk(tree):
        if isinstance(node, ast.Import):
            for a in node.names:
                table[a.asname or a.name.split(".")[0]] = a.name if a.asname else a.name.split(".")[0]
        elif isinstance(node, ast.ImportFrom):
            if node.level:
                base = pkg[: len(pkg) - (node.level - 1)]
                full = ".".join(base + ([node.module] if node.module else []))
            else:
                full = node.module or ""
            for a in node.names:
                table[a.asname or a.name] = f"{full}.{a.name}" if full else a.name
    # module-level defs and classes
    for node in tree.body:
        if isinstance(node, (ast.FunctionDef, ast.ClassDef)):
            table.setdefault(node.name, f"{mod}.{node.name}")
        elif isinstance(node, ast.Assign):
            for t in node.targets:
                if isinstance(t, ast.Name):
                    table.setdefault(t.id, f"{mod}.{t.id}")
    return table


def enum_members(qualname: str) -> list[tuple[str, object]]:
    parts = qualname.split(".")
    mod, cname = ".".join(parts[:-1]), parts[-1]
    tree, _ = load_module(mod)
    for node in tree.body:
        if isinstance(node, ast.ClassDef) and node.name == cname:
            out = []
            for st in node.body:
                if isinstance(st, ast.Assign) and len(st.targets) == 1 and isinstance(st.targets[0], ast.Name):
                    try:
                        out.append((st.targets[0].id, ast.literal_eval(st.value)))
                    except Exception:
                        pass
            return out
    raise ExtractError(f"enum {qualname} not found")


def class_bases(qualname: str) -> list[str]:
    parts = qualname.split(".")
    mod, cname = ".".join(parts[:-1]), parts[-1]
    tree, _ = load_module(mod)
    for node in tree.body:
        if isinstance(node, ast.ClassDef) and node.name == cname:
            return [ast.unparse(b) for b in node.bases]
    raise ExtractError(f"class {qualname} not found")


def class_def(qualname: str) -> ast.ClassDef:
    parts = qualname.split(".")
    mod, cname = ".".join(parts[:-1]), parts[-1]
    tree, _ = load_module(mod)
    for node in tree.body:
        if isinstance(node, ast.ClassDef) and node.name == cname:
            return node
    raise ExtractError(f"class {qualname} not found")


def module_constant(qualname: str):
    parts = qualname.split(".")
    mod, name = ".".join(parts[:-1]), parts[-1]
    tree, _ = load_module(mod)
    for node in tree.body:
        if isinstance(node, ast.Assign) and any(isinstance(t, ast.Name) and t.id == name for t in node.targets):
            return node.value
    raise ExtractError(f"constant {qualname} not found")
