"""Contracts for the backend-specific argument builders (C04: argument order changes only the formals),
the JAX template precondition on num_return_values (C03) and imports."""
from __future__ import annotations

import z3

from pyvc import core, registry, values as V
from pyvc.core import SV, TBool, TInt, TName, TSeq, lift, Record, EnumVal
from pyvc.registry import contract, CONTRACTS, method
from .models import enum_values
from . import c_base  # noqa: F401

PY = "gotranx.codegen.python.PythonCodeGenerator."
CC = "gotranx.codegen.c.CCodeGenerator."

PY_ARG = {"s": "states", "t": "t", "p": "parameters", "d": "dt"}
C_ARG = {"s": "const double *__restrict states", "t": "const double t", "d": "const double dt",
         "p": "const double *__restrict parameters"}
C_ARG_NC = dict(C_ARG, s="double *__restrict states")


@registry.spec("spelled")
def _spelled(ctx, st, order, table, extra=()):
    v = order.value if isinstance(order, EnumVal) else order
    return [table[ch] for ch in v] + list(extra)


@registry.spec("PY_ARG")
def _py_arg(ctx, st):
    return PY_ARG


@registry.spec("C_ARG")
def _c_arg(ctx, st, const_states=True):
    return C_ARG if const_states else C_ARG_NC


def _orders(short):
    vals = enum_values(short)
    return vals + [v.value for v in vals[:2]]  # enum members and, for two of them, the plain-string spelling


_FUNC_PY = ("result.states.name == 'states' and result.parameters.name == 'parameters' and result.values.name == 'values' "
            "and result.return_name == 'values' and result.num_return_values == self.ode.num_states "
            "and result.values_type == 'numpy.zeros_like(states, dtype=numpy.float64)'")
_FUNC_C = ("result.states.name == 'states' and result.parameters.name == 'parameters' and result.values.name == 'values' "
           "and result.return_name == 'values' and result.values_type == ''")

contract(PY + "_rhs_arguments", params={"self": "CG", "order": "Enum:RHSArgument"}, ret="Rec:Func",
         requires=["WF(self.ode)"], enum_params={"order": _orders("RHSArgument")},
         ensures={"formals_are_the_permutation_spelled_by_order": "result.arguments == spelled(order, PY_ARG())",
                  "nothing_else_depends_on_order": _FUNC_PY},
         properties=("C04",))
contract(PY + "_scheme_arguments", params={"self": "CG", "order": "Enum:SchemeArgument"}, ret="Rec:Func",
         requires=["WF(self.ode)"], enum_params={"order": _orders("SchemeArgument")},
         ensures={"formals_are_the_permutation_spelled_by_order": "result.arguments == spelled(order, PY_ARG())",
                  "nothing_else_depends_on_order": _FUNC_PY},
         properties=("C04",))
contract(CC + "_rhs_arguments", params={"self": "CG", "order": "Enum:RHSArgument", "const_states": "PyBool"}, ret="Rec:Func",
         requires=["WF(self.ode)"], enum_params={"order": _orders("RHSArgument"), "const_states": [True, False]},
         ensures={"formals_are_the_permutation_spelled_by_order_then_values": "result.arguments == spelled(order, C_ARG(const_states), ['double* values'])",
                  "nothing_else_depends_on_order": _FUNC_C},
         properties=("C04", "C02"))
contract(CC + "_scheme_arguments", params={"self": "CG", "order": "Enum:SchemeArgument", "const_states": "PyBool"}, ret="Rec:Func",
         requires=["WF(self.ode)"], enum_params={"order": _orders("SchemeArgument"), "const_states": [True, False]},
         ensures={"formals_are_the_permutation_spelled_by_order_then_values": "result.arguments == spelled(order, C_ARG(const_states), ['double* values'])",
                  "nothing_else_depends_on_order": _FUNC_C},
         properties=("C04", "C02"))
