"""ODE / Component class models and the *interface* contracts of gotranx.ode.ODE used at call sites.

The contracts declared here are verified against the real bodies in c_ode.py where marked; at a
call site only the contract is used (modular verification).
"""
from __future__ import annotations

import z3

from pyvc import core, registry
from pyvc.core import SV, TInt, TBool, TName, TSym, TSeq, TSet, TDict, TU, lift
from pyvc.registry import class_model, contract, method
from pyvc.verify import defspec
from .models import TAtom, TODE, TComp, TStmt, Stmt, sym

O = "gotranx.ode.ODE."

class_model(
    "ODE",
    fields={
        "components": "Seq[Component]", "t": "Sym", "name": "Name", "comments": "Comments", "text": "Name",
        "_symbols": "Dict[Name,Sym]", "_lookup": "Dict[Name,Atom]", "_components": "Dict[Name,Component]",
    },
    classes={"gotranx.ode.ODE": []},
    properties={
        "states": O + "states", "parameters": O + "parameters", "state_derivatives": O + "state_derivatives",
        "intermediates": O + "intermediates", "num_states": O + "num_states", "num_parameters": O + "num_parameters",
        "missing_variables": O + "missing_variables", "symbols": O + "symbols", "num_components": O + "num_components",
    },
)
for m in ("sorted_assignments", "sorted_states", "sorted_state_derivatives", "dependents", "__getitem__"):
    method("ODE", m, O + m)

C = "gotranx.ode_component."
class_model(
    "Component",
    fields={
        "name": "Name", "states": "Set[Atom]", "parameters": "Set[Atom]", "assignments": "Set[Atom]",
        "state_derivatives": "Set[Atom]", "intermediates": "Set[Atom]",
    },
    classes={C + "BaseComponent": [], C + "Component": [C + "BaseComponent"], C + "MyokitComponent": [C + "BaseComponent"]},
    properties={},
)

# ---------------------------------------------------------------------------------------------
# spec vocabulary over sequences of atoms
# ---------------------------------------------------------------------------------------------

defspec("count_sd", {"SA": "Seq[Atom]", "j": "Int"}, "Int", """
def count_sd(SA, j):
    if j <= 0:
        return 0
    if is_sd(SA[j - 1]):
        return count_sd(SA, j - 1) + 1
    return count_sd(SA, j - 1)
""")

defspec("filter_sd", {"SA": "Seq[Atom]", "j": "Int"}, "Seq[Atom]", """
def filter_sd(SA, j):
    if j <= 0:
        return empty("Seq[Atom]")
    if is_sd(SA[j - 1]):
        return filter_sd(SA, j - 1) + [SA[j - 1]]
    return filter_sd(SA, j - 1)
""")

defspec("map_state", {"SD": "Seq[Atom]", "j": "Int"}, "Seq[Atom]", """
def map_state(SD, j):
    if j <= 0:
        return empty("Seq[Atom]")
    return map_state(SD, j - 1) + [SD[j - 1].state]
""")

defspec("map_name", {"S": "Seq[Atom]", "j": "Int"}, "Seq[Name]", """
def map_name(S, j):
    if j <= 0:
        return empty("Seq[Name]")
    return map_name(S, j - 1) + [S[j - 1].name]
""")

# ---------------------------------------------------------------------------------------------
# interface contracts (properties and methods of ODE)
# ---------------------------------------------------------------------------------------------

contract(O + "states", params={"self": "ODE"}, ret="Seq[Atom]")
contract(O + "parameters", params={"self": "ODE"}, ret="Seq[Atom]")
contract(O + "state_derivatives", params={"self": "ODE"}, ret="Seq[Atom]")
contract(O + "intermediates", params={"self": "ODE"}, ret="Seq[Atom]")
contract(O + "symbols", params={"self": "ODE"}, ret="Dict[Name,Sym]", ensures={"is_field": "result == self._symbols"})
contract(O + "num_states", params={"self": "ODE"}, ret="Int", requires=["WF(self)"], ensures={"len": "result == len(self.states)"})
contract(O + "num_parameters", params={"self": "ODE"}, ret="Int", requires=["WF(self)"], ensures={"len": "result == len(self.parameters)"})
contract(O + "num_components", params={"self": "ODE"}, ret="Int", ensures={"len": "result == len(self.components)"})
contract(O + "missing_variables", params={"self": "ODE"}, ret="Dict[Name,Int]")
contract(O + "dependents", params={"self": "ODE"}, ret="Dict[Name,Set[Name]]")
contract(O + "__getitem__", params={"self": "ODE", "name": "Name"}, ret="Atom",
         raises={"KeyError": "name not in self._lookup"},
         ensures={"lookup": "result == self._lookup[name]"})

contract(
    O + "sorted_assignments",
    params={"self": "ODE", "assignments_only": "Bool", "remove_unused": "Bool"},
    ret="Seq[Atom]",
    raises={"GotranxError": "maybe", "CycleError": "maybe", "KeyError": "maybe"},
)
contract(
    O + "sorted_state_derivatives", params={"self": "ODE"}, ret="Seq[Atom]",
    raises={"GotranxError": "maybe", "CycleError": "maybe", "KeyError": "maybe"},
    where={"SA": "self.sorted_assignments(True, False)"},
    ensures={"filter": "result == filter_sd(SA, len(SA))"},
)
contract(
    O + "sorted_states", params={"self": "ODE"}, ret="Seq[Atom]",
    raises={"GotranxError": "maybe", "CycleError": "maybe", "KeyError": "maybe"},
    where={"SD": "self.sorted_state_derivatives()"},
    ensures={"map": "result == map_state(SD, len(SD))"},
)

defspec("ode_has_none_value", {"ode": "ODE"}, "Bool")
defspec("ode_cyclic", {"ode": "ODE"}, "Bool")
