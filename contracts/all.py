"""import every sidecar contract module (order matters: models first)"""
from . import models, c_ode_iface, c_schemes, c_base  # noqa: F401
import importlib
for _m in ("c_den", "c_backends", "c_ode", "c_sympytools", "c_expressions", "c_cli", "c_atoms", "c_transformer", "c_templates", "c_myokit", "c_save", "c_skeleton", "c_treetoode", "c_components", "c_reserved"):
    try:
        importlib.import_module("contracts." + _m)
    except ModuleNotFoundError as e:
        if _m not in str(e):
            raise
from . import lemmas  # noqa: F401,E402
from .c_base import finalize_enums2 as _fin  # noqa: E402
_fin()
