"""Contracts for gotranx/transformer.py (C17 exception safety and inertness frames, C08 duplicate definitions)."""
from __future__ import annotations

import z3

from pyvc import core, registry, values as V
from pyvc import interp as I
from pyvc.core import SV, TBool, TInt, TName, TSeq, lift, Record
from pyvc.registry import contract, external, class_model, CONTRACTS, method
from pyvc.values import BoundMethod, Unsupported, ExcVal
from .models import TAtom
from . import c_den  # noqa: F401  (Node model)

TR = "gotranx.transformer."
TNode = core.TU("Node")

# a child of an assignment tree may be a Comment object: model `Node` elements that are atoms.Comment
IS_COMMENT = core.uf("Node.is_Comment", TNode.sort(), z3.BoolSort())
registry.EXTERNALS["isinstance:gotranx.atoms.Comment"] = lambda ctx, st, obj: (
    SV(TBool, IS_COMMENT(obj.t)) if isinstance(obj, SV) and obj.ty == TNode else isinstance(obj, Record) and obj.cls == "Comment")
registry.CLASS_MODELS["Node"].fields["text"] = "Name"
core.RECORDS["Comment"] = {"text": "Name"}
core.RECORDS_BY_DOTTED["gotranx.atoms.Comment"] = "Comment"

# pint (ASSUMED): ureg(text) returns a value or raises ANY exception; it need not terminate (hang: bounded oracle only)
contract("pint.UnitRegistry.__call__", params={"text": "Name"}, ret="PintResult", assumed=True, pure=True,
         raises={"UndefinedUnitError": "maybe", "AttributeError": "maybe", "ZeroDivisionError": "maybe", "TokenError": "maybe",
                 "DefinitionSyntaxError": "maybe", "Exception": "maybe"},
         note="pint evaluates the text as an expression: any exception may escape; termination is not guaranteed")
registry.EXTERNALS["gotranx.units.ureg"] = lambda ctx, st, text: ctx.call_contract(CONTRACTS["pint.UnitRegistry.__call__"], [text], {}, st)
class_model("PintResult", fields={}, classes={})
IS_QUANTITY = core.uf("PintResult.is_Quantity", core.TU("PintResult").sort(), z3.BoolSort())
registry.EXTERNALS["isinstance:pint.Quantity"] = lambda ctx, st, obj: SV(TBool, IS_QUANTITY(obj.t))
I._EXC_BASES.update({"TokenError": ["Exception"], "DefinitionSyntaxError": ["ValueError"], "ZeroDivisionError": ["ArithmeticError"]})

contract(
    TR + "get_unit_and_comment_from_assignment", params={"s": "Node"}, ret="any",
    ensures={"never_raises_and_classifies_by_pint": "True"},
    properties=("C17",),
    note="no `raises` clause: every exception pint may raise for a comment text must be caught (a comment never makes a model fail to load)",
)
