"""Contracts for gotranx/transformer.py (C17 exception safety and inertness frames, C08 duplicate definitions)."""
from __future__ import annotations

import z3

from pyvc import core, registry, values as V
from pyvc import interp as I
from pyvc.core import SV, TBool, TInt, TName, TSeq, lift, Record
from pyvc.registry import contract, external, class_model, CONTRACTS, method
from pyvc.values import BoundMethod, Unsupported, ExcVal
from .models import TAtom
from . import c_den  # noqa: F401  (Node model)

TR = "gotranx.transformer."
TNode = core.TU("Node")

# a child of an assignment tree may be a Comment object: model `Node` elements that are atoms.Comment
IS_COMMENT = core.uf("Node.is_Comment", TNode.sort(), z3.BoolSort())
registry.EXTERNALS["isinstance:gotranx.atoms.Comment"] = lambda ctx, st, obj: (
    SV(TBool, IS_COMMENT(obj.t)) if isinstance(obj, SV) and obj.ty == TNode else isinstance(obj, Record) and obj.cls == "Comment")
registry.CLASS_MODELS["Node"].fields["text"] = "Name"
core.RECORDS["Comment"] = {"text": "Name"}
core.RECORDS_BY_DOTTED["gotranx.atoms.Comment"] = "Comment"

# pint (ASSUMED): ureg(text) returns a value or raises ANY exception; it need not terminate (hang: bounded oracle only)
contract("pint.UnitRegistry.__call__", params={"text": "Name"}, ret="PintResult", assumed=True, pure=True,
         raises={"UndefinedUnitError": "maybe", "AttributeError": "maybe", "ZeroDivisionError": "maybe", "TokenError": "maybe",
                 "DefinitionSyntaxError": "maybe", "Exception": "maybe"},
         note="pint evaluates the text as an expression: any exception may escape; termination is not guaranteed")
registry.EXTERNALS["gotranx.units.ureg"] = lambda ctx, st, text: ctx.call_contract(CONTRACTS["pint.UnitRegistry.__call__"], [text], {}, st)
class_model("PintResult", fields={}, classes={})
IS_QUANTITY = core.uf("PintResult.is_Quantity", core.TU("PintResult").sort(), z3.BoolSort())
registry.EXTERNALS["isinstance:pint.Quantity"] = lambda ctx, st, obj: SV(TBool, IS_QUANTITY(obj.t))
I._EXC_BASES.update({"TokenError": ["Exception"], "DefinitionSyntaxError": ["ValueError"], "ZeroDivisionError": ["ArithmeticError"]})

contract(
    TR + "get_unit_and_comment_from_assignment", params={"s": "Node"}, ret="any",
    ensures={"never_raises_and_classifies_by_pint": "True"},
    properties=("C17",),
    note="no `raises` clause: every exception pint may raise for a comment text must be caught (a comment never makes a model fail to load)",
)

# ---- C08: two definitions of one name ----------------------------------------------------------------------
TValue = core.TU("Value")
IS_EXPRESSION = core.uf("Value.is_Expression", TValue.sort(), z3.BoolSort())
registry.EXTERNALS["isinstance:gotranx.atoms.Expression"] = lambda ctx, st, obj: (
    SV(TBool, IS_EXPRESSION(obj.t)) if isinstance(obj, SV) and obj.ty == TValue else False)
registry.EXTERNALS["Value.tree"] = lambda ctx, st, obj: SV(TNode, core.uf("Value.tree", TValue.sort(), TNode.sort())(obj.t))


@registry.spec("same_class")
def _same_class(ctx, st, a, b):
    return SV(TBool, registry.tag_term("Atom", a.t) == registry.tag_term("Atom", b.t))


@registry.spec("is_expression")
def _is_expression(ctx, st, v):
    return SV(TBool, IS_EXPRESSION(v.t))


_orig_compare = I.Interp.ev_Compare


def _ev_Compare(self, n, st):
    # `type(a) is not type(b)` on model atoms: comparison of the class tags
    import ast as _ast
    if len(n.ops) == 1 and isinstance(n.ops[0], (_ast.Is, _ast.IsNot)):
        l, r = self.ev(n.left, st), self.ev(n.comparators[0], st)
        if isinstance(l, I.TypeOf) and isinstance(r, I.TypeOf):
            eq = SV(TBool, registry.tag_term(l.v.ty.name, l.v.t) == registry.tag_term(r.v.ty.name, r.v.t))
            return eq if isinstance(n.ops[0], _ast.Is) else V.py_not(eq)
    return _orig_compare(self, n, st)


I.Interp.ev_Compare = _ev_Compare

contract(
    TR + "_same_definition", params={"first": "Atom", "other": "Atom"}, ret="Bool",
    ensures={"same_kind_and_same_value_or_tree":
             "result == (same_class(first, other) and ite(is_expression(first.value) and is_expression(other.value), "
             "first.value.tree == other.value.tree, first.value == other.value))"},
    properties=("C08",),
    note="the predicate TreeToODE.ode uses to reject a second, different definition of a name (kind clash, different right-hand side)",
)

# attrs equality of atoms (ASSUMED from the class definitions in atoms.py: every field takes part except Expression.tree,
# which is declared cmp=False): a == b in the real code is this relation, not identity
PYEQ = core.uf("Atom.__eq__", TAtom.sort(), TAtom.sort(), z3.BoolSort())


def _atom_pyeq(a, b):
    return SV(TBool, PYEQ(a.t, b.t))


V.EQ_HOOK["Atom"] = _atom_pyeq


def _pyeq_axioms(app):
    a, b = app.children()
    f = lambda name: registry.field_term("Atom", name, a).t == registry.field_term("Atom", name, b).t  # noqa: E731
    deps = lambda x: core.uf("Value.dependencies", TValue.sort(), core.TSet(TName).sort())(registry.field_term("Atom", "value", x).t)  # noqa: E731
    return [z3.Implies(a == b, app),
            z3.Implies(app, z3.And(f("name"), f("components"), registry.tag_term("Atom", a) == registry.tag_term("Atom", b),
                                   deps(a) == deps(b))),
            # equal atoms need NOT have equal expression trees / values-as-written: no axiom in that direction
            ]


core.TERM_AXIOMS["Atom.__eq__"] = _pyeq_axioms
