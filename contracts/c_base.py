"""Contracts for gotranx/codegen/base.py : CodeGenerator (C04, C12, C13, C01/C02/C03 emission, C05 glue)."""
from __future__ import annotations

import z3

from pyvc import core, registry, values as V
from pyvc.core import SV, TBool, TInt, TName, TSeq, lift, Record
from pyvc.registry import contract, class_model, method, external
from pyvc.verify import defspec
from pyvc.values import Unsupported
from .models import TStmt, Stmt, sym, TCode
from . import c_ode_iface, c_schemes  # noqa: F401

B = "gotranx.codegen.base.CodeGenerator."

core.RECORDS["IndexedBase"] = {"name": "Name", "shape": "Py"}
core.RECORDS["Func"] = {
    "arguments": "Seq[Name]", "states": "Rec:IndexedBase", "parameters": "Rec:IndexedBase", "values": "Rec:IndexedBase",
    "values_type": "Name", "return_name": "Name", "num_return_values": "Int",
}
core.RECORDS_BY_DOTTED["gotranx.codegen.base.Func"] = "Func"
core.RECORD_DEFAULTS["Func"] = {"return_name": "values", "num_return_values": 0}
core.RECORDS_BY_DOTTED.pop("sympy.IndexedBase", None)


@external("sympy.IndexedBase")
def _IndexedBase(ctx, st, name, shape=None, **kw):
    """ASSUMED (sympy): IndexedBase(name, shape=s) has .shape == s if s is a tuple else (s,)"""
    if shape is not None and not isinstance(shape, tuple):
        shape = (shape,)
    return Record("IndexedBase", {"name": name, "shape": shape})


class_model(
    "CG",
    fields={"ode": "ODE", "remove_unused": "Bool", "_missing_variables": "Dict[Name,Int]", "_shape": "Name",
            "deps": "Dict[Name,Set[Name]]", "variable_prefix": "Name"},
    classes={"gotranx.codegen.base.CodeGenerator": []},
    properties={"printer": B + "printer", "template": B + "template"},
)
class_model("Template", fields={}, classes={})
class_model("Printer", fields={}, classes={})

for m in ("_condition", "_doprint", "_comment", "_format", "_rhs_arguments", "_scheme_arguments", "_state_assignments",
          "_parameter_assignments", "_missing_variables_assignments", "_shape_info", "missing_index", "state_index",
          "parameter_index", "monitor_index", "initial_state_values", "initial_parameter_values", "rhs",
          "monitor_values", "missing_values", "scheme", "imports"):
    method("CG", m, B + m)

contract(B + "printer", params={"self": "CG"}, ret="Printer", assumed=True)
contract(B + "template", params={"self": "CG"}, ret="Template", assumed=True)

# object invariant established by CodeGenerator.__init__ (verified: see init contract below)
contract(B + "_condition", params={"self": "CG", "x": "Name"}, ret="Bool",
         ensures={"invariant": "result == ((not self.remove_unused) or (x in self.ode.dependents()))"}, assumed=True,
         note="object invariant: _condition is the lambda installed by __init__")
contract(B + "_doprint", params={"self": "CG", "lhs": "Sym", "rhs": "Sym", "use_variable_prefix": "Bool"}, ret="Stmt",
         ensures={"assign": "result == Assign(lhs, rhs, use_variable_prefix)"}, assumed=True,
         note="abstract value of one printed assignment line; printer conformance is a separate (assumed/bounded) clause")
contract(B + "_comment", params={"self": "CG", "text": "Name"}, ret="Stmt", ensures={"c": "result == CommentLine(text)"}, assumed=True)
contract(B + "_format", params={"self": "CG", "code": "Text"}, ret="Text", assumed=True,
         note="formatter is assumed meaning-preserving (black/ruff/clang-format or identity)")

T = "gotranx.templates.Template."
for nm in ("state_index", "parameter_index", "monitor_index", "missing_index"):
    contract(T + nm, params={"self": "Template", "data": "Dict[Name,Int]"}, ret="Text", assumed=True)
    method("Template", nm, T + nm)
contract(T + "init_state_values", params={"self": "Template", "code": "Seq[Stmt]", "state_names": "Seq[Name]", "state_values": "Seq[Name]", "name": "Name"}, ret="Text", assumed=True)
contract(T + "init_parameter_values", params={"self": "Template", "code": "Seq[Stmt]", "parameter_names": "Seq[Name]", "parameter_values": "Seq[Name]", "name": "Name"}, ret="Text", assumed=True)
contract(T + "method", params={"self": "Template", "name": "Name", "args": "Name", "states": "Seq[Stmt]", "parameters": "Seq[Stmt]",
                               "values": "Seq[Stmt]", "return_name": "Name", "num_return_values": "Int", "shape_info": "Name",
                               "values_type": "Name", "missing_variables": "Seq[Stmt]"}, ret="Text", assumed=True)
for nm in ("init_state_values", "init_parameter_values", "method"):
    method("Template", nm, T + nm)
contract("sympy.printing.CodePrinter.doprint", params={"self": "Printer", "expr": "Sym"}, ret="Name", assumed=True)
method("Printer", "doprint", "sympy.printing.CodePrinter.doprint")

contract(B + "_rhs_arguments", params={"self": "CG", "order": "Enum:RHSArgument"}, ret="Rec:Func", assumed=True,
         note="abstract method; the three implementations are verified in c_backends.py")
contract(B + "_scheme_arguments", params={"self": "CG", "order": "Enum:SchemeArgument"}, ret="Rec:Func", assumed=True)

# ----------------------------------------------------------------------------------------------- specs

defspec("index_dict", {"S": "Seq[Atom]", "j": "Int"}, "Dict[Name,Int]", """
def index_dict(S, j):
    if j <= 0:
        return empty("Dict[Name,Int]")
    return dict_set(index_dict(S, j - 1), S[j - 1].name, j - 1)
""")

defspec("count_mon", {"SA": "Seq[Atom]", "j": "Int"}, "Int", """
def count_mon(SA, j):
    if j <= 0:
        return 0
    if is_sd(SA[j - 1]) or is_intermediate(SA[j - 1]):
        return count_mon(SA, j - 1) + 1
    return count_mon(SA, j - 1)
""")

defspec("monitor_dict", {"SA": "Seq[Atom]", "j": "Int"}, "Dict[Name,Int]", """
def monitor_dict(SA, j):
    if j <= 0:
        return empty("Dict[Name,Int]")
    if is_sd(SA[j - 1]) or is_intermediate(SA[j - 1]):
        return dict_set(monitor_dict(SA, j - 1), SA[j - 1].name, count_mon(SA, j - 1))
    return monitor_dict(SA, j - 1)
""")

defspec("map_value", {"S": "Seq[Atom]", "j": "Int"}, "Seq[Value]", """
def map_value(S, j):
    if j <= 0:
        return empty("Seq[Value]")
    return map_value(S, j - 1) + [S[j - 1].value]
""")

defspec("map_printed_value", {"cg": "CG", "S": "Seq[Atom]", "j": "Int"}, "Seq[Name]", """
def map_printed_value(cg, S, j):
    if j <= 0:
        return empty("Seq[Name]")
    return map_printed_value(cg, S, j - 1) + [cg.printer.doprint(S[j - 1].value)]
""")

defspec("init_code", {"VALS": "Seq[Value]", "base": "Name", "j": "Int"}, "Seq[Stmt]", """
def init_code(VALS, base, j):
    if j <= 0:
        return empty("Seq[Stmt]")
    return init_code(VALS, base, j - 1) + [Assign(Indexed(base, j - 1), VALS[j - 1], False)]
""")

defspec("state_unpack", {"cg": "CG", "SS": "Seq[Atom]", "base": "Name", "R": "Bool", "j": "Int"}, "Seq[Stmt]", """
def state_unpack(cg, SS, base, R, j):
    if j <= 0:
        return empty("Seq[Stmt]")
    s = SS[j - 1]
    if (not R) or cg._condition(s.name):
        return state_unpack(cg, SS, base, R, j - 1) + [Assign(s.symbol, Indexed(base, j - 1), True)]
    return state_unpack(cg, SS, base, R, j - 1)
""")

defspec("param_unpack", {"cg": "CG", "PS": "Seq[Atom]", "base": "Name", "KEEP": "Dict[Name,Int]", "j": "Int"}, "Seq[Stmt]", """
def param_unpack(cg, PS, base, KEEP, j):
    if j <= 0:
        return empty("Seq[Stmt]")
    p = PS[j - 1]
    if cg._condition(p.name) or p.name in KEEP:
        return param_unpack(cg, PS, base, KEEP, j - 1) + [Assign(p.symbol, Indexed(base, j - 1), True)]
    return param_unpack(cg, PS, base, KEEP, j - 1)
""")

defspec("missing_unpack", {"MV": "Dict[Name,Int]", "j": "Int"}, "Seq[Stmt]", """
def missing_unpack(MV, j):
    if j <= 0:
        return empty("Seq[Stmt]")
    nm = dict_key_at(MV, j - 1)
    return missing_unpack(MV, j - 1) + [Assign(Symbol(nm), Indexed("missing_variables", MV[nm]), True)]
""")


@registry.spec("dict_key_at")
def _dict_key_at(ctx, st, d, j):
    return SV(d.ty.args[0], core.dict_keys(d).t[V.as_int(j).t])


@registry.spec("dict_len")
def _dict_len(ctx, st, d):
    return SV(TInt, z3.Length(core.dict_keys(d).t))


defspec("rhs_emit", {"SA": "Seq[Atom]", "j": "Int"}, "Seq[Stmt]", """
def rhs_emit(SA, j):
    if j <= 0:
        return empty("Seq[Stmt]")
    x = SA[j - 1]
    head = rhs_emit(SA, j - 1) + [Assign(x.symbol, x.expr, True)]
    if is_sd(x):
        return head + [Assign(Indexed("values", count_sd(SA, j - 1)), x.symbol, False)]
    return head
""")

defspec("monitor_emit", {"SA": "Seq[Atom]", "j": "Int"}, "Seq[Stmt]", """
def monitor_emit(SA, j):
    if j <= 0:
        return empty("Seq[Stmt]")
    x = SA[j - 1]
    head = monitor_emit(SA, j - 1) + [Assign(x.symbol, x.expr, True)]
    if is_sd(x) or is_intermediate(x):
        return head + [Assign(Indexed("values", count_mon(SA, j - 1)), x.symbol, False)]
    return head
""")

# ----------------------------------------------------------------------------------------------- contracts

CGWF = "self._shape == 'dynamic' or self._shape == 'single' or self._shape == 'multiple'"  # class invariant (Shape enum)
RAISES = {"GotranxError": "maybe", "CycleError": "maybe", "KeyError": "maybe"}

contract(
    B + "state_index", params={"self": "CG"}, ret="Text", raises=RAISES, requires=["WF(self.ode)"],
    where={"SS": "self.ode.sorted_states()"},
    ensures={"data_is_position_in_sorted_states": "result == self._format(self.template.state_index(index_dict(SS, len(SS))))"},
    comps={0: "index_dict(SS, j)"}, properties=("C04",),
)
contract(
    B + "parameter_index", params={"self": "CG"}, ret="Text", requires=["WF(self.ode)"],
    where={"PS": "self.ode.parameters"},
    ensures={"data_is_position_in_parameters": "result == self._format(self.template.parameter_index(index_dict(PS, len(PS))))"},
    comps={0: "index_dict(PS, j)"}, properties=("C04",),
)
contract(
    B + "monitor_index", params={"self": "CG"}, ret="Text", raises=RAISES, requires=["WF(self.ode)"],
    where={"SA": "self.ode.sorted_assignments(True, False)"},
    ensures={"data_is_position_among_monitored": "result == self._format(self.template.monitor_index(monitor_dict(SA, len(SA))))"},
    loops={0: {"invariant": {"data": "data == monitor_dict(SA, k)", "index": "index == count_mon(SA, k)"},
               "types": {"data": "Dict[Name,Int]"}}},
    properties=("C04",),
)
contract(
    B + "missing_index", params={"self": "CG"}, ret="Text",
    ensures={"data": "result == ite(dict_len(self._missing_variables) > 0, self._format(self.template.missing_index(self._missing_variables)), empty_text())"},
    properties=("C13",),
)


@registry.spec("empty_text")
def _empty_text(ctx, st):
    from .models import TText
    return lift("", TText)


def _text_of_str(s):
    from .models import TText
    return SV(TText, core.uf("Text.of_str", TName.sort(), TText.sort())(core.name_lit(s)))


from .models import TText  # noqa: E402

core.COERCIONS[("str", repr(TText))] = _text_of_str

contract(
    B + "initial_state_values", params={"self": "CG", "name": "Name"}, ret="Text", raises=RAISES, requires=["WF(self.ode)"],
    where={"SS": "self.ode.sorted_states()", "VALS": "map_value(SS, len(SS))"},
    ensures={"slot_i_gets_value_of_sorted_state_i":
             "result == self._format(self.template.init_state_values(code=init_code(VALS, name, len(VALS)), state_names=map_name(SS, len(SS)), state_values=map_printed_value(self, SS, len(SS)), name=name))"},
    comps={0: "init_code(VALS, name, j)", 1: "map_value(SS, j)", 2: "map_name(SS, j)", 3: "map_printed_value(self, SS, j)"},
    properties=("C04",),
)
contract(
    B + "initial_parameter_values", params={"self": "CG", "name": "Name"}, ret="Text", requires=["WF(self.ode)"],
    where={"PS": "self.ode.parameters", "VALS": "map_value(PS, len(PS))"},
    ensures={"slot_i_gets_value_of_parameter_i":
             "result == self._format(self.template.init_parameter_values(code=init_code(VALS, name, len(VALS)), parameter_names=map_name(PS, len(PS)), parameter_values=map_printed_value(self, PS, len(PS)), name=name))"},
    comps={0: "init_code(VALS, name, j)", 1: "map_value(PS, j)", 2: "map_name(PS, j)", 3: "map_printed_value(self, PS, j)"},
    properties=("C04",),
)
contract(
    B + "_state_assignments", params={"self": "CG", "states": "Rec:IndexedBase", "remove_unused": "Bool"}, ret="Seq[Stmt]", raises=RAISES, requires=["WF(self.ode)"],
    where={"SS": "self.ode.sorted_states()"},
    ensures={"slot_is_position_before_filtering": "result == state_unpack(self, SS, states.name, remove_unused, len(SS))"},
    comps={0: "state_unpack(self, SS, states.name, remove_unused, j)"}, properties=("C04", "C12"),
)
contract(
    B + "_parameter_assignments", params={"self": "CG", "parameters": "Rec:IndexedBase", "keep": "Dict[Name,Int]"}, ret="Seq[Stmt]",
    requires=["WF(self.ode)"], ghost={"q": "Int"},
    where={"PS": "self.ode.parameters"},
    ensures={"slot_is_position_before_filtering": "result == param_unpack(self, PS, parameters.name, keep, len(PS))"},
    comps={0: "param_unpack(self, PS, parameters.name, keep, j)"}, properties=("C04", "C12"),
)
contract(
    B + "_missing_variables_assignments", params={"self": "CG"}, ret="Seq[Stmt]",
    where={"MV": "self._missing_variables"},
    ensures={"unpack_uses_published_index":
             "result == ite(dict_len(MV) > 0, [Blank(), CommentLine('Assign missing variables')] + missing_unpack(MV, dict_len(MV)) + [Blank()], empty('Seq[Stmt]'))"},
    comps={0: "missing_unpack(MV, j)"}, properties=("C13",),
)

_ARGS = "ite(dict_len(self._missing_variables) > 0, F.arguments + ['missing_variables'], F.arguments)"

contract(
    B + "rhs", params={"self": "CG", "order": "Enum:RHSArgument", "use_cse": "Bool"}, ret="Text", raises=RAISES, requires=["WF(self.ode)"],
    enum_params={"order": "RHSArgument"},
    where={"F": "self._rhs_arguments(order)", "SA": "self.ode.sorted_assignments(True, self.remove_unused)"},
    ensures={"emits_rhs_emit":
             "result == self._format(self.template.method('rhs', ', '.join(" + _ARGS + "), "
             "self._state_assignments(F.states, self.remove_unused), self._parameter_assignments(F.parameters), "
             "rhs_emit(SA, len(SA)), F.return_name, F.num_return_values, '', F.values_type, self._missing_variables_assignments()))"},
    loops={0: {"invariant": {"values": "values_lst == rhs_emit(SA, k)", "slot": "index == count_sd(SA, k)"},
               "types": {"values_lst": "Seq[Stmt]"}}},
    properties=("C01", "C04", "C12", "C13"),
)
contract(
    B + "_shape_info", params={"self": "CG", "shape": "Int"}, ret="Name",
    raises={"ValueError": "not (self._shape == 'dynamic' or self._shape == 'single' or self._shape == 'multiple')"},
    ensures={"text": "result == ite(self._shape == 'dynamic', f'shape = {shape} if len(states.shape) == 1 else ({shape}, states.shape[1])', "
                     "ite(self._shape == 'single', f'shape = {shape}', f'shape = ({shape}, states.shape[1])'))"},
    properties=("C14",),
)
contract(
    B + "monitor_values", params={"self": "CG", "order": "Enum:RHSArgument", "use_cse": "Bool"}, ret="Text", raises=RAISES,
    requires=[CGWF, "WF(self.ode)"],
    enum_params={"order": "RHSArgument"},
    where={"F": "self._rhs_arguments(order)", "SA": "self.ode.sorted_assignments(True, False)"},
    ensures={"emits_monitor_emit":
             "result == self._format(self.template.method('monitor_values', ', '.join(" + _ARGS + "), "
             "self._state_assignments(F.states, False), self._parameter_assignments(F.parameters), "
             "monitor_emit(SA, len(SA)), F.return_name, len(self.ode.intermediates) + len(self.ode.state_derivatives), "
             "self._shape_info(len(self.ode.intermediates) + len(self.ode.state_derivatives)), 'numpy.zeros(shape)', self._missing_variables_assignments()))"},
    loops={0: {"invariant": {"values": "values_lst == monitor_emit(SA, k)", "slot": "index == count_mon(SA, k)"},
               "types": {"values_lst": "Seq[Stmt]"}}},
    properties=("C04", "C13"),
)


def enum_list(short):
    from .models import enum_values
    return enum_values(short)


def finalize_enums():
    for c in registry.CONTRACTS.values():
        for p, v in list(c.enum_params.items()):
            if isinstance(v, str):
                c.enum_params[p] = enum_list(v)


finalize_enums()

# ----------------------------------------------------------------------------------------------- scheme()
from pyvc.values import FuncRef  # noqa: E402
from pyvc.interp import ObjUnderConstruction  # noqa: E402

_delta = core.fresh(core.TReal, "delta")
_stiff = core.fresh(core.parse_ty("Opt[Seq[Name]]"), "stiff_states")
S_ = "gotranx.schemes."
_F_VARIANTS = [
    FuncRef(S_ + "explicit_euler"), FuncRef(S_ + "explicit_euler", co_name="forward_euler"),
    FuncRef(S_ + "generalized_rush_larsen"), FuncRef(S_ + "hybrid_rush_larsen"),
]


@registry.spec("scheme_emit")
def _scheme_emit(ctx, st, f, ode, dt, name, remove_unused, kwargs):
    c = registry.CONTRACTS[f.dotted]
    return ctx.call_contract(c, [ode, dt], dict(name=name, printer=None, remove_unused=remove_unused, **kwargs), st)


@registry.spec("co_name")
def _co_name(ctx, st, f):
    return f.co_name or f.dotted.rsplit(".", 1)[1]


@registry.spec("kw_ok")
def _kw_ok(ctx, st, f, kwargs):
    """the keyword arguments are accepted by the scheme function (else TypeError)"""
    c = registry.CONTRACTS[f.dotted]
    return all(k in c.params for k in kwargs)


contract(
    B + "scheme", params={"self": "CG", "f": "PyFunc", "order": "Enum:SchemeArgument", "kwargs": "PyDict"}, ret="Text",
    raises=dict(RAISES, TypeError="not kw_ok(f, kwargs)"), requires=["WF(self.ode)"],
    enum_params={"f": _F_VARIANTS, "order": "SchemeArgument:2", "kwargs": [{}, {"delta": _delta}, {"delta": _delta, "stiff_states": _stiff}]},
    where={"F": "self._scheme_arguments(order)"},
    ensures={"emits_scheme_with_all_states_unpacked":
             "result == self._format(self.template.method(co_name(f), ', '.join(" + _ARGS + "), "
             "self._state_assignments(F.states, False), self._parameter_assignments(F.parameters), "
             "scheme_emit(f, self.ode, Symbol('dt'), F.return_name, self.remove_unused, kwargs), F.return_name, F.num_return_values, '', "
             "F.values_type, self._missing_variables_assignments()))"},
    properties=("C05", "C06", "C07", "C12", "C04"),
)

contract(
    B + "__init__", params={"self": "PyObj", "ode": "ODE", "remove_unused": "Bool", "shape": "Name"}, ret="PyNone",
    enum_params={"self": [None]}, ghost={"x": "Name"}, raises={"GotranxError": "maybe"},
    ensures={"fields": "self.ode == ode and self.remove_unused == remove_unused and self._missing_variables == ode.missing_variables and self._shape == shape",
             "condition_invariant": "self._condition(x) == ((not remove_unused) or (x in ode.dependents()))"},
    properties=("C12",),
    note="establishes the object invariant assumed by the contract of _condition",
)


def finalize_enums2():
    from .models import enum_values
    for c in registry.CONTRACTS.values():
        for p, v in list(c.enum_params.items()):
            if isinstance(v, str):
                if ":" in v:
                    nm, n = v.split(":")
                    vals = enum_values(nm)
                    c.enum_params[p] = [vals[0], vals[-1]][: int(n)]
                else:
                    c.enum_params[p] = enum_values(v)
        if c.qualname.endswith(".__init__") and c.enum_params.get("self") == [None]:
            c.enum_params["self"] = [ObjUnderConstruction("CG")]


finalize_enums2()

# ----------------------------------------------------------------------------------------------- missing_values
defspec("in_count", {"P": "Seq[Atom]", "VALS": "Dict[Name,Int]", "j": "Int"}, "Int", """
def in_count(P, VALS, j):
    if j <= 0:
        return 0
    if P[j - 1].name in VALS:
        return in_count(P, VALS, j - 1) + 1
    return in_count(P, VALS, j - 1)
""")
defspec("mv_pre", {"P": "Seq[Atom]", "VALS": "Dict[Name,Int]", "j": "Int"}, "Seq[Stmt]", """
def mv_pre(P, VALS, j):
    if j <= 0:
        return empty("Seq[Stmt]")
    if P[j - 1].name in VALS:
        return mv_pre(P, VALS, j - 1) + [Assign(Indexed("values", VALS[P[j - 1].name]), P[j - 1].symbol, False)]
    return mv_pre(P, VALS, j - 1)
""")
defspec("mv_broken", {"SA": "Seq[Atom]", "VALS": "Dict[Name,Int]", "n0": "Int", "N": "Int", "j": "Int"}, "Bool", """
def mv_broken(SA, VALS, n0, N, j):
    if j <= 0:
        return False
    return mv_broken(SA, VALS, n0, N, j - 1) or n0 + in_count(SA, VALS, j) >= N
""")
defspec("mv_emit", {"SA": "Seq[Atom]", "VALS": "Dict[Name,Int]", "n0": "Int", "N": "Int", "j": "Int"}, "Seq[Stmt]", """
def mv_emit(SA, VALS, n0, N, j):
    if j <= 0:
        return empty("Seq[Stmt]")
    if mv_broken(SA, VALS, n0, N, j - 1):
        return mv_emit(SA, VALS, n0, N, j - 1)
    x = SA[j - 1]
    head = mv_emit(SA, VALS, n0, N, j - 1) + [Assign(x.symbol, x.expr, True)]
    if x.name in VALS:
        return head + [Assign(Indexed("values", VALS[x.name]), x.symbol, False)]
    return head
""")

contract(
    B + "missing_values", params={"self": "CG", "values": "Dict[Name,Int]", "order": "Enum:RHSArgument"}, ret="Text",
    raises=RAISES, requires=[CGWF, "WF(self.ode)"], enum_params={"order": "RHSArgument:2"},
    where={"F": "self._rhs_arguments(order)", "SA": "self.ode.sorted_assignments(True, False)",
           "P": "self.ode.states + self.ode.parameters", "N0": "in_count(P, values, len(P))"},
    ensures={"requested_names_written_to_their_requested_slot":
             "result == self._format(self.template.method('missing_values', ', '.join(" + _ARGS + "), "
             "self._state_assignments(F.states, False), self._parameter_assignments(F.parameters, values), "
             "mv_pre(P, values, len(P)) + mv_emit(SA, values, N0, len(values), len(SA)), F.return_name, len(values), "
             "self._shape_info(len(values)), 'numpy.zeros(shape)', self._missing_variables_assignments()))"},
    loops={0: {"invariant": {"pre": "values_lst == mv_pre(P, values, k)", "n": "n == in_count(P, values, k)"},
               "types": {"values_lst": "Seq[Stmt]"}},
           1: {"invariant": {"emit": "values_lst == mv_pre(P, values, len(P)) + mv_emit(SA, values, N0, len(values), k)",
                             "n": "n == N0 + in_count(SA, values, k)",
                             "not_broken": "not mv_broken(SA, values, N0, len(values), k)"}}},
    uses=[("C13.frozen_after_break", {"SA": "SA", "VALS": "values", "n0": "N0", "N": "len(values)", "i": "k + 1", "j": "len(SA)"})],
    properties=("C13", "C03"),
)
