"""Assumptions common to every check (emitted in every evidence file)."""
COMMON = [
    "verifier: /verif/pyvc (own ast->SMT VC generator; soundness rests on its self-tests: seeded mutants, vacuity guards, cvc5 cross-check in thorough tier)",
    "python ints are mathematical integers; floats are SMT reals (machine arithmetic treated as mathematical)",
    "names are an uninterpreted sort; distinct string literals are distinct; f-strings/str.join are uninterpreted injections keyed by their literal skeleton",
    "tuples/lists are SMT sequences; dicts are (insertion-ordered keys, domain, map); sets are extensional arrays; iteration order of a set is an arbitrary fresh sequence per iteration site",
    "objects of repository classes are values of an uninterpreted sort with one total function per field; AttributeError/TypeError from ill-typed python are not modelled",
    "list aliasing is not modelled: mutation through one name is not seen through another (the one alias in the targets, `arguments = rhs.arguments; arguments += [...]`, is on a freshly built Func whose field is not read again)",
    "extraction drops: docstrings, type annotations, calls on logger.*/structlog.*/warnings.warn/typer.echo (treated as no-ops), `with` context managers (bodies kept)",
    "spec functions are unfolded at ground instances to depth 2 (4 on a retry); a `sat` answer is a counter-model of that partial unfolding",
    "termination is not proved (partial correctness), except where a loop variant is listed",
    "sympy Add/Mul are commutative (axiom instantiated per term); sympy constructors, diff, is_zero, printers, lark, graphlib, pint, typer, numpy, jax, the C compiler are outside every contract (assumed contracts listed in trusted_base)",
]
