"""String-skeleton domain (DESIGN.md 2.5): printer overrides, templates and the .ode writer are *executed by the
interpreter on their real source* with opaque hole strings for their arguments; the resulting text is handed to
the target language's own front end (CPython `ast`, clang, gotranx's lark grammar) and compared with the tree the
property demands.  Instances are bounded (number of branches / entries <= 4): labelled BOUNDED in the evidence;
parametricity in the holes is argued, not proved.
"""
from __future__ import annotations

import ast as pyast
import json
import re
import subprocess
import textwrap
import functools

from pyvc import core, registry, values as V
from pyvc import interp as I
from pyvc.core import SV, Record
from pyvc.registry import contract, external, CONTRACTS
from pyvc.values import BoundMethod, Unsupported, ExcVal, PyRaise

# ----------------------------------------------------------------------------------------------- hole objects

core.RECORDS.setdefault("Hole", {"text": "Py", "args": "Py", "kind": "Py"})


def hole(text, kind="expr", args=(), **extra):
    r = Record("Hole", {"text": text, "args": list(args), "kind": kind})
    r.fields.update(extra)
    return r


def piecewise(n, last_true=True, true_text="True"):
    """a Piecewise with n branches (e_i, c_i); the last condition prints as `true_text`"""
    args = []
    for i in range(n):
        c = hole(true_text if (i == n - 1 and last_true) else f"C{i}", "cond")
        e = hole(f"E{i}")
        args.append(Record("Hole", {"text": f"pair{i}", "args": [e, c], "kind": "pair", "expr": e, "cond": c}))
    return hole("PW", "Piecewise", args)


class PrinterSelf(Record):
    pass


def printer_self(true_text="True"):
    return Record("PrinterHoles", {"true_text": true_text})


def _print_hole(ctx, st, x, *a, **k):
    if isinstance(x, Record) and x.cls == "Hole":
        return x.fields["text"]
    if isinstance(x, str):
        return x
    if isinstance(x, (int, float)):
        return repr(x)
    raise Unsupported(f"printing {x!r} in the skeleton domain")


registry.EXTERNALS["PrinterHoles._print"] = lambda ctx, st, rec: BoundMethod(rec, "_print", _print_hole)
registry.EXTERNALS["PrinterHoles.doprint"] = lambda ctx, st, rec: BoundMethod(rec, "doprint", _print_hole)
registry.EXTERNALS["PrinterHoles._module_format"] = lambda ctx, st, rec: BoundMethod(rec, "_module_format", lambda c, s, x: x)
registry.EXTERNALS["Hole.has"] = lambda ctx, st, rec: BoundMethod(rec, "has", lambda c, s, *a: False)
registry.EXTERNALS["Hole.lhs"] = lambda ctx, st, rec: rec.fields["args"][0]
registry.EXTERNALS["Hole.rhs"] = lambda ctx, st, rec: rec.fields["args"][1]
registry.EXTERNALS["Hole.rel_op"] = lambda ctx, st, rec: rec.fields["rel_op"]
V.SUBSCRIPT["Hole"] = lambda rec, idx: rec.fields["args"][idx]


@external("builtins.super")
def _super(ctx, st, *a):
    return st.env["self"]


I.Interp._orig_builtin_skel = I.Interp.call_builtin


def _builtin_skel(self, name, args, kwargs, st, node):
    if name == "super":
        return st.env["self"]
    if name in ("float", "int") and args and isinstance(args[0], Record) and args[0].cls == "Hole":
        return args[0].fields["value"] if name == "float" else int(args[0].fields["value"])
    return I.Interp._orig_builtin_skel(self, name, args, kwargs, st, node)


I.Interp.call_builtin = _builtin_skel


@external("sympy.simplify")
def _simplify(ctx, st, e):
    ctx.assumed_used.add("sympy.simplify / simplify_logic preserve the meaning (and the Piecewise shape) of their argument")
    return e


registry.EXTERNALS["sympy.logic.boolalg.simplify_logic"] = _simplify
registry.EXTERNALS["sympy.logic.boolalg.ITE"] = "ITE"
registry.EXTERNALS["isinstance:sympy.codegen.ast.Assignment"] = lambda ctx, st, obj: isinstance(obj, Record) and obj.fields.get("kind") == "Assignment"
registry.EXTERNALS["textwrap.dedent"] = lambda ctx, st, s: textwrap.dedent(s)
registry.EXTERNALS["textwrap.indent"] = lambda ctx, st, s, p: textwrap.indent(s, p)


@external("functools.reduce")
def _reduce(ctx, st, f, xs, *init):
    xs = list(xs)
    acc = init[0] if init else xs.pop(0)
    for x in xs:
        acc = ctx.call(f, [acc, x], {}, st)
    return acc


# ----------------------------------------------------------------------------------------------- front ends


def py_tree(text):
    try:
        return pyast.dump(pyast.parse(textwrap.dedent(text).strip(), mode="eval"))
    except SyntaxError as e:
        return f"SyntaxError: {e}"


def py_module_tree(text):
    try:
        return pyast.parse(text)
    except SyntaxError as e:
        return None


@registry.spec("same_py_expr")
def _same_py_expr(ctx, st, a, b):
    return isinstance(a, str) and isinstance(b, str) and py_tree(a) == py_tree(b) and not py_tree(a).startswith("SyntaxError")


ARRAY_FUNCS = {"numpy.where", "numpy.logical_and", "numpy.logical_or", "numpy.logical_not", "numpy.sign", "numpy.mod"}


@registry.spec("array_safe")
def _array_safe(ctx, st, text):
    """elementwise: no `if`-expression, no and/or/not keyword operator, calls only to elementwise numpy functions with
    plain positional arguments (no tuple display that would stack operands of different shapes)"""
    try:
        tree = pyast.parse(text.strip(), mode="eval")
    except SyntaxError:
        return False
    for n in pyast.walk(tree):
        if isinstance(n, (pyast.IfExp, pyast.BoolOp, pyast.Tuple, pyast.List)):
            return False
        if isinstance(n, pyast.UnaryOp) and isinstance(n.op, pyast.Not):
            return False
        if isinstance(n, pyast.Call):
            if pyast.unparse(n.func) not in ARRAY_FUNCS or n.keywords:
                return False
    return True


def nested(fn, parts):
    out = parts[-1]
    for p in reversed(parts[:-1]):
        out = f"{fn}({p}, {out})"
    return out


@registry.spec("nested_call")
def _nested_call(ctx, st, fn, parts):
    return nested(fn, [p.fields["text"] for p in parts])


@registry.spec("where_chain")
def _where_chain(ctx, st, pw, fn="numpy.where"):
    pairs = pw.fields["args"]
    out = pairs[-1].fields["expr"].fields["text"]
    for p in reversed(pairs[:-1]):
        out = f"{fn}({p.fields['cond'].fields['text']}, {p.fields['expr'].fields['text']}, {out})"
    return out


# ----------------------------------------------------------------------------------------------- python printer

PP = "gotranx.codegen.python.GotranPythonCodePrinter."
_ops = [hole("Op", "And", [hole(f"A{i}") for i in range(n)]) for n in (2, 3, 4)]

for nm, fn in (("_print_And", "numpy.logical_and"), ("_print_Or", "numpy.logical_or")):
    contract(PP + nm, params={"self": "any", "expr": "any"}, ret="PyStr",
             enum_params={"self": [printer_self()], "expr": _ops},
             ensures={"nested_binary_elementwise_calls": f"same_py_expr(result, nested_call('{fn}', expr.args))",
                      "array_safe": "array_safe(result)"},
             properties=("C14", "C03", "C01"), note="BOUNDED: 2..4 operands")
contract(PP + "_print_Not", params={"self": "any", "expr": "any"}, ret="PyStr",
         enum_params={"self": [printer_self()], "expr": [hole("Op", "Not", [hole("A0")])]},
         ensures={"elementwise_not": "same_py_expr(result, 'numpy.logical_not(A0)')", "array_safe": "array_safe(result)"},
         properties=("C14", "C03"))
contract(PP + "_print_sign", params={"self": "any", "e": "any"}, ret="PyStr",
         enum_params={"self": [printer_self()], "e": [hole("Op", "sign", [hole("A0")])]},
         ensures={"elementwise_sign": "same_py_expr(result, 'numpy.sign(A0)')", "array_safe": "array_safe(result)"},
         properties=("C14", "C03"))
contract(PP + "_print_Equality", params={"self": "any", "expr": "any"}, ret="PyStr",
         enum_params={"self": [printer_self()], "expr": [hole("Op", "Eq", [hole("A0"), hole("A1")])]},
         ensures={"comparison": "same_py_expr(result, '(A0 == A1)')", "array_safe": "array_safe(result)"},
         properties=("C14", "C01"))
contract(PP + "_print_Piecewise", params={"self": "any", "expr": "any"}, ret="PyStr",
         enum_params={"self": [printer_self()], "expr": [piecewise(n) for n in (2, 3, 4)] + [piecewise(2, last_true=False)]},
         raises={"ValueError": "expr.args[-1].cond.text != 'True'"},
         ensures={"first_true_branch_as_nested_where": "same_py_expr(result, where_chain(expr))", "array_safe": "array_safe(result)"},
         properties=("C01", "C14"), note="BOUNDED: 2..4 branches (sympy evaluates a one-branch Piecewise away: assumed); expression form (the Assignment form is not used by gotranx's own callers)")
contract(PP + "_print_Mod", params={"self": "any", "expr": "any"}, ret="PyStr",
         enum_params={"self": [printer_self()], "expr": [hole("Op", "Mod", [hole("A0"), hole("A1")])]},
         ensures={"python_modulo_as_a_call": "same_py_expr(result, 'numpy.mod(A0, A1)')", "array_safe": "array_safe(result)"},
         properties=("C01", "C14"), note="numpy.mod has the sign of the divisor like the language's Mod (numpy.fmod / C fmod do not)")
contract(PP + "_print_Float", params={"self": "any", "flt": "any"}, ret="PyStr",
         enum_params={"self": [printer_self()], "flt": [hole("F", "Float", value=v) for v in (0.1, 1e-8, 1e300, -2.5, 3.0)]},
         ensures={"round_trips": "float(result) == flt.value"},
         properties=("C01", "C02"))

# ----------------------------------------------------------------------------------------------- .ode printer (C11)

OP = "gotranx.codegen.ode.BaseGotranODECodePrinter."
_GRAMMAR_LOGICAL = None


def grammar_logical_names():
    """terminals of `logicalfuncname` and `constant`, read mechanically from ode.lark"""
    global _GRAMMAR_LOGICAL
    if _GRAMMAR_LOGICAL is None:
        from pyvc import extract
        txt = (extract.SRC / "gotranx" / "ode.lark").read_text()
        m = re.search(r"\?logicalfuncname:(.*?)\n\n", txt, re.S)
        terms = re.findall(r"[A-Z]+", m.group(1))
        names = set()
        for t in terms:
            mm = re.search(rf'^{t}:\s*"([^"]+)"', txt, re.M)
            if mm:
                names.add(mm.group(1))
        _GRAMMAR_LOGICAL = names
    return _GRAMMAR_LOGICAL


@registry.spec("calls_only_grammar_functions")
def _calls_only_grammar(ctx, st, text):
    try:
        tree = pyast.parse(text.strip(), mode="eval")
    except SyntaxError:
        return False
    ok = grammar_logical_names() | {"exp", "log", "ln", "sqrt", "sin", "cos", "tan", "asin", "acos", "atan", "abs", "Abs", "floor", "Mod"}
    return all(pyast.unparse(n.func) in ok for n in pyast.walk(tree) if isinstance(n, pyast.Call))


_rels = [hole("Op", "Rel", [hole("A0"), hole("A1")], rel_op=op) for op in ("<", "<=", ">", ">=", "==", "!=")]
_REL_EXPECT = {"<": "Lt(A0, A1)", "<=": "Le(A0, A1)", ">": "Gt(A0, A1)", ">=": "Ge(A0, A1)", "==": "Eq(A0, A1)", "!=": "Not(Eq(A0, A1))"}
registry.SPECS["REL_EXPECT"] = lambda ctx, st, op: _REL_EXPECT[op]
contract(OP + "_print_Relational", params={"self": "any", "expr": "any"}, ret="PyStr",
         enum_params={"self": [printer_self("1")], "expr": _rels},
         ensures={"grammar_spelling": "same_py_expr(result, REL_EXPECT(expr.rel_op))", "reloadable": "calls_only_grammar_functions(result)"},
         properties=("C11",), note="exhaustive over sympy's six relational operators")
for nm, fn in (("_print_And", "And"), ("_print_Or", "Or")):
    contract(OP + nm, params={"self": "any", "expr": "any"}, ret="PyStr",
             enum_params={"self": [printer_self("1")], "expr": _ops},
             ensures={"grammar_spelling": f"same_py_expr(result, '{fn}(' + ', '.join(a.text for a in expr.args) + ')')",
                      "reloadable": "calls_only_grammar_functions(result)"},
             properties=("C11",), note="BOUNDED: 2..4 operands")
contract(OP + "_print_Exp1", params={"self": "any", "expr": "any"}, ret="PyStr",
         enum_params={"self": [printer_self("1")], "expr": [hole("E", "Exp1")]},
         ensures={"grammar_spelling": "same_py_expr(result, 'exp(1)')"}, properties=("C11",))
contract(OP + "_print_Piecewise", params={"self": "any", "expr": "any"}, ret="PyStr",
         enum_params={"self": [printer_self("1")], "expr": [piecewise(n, true_text="1") for n in (2, 3, 4)] + [piecewise(2, last_true=False)]},
         raises={"ValueError": "expr.args[-1].cond.text != '1'"},
         ensures={"nested_conditional": "same_py_expr(result, where_chain(expr, 'Conditional'))", "reloadable": "calls_only_grammar_functions(result)"},
         properties=("C11",), note="BOUNDED: 2..4 branches (sympy evaluates a one-branch Piecewise away: assumed)")

# ----------------------------------------------------------------------------------------------- templates (C04, C03, C02, C13, C19)
import ctypes  # noqa: E402
import os  # noqa: E402
import tempfile  # noqa: E402

TP = "gotranx.templates.python."
TJ = "gotranx.templates.jax."
TC = "gotranx.templates.c."
_DATA = [{}, {"a": 0}, {"V": 0, "m": 1, "h_gate": 2}, {"x": 0, "xr": 1, "x_": 2, "g": 3, "gK": 4, "gKr": 5}]  # the last one: names that are prefixes of each other


@registry.spec("py_index_ok")
def _py_index_ok(ctx, st, text, data, name):
    """exec the emitted text: <name>_index(k) == data[k] for every key, KeyError for an unknown name"""
    ns: dict = {}
    try:
        exec(text, ns)
        f = ns[f"{name}_index"]
        if any(f(k) != v for k, v in data.items()):
            return False
        for u in ["__no_such_name__", ""] + [k + "q" for k in data] + [k[:-1] for k in data if len(k) > 1 and k[:-1] not in data]:
            try:
                f(u)
                return False
            except KeyError:
                pass
        return ns[name] == data
    except Exception:  # noqa
        return False


for fn, nm in (("state_index", "state"), ("parameter_index", "parameter"), ("monitor_index", "monitor"), ("missing_index", "missing")):
    contract(TP + fn, params={"data": "any"}, ret="PyStr", enum_params={"data": _DATA},
             ensures={"function_named_after_its_table_returns_the_table_entry": f"py_index_ok(result, data, '{nm}')"},
             properties=("C04", "C13"), note="BOUNDED: tables with 0, 1 and 3 names; the emitted text is executed")


def _run_init(text, index_text, fname, **over):
    import numpy
    ns = {"numpy": numpy}
    exec(index_text, ns)
    exec(text, ns)
    return list(ns[fname](**over))


@registry.spec("py_init_ok")
def _py_init_ok(ctx, st, text, which, names, values):
    idx = _index_text(which, names)
    try:
        base = _run_init(text, idx, f"init_{which}_values")
        if base != [float(v) for v in values]:
            return False
        for i, n in enumerate(names):
            got = _run_init(text, idx, f"init_{which}_values", **{n: 77.5})
            want = [float(v) for v in values]
            want[i] = 77.5
            if got != want:
                return False
        return True
    except Exception:  # noqa
        return False


def _index_text(which, names):
    return f"{which} = {dict((n, i) for i, n in enumerate(names))!r}\ndef {which}_index(name):\n    return {which}[name]\n"


_INITS = [([], []), (["a"], ["1.5"]), (["V", "m", "h_gate"], ["-85.0", "0.25", "1e-3"])]
for which in ("state", "parameter"):
    contract(TP + f"init_{which}_values",
             params={"name": "PyStr", f"{which}_names": "any", f"{which}_values": "any", "code": "PyStr", "CASE": "any"},
             ret="PyStr", enum_params={"name": ["states" if which == "state" else "parameters", "x"], "code": [""], "CASE": _INITS,
                                       f"{which}_names": [None], f"{which}_values": [None]},
             abstractions={}, properties=("C04",),
             note="BOUNDED: 0, 1 and 3 entries; the emitted text is executed with and without keyword overrides")

_METHOD_ARGS = dict(name="FNAME", args="A1, A2", states="S0 = states[0]\nS1 = states[1]", parameters="P0 = parameters[0]",
                    # slots assigned in an order different from their index (as missing_values does)
                    values="V0 = S0 + P0\n_values_2 = V0\nW = V0 * 2\n_values_0 = W\nvalues[0] = V0\n_values_1 = S1", return_name="values", num_return_values=1,
                    values_type="numpy.zeros_like(states)", shape_info="shape = 3", missing_variables="M0 = missing_variables[0]")


@registry.spec("py_method_ok")
def _py_method_ok(ctx, st, text, nan_to_num, a):
    tree = py_module_tree(text)
    if tree is None or len(tree.body) != 1 or not isinstance(tree.body[0], pyast.FunctionDef):
        return False
    f = tree.body[0]
    if f.name != a["name"] or [x.arg for x in f.args.args] != [s.strip() for s in a["args"].split(",")]:
        return False
    ret = f"numpy.nan_to_num({a['return_name']}, nan=0.0)" if nan_to_num else a["return_name"]
    want = "\n".join([a["states"], a["parameters"], a["missing_variables"], a["shape_info"],
                      f"{a['return_name']} = {a['values_type']}", a["values"], f"return {ret}"])
    got = "\n".join(pyast.unparse(s) for s in f.body)
    return got == "\n".join(pyast.unparse(s) for s in pyast.parse(want).body)


@registry.spec("METHOD_ARGS")
def _method_args(ctx, st):
    return dict(_METHOD_ARGS)


contract(TP + "method", params={"nan_to_num": "PyBool", "KW": "any"}, ret="PyStr",
         enum_params={"nan_to_num": [False, True], "KW": [_METHOD_ARGS]},
         properties=("C01", "C04", "C14", "C19"),
         note="BOUNDED instance: unpack statements, [shape], allocation, body, return - in this order, nothing else")


@registry.spec("jax_method_ok")
def _jax_method_ok(ctx, st, text, a, n):
    tree = py_module_tree(text)
    if tree is None or len(tree.body) != 1 or not isinstance(tree.body[0], pyast.FunctionDef):
        return False
    f = tree.body[0]
    if f.name != a["name"] or [x.arg for x in f.args.args] != [s.strip() for s in a["args"].split(",")]:
        return False
    if [pyast.unparse(d) for d in f.decorator_list] != ["jax.jit"]:
        return False
    items = ", ".join(f"_values_{i}" for i in range(n))
    want = "\n".join([a["states"], a["parameters"], a["missing_variables"], a["values"], f"return numpy.array([{items}])"])
    got = "\n".join(pyast.unparse(s) for s in f.body)
    return got == "\n".join(pyast.unparse(s) for s in pyast.parse(want).body)


contract(TJ + "method", params={"num_return_values": "PyInt", "KW": "any"}, ret="PyStr",
         enum_params={"num_return_values": [0, 1, 3], "KW": [_METHOD_ARGS]},
         properties=("C03", "C04", "C19"),
         note="BOUNDED instance: returns numpy.array of exactly _values_0 .. _values_{n-1}")


def _clang_ok(text):
    with tempfile.NamedTemporaryFile("w", suffix=".c", delete=False, dir=os.environ.get("TMPDIR", "/tmp")) as f:
        f.write("#include <math.h>\n#include <string.h>\n" + text)
        path = f.name
    try:
        p = subprocess.run(["clang", "-fsyntax-only", "-Wno-everything", path], capture_output=True, text=True)
        return p.returncode == 0
    finally:
        os.unlink(path)


@registry.spec("c_index_ok")
def _c_index_ok(ctx, st, text, data, name):
    """compile the emitted function and call it: data[k] for every key, -1 for an unknown name"""
    d = tempfile.mkdtemp(dir=os.environ.get("TMPDIR", "/tmp"))
    try:
        src, so = os.path.join(d, "m.c"), os.path.join(d, "m.so")
        open(src, "w").write("#include <string.h>\n" + text)
        if subprocess.run(["gcc", "-shared", "-fPIC", "-O0", src, "-o", so], capture_output=True).returncode != 0:
            return False
        lib = ctypes.CDLL(so)
        f = getattr(lib, f"{name}_index", None)
        if f is None:
            return False
        f.argtypes = [ctypes.c_char_p]
        unknown = [b"__no_such_name__", b""] + [(k + "q").encode() for k in data] + [k[:-1].encode() for k in data if len(k) > 1 and k[:-1] not in data]
        return all(f(k.encode()) == v for k, v in data.items()) and all(f(u) == -1 for u in unknown)
    finally:
        import shutil
        shutil.rmtree(d, ignore_errors=True)


for fn, nm in (("state_index", "state"), ("parameter_index", "parameter"), ("monitor_index", "monitor"), ("missing_index", "missing")):
    contract(TC + fn, params={"data": "any"}, ret="PyStr", enum_params={"data": _DATA},
             ensures={"function_named_after_its_table_returns_the_table_entry": f"c_index_ok(result, data, '{nm}')"},
             properties=("C04", "C02", "C13"), note="BOUNDED: tables with 0, 1 and 3 names; the emitted C is compiled and called")


@registry.spec("c_method_ok")
def _c_method_ok(ctx, st, text, a):
    body = "\n".join(l for l in text.splitlines() if l.strip() and not l.strip().startswith("//"))
    want = f"void {a['name']}({a['args']}){{\n" + "\n".join("    " + l for l in (a["states"] + "\n" + a["parameters"] + "\n" + a["values"]).splitlines()) + "\n}"
    return re.sub(r"\s+", " ", body).strip() == re.sub(r"\s+", " ", want).strip()


contract(TC + "method", params={"KW": "any"}, ret="PyStr", enum_params={"KW": [_METHOD_ARGS]},
         properties=("C02", "C04", "C19"), note="BOUNDED instance: void name(args){ unpack; body }")

# the template functions take keyword arguments: bind them through a small driver contract -------------


def _call_template(qual, result_check):
    c = CONTRACTS[qual]
    c.requires = []
    return c


for q, chk in ((TP + "method", "py_method_ok(result, nan_to_num, KW)"), (TJ + "method", "jax_method_ok(result, KW, num_return_values)"),
               (TC + "method", "c_method_ok(result, KW)")):
    CONTRACTS[q].ensures["skeleton"] = chk
for which in ("state", "parameter"):
    CONTRACTS[TP + f"init_{which}_values"].ensures["defaults_and_overrides_land_in_their_slot"] = (
        f"py_init_ok(result, '{which}', CASE[0], CASE[1])")


def _expand_kw(q, extra):
    c = CONTRACTS[q]
    c.params = dict({k: "any" for k in _METHOD_ARGS}, **{k: "any" for k in extra}, kwargs="any", KW="any")
    c.enum_params = dict({k: [v] for k, v in _METHOD_ARGS.items()}, **extra, kwargs=[{}], KW=[_METHOD_ARGS])


_expand_kw(TP + "method", {"nan_to_num": [False, True]})
_expand_kw(TJ + "method", {"num_return_values": [0, 1, 3]})
_expand_kw(TC + "method", {})
for which in ("state", "parameter"):
    c = CONTRACTS[TP + f"init_{which}_values"]
    c.enum_params = {"name": ["states" if which == "state" else "parameters", "x"], "code": [""], "CASE": _INITS}
    c.params = {"name": "PyStr", "code": "PyStr", "CASE": "any"}
    c.where = {f"{which}_names": "CASE[0]", f"{which}_values": "CASE[1]"}


# a printer override may call a sibling method of its class: look it up in the class under verification and execute it
def _printer_attr_fallback(ctx, st, rec, attr):
    cls_q = ctx.qualname.rsplit(".", 1)[0]
    from pyvc import extract
    try:
        extract.find_function(f"{cls_q}.{attr}")
    except extract.ExtractError:
        raise Unsupported(f"record PrinterHoles has no field {attr}")
    from pyvc.values import FuncRef

    def impl(c, s_, *a, **k):
        return c.inline_concrete(FuncRef(f"{cls_q}.{attr}"), [rec] + list(a), k, s_)
    return BoundMethod(rec, attr, impl)


registry.RECORD_ATTR_FALLBACK = {"PrinterHoles": _printer_attr_fallback}


# ----------------------------------------------------------------------------------------------- C printer (C02) and JAX printer (C03)
CP = "gotranx.codegen.c.GotranCCodePrinter."


def c_piecewise_assign(n, last_true=True, same_lhs=True):
    """Piecewise((Assignment(L, R_i), C_i), ...) as sympy's code printer builds it for `L = Piecewise(...)`"""
    args = []
    for i in range(n):
        c = hole("true" if (i == n - 1 and last_true) else f"C{i}", "cond")
        a = hole(f"asg{i}", "Assignment", [hole("L" if (same_lhs or i == 0) else f"L{i}"), hole(f"R{i}")])
        args.append(Record("Hole", {"text": f"pair{i}", "args": [a, c], "kind": "pair", "expr": a, "cond": c}))
    return hole("PW", "Piecewise", args)


@registry.spec("c_ternary_chain")
def _c_ternary_chain(ctx, st, pw):
    pairs = pw.fields["args"]
    out = pairs[-1].fields["args"][0].fields["args"][1].fields["text"]
    for p in reversed(pairs[:-1]):
        out = f"({p.fields['args'][1].fields['text']}) ? {p.fields['args'][0].fields['args'][1].fields['text']} : {out}"
    return f"{pairs[0].fields['args'][0].fields['args'][0].fields['text']} = {out};"


@registry.spec("same_tokens")
def _same_tokens(ctx, st, a, b):
    tok = lambda s: re.findall(r"[A-Za-z_]\w*|\d+(?:\.\d+)?|\S", s)  # noqa: E731
    return isinstance(a, str) and isinstance(b, str) and tok(a) == tok(b)


contract(CP + "_print_Piecewise", params={"self": "any", "expr": "any"}, ret="PyStr",
         enum_params={"self": [printer_self("true")],
                      "expr": [c_piecewise_assign(n) for n in (2, 3, 4)] + [c_piecewise_assign(2, last_true=False), c_piecewise_assign(3, same_lhs=False)]},
         raises={"AssertionError": "any(p.expr.args[0].text != 'L' for p in expr.args)", "ValueError": "expr.args[-1].cond.text != 'true'"},
         ensures={"first_true_branch_as_a_conditional_chain_assigned_once": "same_tokens(result, c_ternary_chain(expr))"},
         properties=("C02",),
         note="BOUNDED: 2..4 branches, assignment form (what sympy's printer hands over for `lhs = Piecewise(...)`); the expression "
              "form delegates to sympy's C printer (assumed) followed by bool_to_int (own contract)")


@registry.spec("bool_words_replaced")
def _bool_words_replaced(ctx, st, src, out):
    """token by token: the words true / false become 1 / 0, every other token (identifiers that merely contain them) is unchanged"""
    tok = lambda s: re.findall(r"[A-Za-z_]\w*|\d+(?:\.\d+)?|\S", s)  # noqa: E731
    want = [{"true": "1", "false": "0"}.get(t, t) for t in tok(src)]
    return tok(out) == want


contract("gotranx.codegen.c.bool_to_int", params={"expr": "PyStr"}, ret="PyStr",
         enum_params={"expr": ["((x > 0) ? (true) : (false))", "((truex > falsey) ? (xtruey) : (true))", "a_true + _false1 * (false)", "nothing"]},
         ensures={"only_whole_words": "bool_words_replaced(expr, result)"},
         properties=("C02", "C19"), note="BOUNDED instances, among them identifiers that contain the words")
contract(CP + "_print_Float", params={"self": "any", "flt": "any"}, ret="PyStr",
         enum_params={"self": [printer_self("true")], "flt": [hole("F", "Float", value=v) for v in (0.1, 1e-8, 1e300, -2.5, 3.0)]},
         ensures={"round_trips_and_is_a_floating_literal": "float(result) == flt.value and ('.' in result or 'e' in result or 'inf' in result)"},
         properties=("C02",), note="a literal like 3.0 keeps its decimal point, so C reads it as a double")

JP = "gotranx.codegen.jax.JaxPrinter."
registry.EXTERNALS["isinstance:sympy.tensor.indexed.Indexed"] = lambda ctx, st, obj: isinstance(obj, Record) and obj.fields.get("kind") == "Indexed"
registry.EXTERNALS["Hole.base"] = lambda ctx, st, rec: rec.fields["base"]
registry.EXTERNALS["Hole.indices"] = lambda ctx, st, rec: rec.fields["indices"]
registry.EXTERNALS["PrinterHoles._print_Assignment"] = lambda ctx, st, rec: BoundMethod(
    rec, "_print_Assignment", lambda c, s, e: "<inherited:" + e.fields["args"][0].fields["text"] + ">")
core.RECORDS.setdefault("Base", {"name": "Py"})


def _indexed(base, idx):
    return Record("Hole", {"text": f"{base}[{idx}]", "args": [], "kind": "Indexed", "base": Record("Base", {"name": base}),
                           "indices": [hole(str(idx))]})


_jax_asg = [hole("A", "Assignment", [_indexed("values", i), hole("RHS")]) for i in (0, 2, 11)]
_jax_other = [hole("A", "Assignment", [_indexed("states", 1), hole("RHS")]), hole("A", "Assignment", [_indexed("parameters", 0), hole("RHS")]),
              hole("A", "Assignment", [hole("x"), hole("RHS")])]
registry.SPECS["JAX_EXPECT"] = lambda ctx, st, e: (
    f"_values_{e.fields['args'][0].fields['indices'][0].fields['text']} = RHS"
    if e.fields["args"][0].fields.get("kind") == "Indexed" and e.fields["args"][0].fields["base"].fields["name"] == "values"
    else "<inherited:" + e.fields["args"][0].fields["text"] + ">")
contract(JP + "_print_Assignment", params={"self": "any", "expr": "any"}, ret="PyStr",
         enum_params={"self": [printer_self()], "expr": _jax_asg + _jax_other},
         ensures={"slot_n_is_written_to_the_variable_the_template_returns": "result == JAX_EXPECT(expr)"},
         properties=("C03", "C04"), note="BOUNDED instances: values[n] = e becomes _values_n = e (the names the JAX method template collects); "
                                         "every other assignment is left to the inherited printer")


# ----------------------------------------------------------------------------------------------- class frames
# A printer class is described by the contracts of its overrides; an override the sidecar has never seen (or one that has gone)
# means the description is stale: the affected properties become undecided (never a violation by itself).
def frame(cls, under_contract, acknowledged=(), properties=()):
    contract("frame:" + cls, frame={"under_contract": list(under_contract), "acknowledged": list(acknowledged)}, properties=properties)


frame("gotranx.codegen.python.GotranPythonCodePrinter",
      ["_print_Float", "_print_Piecewise", "_print_And", "_print_Or", "_print_Mod", "_print_Not", "_print_Equality", "_print_sign"],
      acknowledged=["_kf", "_kc", "_hprint_Pow", "_print_MatrixElement"], properties=("C01", "C03", "C14"))
frame("gotranx.codegen.c.GotranCCodePrinter", ["_print_Float", "_print_Piecewise", "_print_Abs", "_print_Mod"], acknowledged=["__init__"], properties=("C02",))
frame("gotranx.codegen.jax.JaxPrinter", ["_print_Assignment"], properties=("C03",))
frame("gotranx.codegen.ode.BaseGotranODECodePrinter", ["_print_Relational", "_print_Exp1", "_print_Or", "_print_And", "_print_Piecewise"],
      acknowledged=["_print_BooleanFalse", "_print_BooleanTrue"], properties=("C11",))


# everything in this module is verified on instances: labelled bounded in the evidence, never counted as proved for all inputs
for _q, _c in CONTRACTS.items():
    if _q.startswith((PP, OP, TP, TJ, TC, CP, JP)) or _q == "gotranx.codegen.c.bool_to_int":
        _c.bounded = True


# ----------------------------------------------------------------------------------------------- JAX / C initial-value templates
def _run_jax_init(text, which, names, overrides):
    """the emitted JAX text is executed by the repository's own interpreter (jax is not in the tooling venv)"""
    prog = ("import json, sys\nimport jax\nimport jax.numpy as numpy\njax.config.update('jax_enable_x64', True)\n"
            + _index_text(which, names) + text + f"\nprint(json.dumps([float(x) for x in init_{which}_values(**{overrides!r})]))\n")
    p = subprocess.run(["/venv/bin/python", "-c", prog], capture_output=True, text=True, timeout=300,
                       env=dict(os.environ, JAX_PLATFORMS="cpu", PYTHONDONTWRITEBYTECODE="1"))
    if p.returncode != 0:
        return None
    return json.loads(p.stdout.strip().splitlines()[-1])


@registry.spec("jax_init_ok")
def _jax_init_ok(ctx, st, text, which, names, values):
    want = [float(v) for v in values]
    if _run_jax_init(text, which, names, {}) != want:
        return False
    for i, n in enumerate(names):
        w2 = list(want)
        w2[i] = 77.5
        if _run_jax_init(text, which, names, {n: 77.5}) != w2:
            return False
    return True


@registry.spec("c_init_ok")
def _c_init_ok(ctx, st, text, which, names, values):
    """compile the emitted function with the slot-by-slot code it was given and read the array back"""
    d = tempfile.mkdtemp(dir=os.environ.get("TMPDIR", "/tmp"))
    try:
        src, so = os.path.join(d, "m.c"), os.path.join(d, "m.so")
        open(src, "w").write(text)
        if subprocess.run(["gcc", "-shared", "-fPIC", "-O0", src, "-o", so], capture_output=True).returncode != 0:
            return False
        lib = ctypes.CDLL(so)
        f = getattr(lib, f"init_{which}_values", None)
        if f is None:
            return False
        n = len(values)
        buf = (ctypes.c_double * (n + 2))(*([-123.0] * (n + 2)))
        f.argtypes = [ctypes.POINTER(ctypes.c_double)]
        f(ctypes.cast(ctypes.byref(buf, 8), ctypes.POINTER(ctypes.c_double)))  # guard cells before and after
        got = list(buf)
        return got[0] == -123.0 and got[-1] == -123.0 and got[1:-1] == [float(v) for v in values]
    finally:
        import shutil
        shutil.rmtree(d, ignore_errors=True)


@registry.spec("c_slot_code")
def _c_slot_code(ctx, st, name, values):
    return "\n".join(f"{name}[{i}] = {v};" for i, v in enumerate(values))


for which in ("state", "parameter"):
    arr = "states" if which == "state" else "parameters"
    contract(TJ + f"init_{which}_values", params={"name": "PyStr", "code": "PyStr", "CASE": "any"}, ret="PyStr",
             enum_params={"name": [arr, "x"], "code": [""], "CASE": _INITS},
             where={f"{which}_names": "CASE[0]", f"{which}_values": "CASE[1]"},
             ensures={"defaults_and_overrides_land_in_their_slot": f"jax_init_ok(result, '{which}', CASE[0], CASE[1])"},
             properties=("C03", "C04"), note="BOUNDED: 0, 1 and 3 entries; the emitted text is executed under jax (jitted) with and without keyword overrides")
    contract(TC + f"init_{which}_values", params={"name": "PyStr", "CASE": "any"}, ret="PyStr",
             enum_params={"name": [arr, "x"], "CASE": _INITS},
             where={f"{which}_names": "CASE[0]", f"{which}_values": "CASE[1]", "code": "c_slot_code(name, CASE[1])"},
             ensures={"wraps_the_slot_code_it_is_given_and_nothing_else": f"c_init_ok(result, '{which}', CASE[0], CASE[1])"},
             properties=("C02", "C04"), note="BOUNDED: 0, 1 and 3 entries; compiled with gcc and called on an array with guard cells")
for _q, _c in CONTRACTS.items():
    if _q.startswith((TJ, TC)):
        _c.bounded = True


# ----------------------------------------------------------------------------------------------- C printer: Abs and Mod
@registry.spec("c_expr_values")
def _c_expr_values(ctx, st, text, pairs):
    """compile `double f(double A0, double A1) { return <text>; }` and evaluate it on the given argument pairs"""
    d = tempfile.mkdtemp(dir=os.environ.get("TMPDIR", "/tmp"))
    try:
        src, so = os.path.join(d, "m.c"), os.path.join(d, "m.so")
        open(src, "w").write("#include <math.h>\n#include <stdbool.h>\ndouble f(double A0, double A1){ return " + text + "; }\n")
        if subprocess.run(["gcc", "-shared", "-fPIC", "-O0", src, "-o", so, "-lm"], capture_output=True).returncode != 0:
            return None
        lib = ctypes.CDLL(so)
        lib.f.argtypes = [ctypes.c_double, ctypes.c_double]
        lib.f.restype = ctypes.c_double
        return [lib.f(a, b) for a, b in pairs]
    finally:
        import shutil
        shutil.rmtree(d, ignore_errors=True)


_MOD_PAIRS = [(-2.5, 3.0), (2.5, 3.0), (2.5, -3.0), (-2.5, -3.0), (7.0, 2.0), (-7.0, 2.0), (0.0, 1.5), (5.5, 0.5), (-0.25, 1e3), (1e6 + 0.5, 7.0)]


@registry.spec("python_mod_values")
def _python_mod_values(ctx, st):
    import math as _m
    return [a - _m.floor(a / b) * b if False else a % b for a, b in _MOD_PAIRS]


@registry.spec("close_lists")
def _close_lists(ctx, st, xs, ys):
    return xs is not None and len(xs) == len(ys) and all(abs(x - y) <= 1e-9 * (1 + abs(y)) for x, y in zip(xs, ys))


registry.SPECS["MOD_PAIRS"] = lambda ctx, st: list(_MOD_PAIRS)
contract(CP + "_print_Mod", params={"self": "any", "expr": "any"}, ret="PyStr",
         enum_params={"self": [printer_self("true")], "expr": [hole("Op", "Mod", [hole("A0"), hole("A1")])]},
         ensures={"result_has_the_sign_of_the_divisor_like_the_language_Mod": "close_lists(c_expr_values(result, MOD_PAIRS()), python_mod_values())"},
         properties=("C02",), note="BOUNDED instance: the emitted C expression is compiled and evaluated on 10 argument pairs of all sign combinations")
contract(CP + "_print_Abs", params={"self": "any", "expr": "any"}, ret="PyStr",
         enum_params={"self": [printer_self("true")], "expr": [hole("Op", "Abs", [hole("A0")])]},
         ensures={"the_double_function": "same_tokens(result, 'fabs(A0)')"},
         properties=("C02",), note="BOUNDED instance: abs() of C is the int function")
for _q, _c in CONTRACTS.items():
    if _q.startswith(CP):
        _c.bounded = True


# ----------------------------------------------------------------------------------------------- .ode writer glue (C11), instances
# The fragment a writer function prints is put into a minimal model text and read back by the REAL loader (sub-process of the
# repository's interpreter): name, value, unit, description, comment and component membership must come back as they went in.
WG = "gotranx.codegen.ode."
_RELOAD_CACHE: dict = {}


def _reload(text):
    key = (text,)
    if key in _RELOAD_CACHE:
        return _RELOAD_CACHE[key]
    prog = ("import json, sys, logging, structlog\n"
            "structlog.configure(wrapper_class=structlog.make_filtering_bound_logger(logging.ERROR))\n"
            "import gotranx\n"
            "try:\n"
            f"    ode = gotranx.load.ode_from_string({text!r})\n"
            "except Exception as e:\n"
            "    print(json.dumps({'error': type(e).__name__ + ': ' + str(e)[:200]})); sys.exit(0)\n"
            "out = {}\n"
            "for a in list(ode.states) + list(ode.parameters) + list(ode.intermediates) + list(ode.state_derivatives):\n"
            "    try:\n"
            "        fv = float(a.value)\n"
            "    except Exception:\n"
            "        fv = None\n"
            "    out[a.name] = {'value': str(getattr(a, 'expr', None) if hasattr(a, 'expr') else a.value), 'pvalue': fv, 'unit_str': a.unit_str, 'description': a.description,\n"
            "                   'components': list(a.components), 'comment': (a.comment.text if getattr(a, 'comment', None) is not None else None)}\n"
            "print(json.dumps(out))\n")
    from pyvc import extract
    env = dict(os.environ, PYTHONDONTWRITEBYTECODE="1")
    if extract.REPO != "/repo":
        env["PYTHONPATH"] = f"{extract.REPO}/src"
    p = subprocess.run(["/venv/bin/python", "-c", prog], capture_output=True, text=True, timeout=300, env=env)
    try:
        r = json.loads(p.stdout.strip().splitlines()[-1])
    except Exception:  # noqa: BLE001
        r = {"error": "no answer: " + p.stderr[-300:]}
    _RELOAD_CACHE[key] = r
    return r


core.RECORDS.setdefault("AtomHole", {"name": "Py", "value": "Py", "unit_str": "Py", "description": "Py", "expr": "Py", "comment": "Py"})


def atom_hole(name, value="1.5", unit_str=None, description=None, expr="x*2 + 1", comment=None):
    return Record("AtomHole", {"name": name, "value": value, "unit_str": unit_str, "description": description, "expr": expr,
                               "comment": None if comment is None else Record("Comment", {"text": comment})})


def _doprint_hole(ctx, st, x):
    return x if isinstance(x, str) else repr(x)


@registry.spec("scalarparam_reloads")
def _scalarparam_reloads(ctx, st, text, p):
    f = p.fields
    r = _reload(f"states({text})\nd{f['name']}_dt = 1\n")
    a = r.get(f["name"])
    return bool(a) and a["pvalue"] is not None and float(a["pvalue"]) == float(f["value"]) and a["unit_str"] == f["unit_str"] and (a["description"] or None) == (f["description"] or None)


@registry.spec("assignment_reloads")
def _assignment_reloads(ctx, st, text, a):
    f = a.fields
    r = _reload(f"states(x=1.0)\n{text}\ndx_dt = {f['name']}\n")
    got = r.get(f["name"])
    if not got:
        return False
    want_unit = f["unit_str"]
    want_comment = f["comment"].fields["text"] if (f["comment"] is not None and want_unit is None) else None
    return got["value"].replace(" ", "") == f["expr"].replace(" ", "") and got["unit_str"] == want_unit and got["comment"] == want_comment


@registry.spec("block_reloads")
def _block_reloads(ctx, st, text, case, names, is_expression):
    comps = [n for n in names if n != ""] or [""]
    args = ", ".join(f'"{n}"' for n in names if n != "")
    if is_expression:
        r = _reload(f"states({args + ', ' if args else ''}x=1.0)\n{text}\nw = 2*x\ndx_dt = w\n")
        got = r.get("w")
    elif case == "states":
        r = _reload(f"{text}\nzz=2.5)\n" + (f"expressions({args})\n" if args else "") + "dzz_dt = 1\n")
        got = r.get("zz")
    else:
        r = _reload(f"states(x=1.0)\n{text}\nzz=2.5)\ndx_dt = zz\n")
        got = r.get("zz")
    return bool(got) and got["components"] == comps


_SP = [atom_hole("V", "-85.0"), atom_hole("m", "0.25", unit_str="mV"), atom_hole("h", "1e-3", description="a gate"),
       atom_hole("n_gate", "2.0", unit_str="uA/cm**2", description="rate k (1/ms)"), atom_hole("q", "3.0", unit_str="1", description="")]
contract(WG + "print_ScalarParam", params={"p": "any", "doprint": "any"}, ret="PyStr",
         enum_params={"p": _SP, "doprint": [_doprint_hole]},
         ensures={"reads_back_with_the_same_value_unit_and_description": "scalarparam_reloads(result, p)"},
         properties=("C11",), note="BOUNDED instances: no annotation, unit only, description only, both, unit '1' with an empty description")
_AS = [atom_hole("w", expr="x*2 + 1"), atom_hole("w", expr="x*2 + 1", unit_str="mV"), atom_hole("w", expr="x*2 + 1", comment="rate of x"),
       atom_hole("w", expr="x*2 + 1", unit_str="ms**-1", comment="ms**-1"), atom_hole("w", expr="x*2 + 1", unit_str="mV", comment="rate of x")]
contract(WG + "print_assignment", params={"a": "any", "doprint": "any"}, ret="PyStr",
         enum_params={"a": _AS, "doprint": [_doprint_hole]},
         ensures={"reads_back_with_the_same_expression_and_unit_or_comment": "assignment_reloads(result, a)"},
         properties=("C11",),
         note="BOUNDED instances: plain, unit, free-text comment, unit given twice, unit and a different comment (the unit is what is kept); the dimensionless unit '1' is not among them (listed finding: it is dropped)")
_BL = [((), False), (("",), False), (("A",), False), (("A", "I Na"), False), ((), True), (("",), True), (("A",), True), (("A", "I Na"), True)]
contract(WG + "start_odeblock", params={"case": "PyStr", "CASE": "any"}, ret="PyStr",
         enum_params={"case": ["states", "parameters", "expressions"], "CASE": _BL},
         where={"names": "CASE[0]", "is_expression": "CASE[1]"},
         ensures={"opens_a_block_whose_entries_belong_to_these_components":
                  "implies((case == 'expressions') == CASE[1], block_reloads(result, case, CASE[0], CASE[1]))"},
         properties=("C11",), note="BOUNDED instances: default component, one and two named components; declaration and expression blocks")
for _q in (WG + "print_ScalarParam", WG + "print_assignment", WG + "start_odeblock"):
    CONTRACTS[_q].bounded = True
