"""L2 - straight-line evaluation (DESIGN.md section 5): executing the statements emitted for a topologically ordered
assignment list leaves every symbol equal to the value of its defining expression.  Pure spec-level lemma."""
from __future__ import annotations

import z3

from pyvc import core, registry, values as V
from pyvc.core import SV, TBool, TReal, lift
from pyvc.verify import defspec
from .models import TSym, S, Stmt, TStmt
from .c_den import DEN, E, TEnv
from . import c_base  # noqa: F401

R = z3.RealSort()
UPD = core.uf("Env.upd", E, S, R, E)                    # env[s := v]
NOTFREE = core.uf("notfree", S, S, z3.BoolSort())        # ASSUMED reading: symbol s does not occur in expression e


@registry.spec("upd")
def _upd(ctx, st, env, s, v):
    return SV(TEnv, UPD(env.t, lift(s, TSym).t, lift(v, TReal).t))


@registry.spec("notfree")
def _notfree(ctx, st, s, e):
    return SV(TBool, NOTFREE(lift(s, TSym).t, lift(e, TSym).t))


_prev = core.TERM_AXIOMS["den"]


def _den_upd(app):
    """ASSUMED semantics of environments: reading the updated symbol gives the new value; an expression in which the
    updated symbol does not occur keeps its value (frame)"""
    e, env = app.children()
    out = _prev(app)
    if z3.is_app(env) and env.decl().name() == "Env.upd":
        env0, s, v = env.children()
        out = out + [z3.Implies(e == s, app == v), z3.Implies(NOTFREE(s, e), app == DEN(e, env0))]
    return out


core.TERM_AXIOMS["den"] = _den_upd

defspec("exec_seq", {"PS": "Seq[Stmt]", "env0": "Env", "j": "Int"}, "Env", """
def exec_seq(PS, env0, j):
    if j <= 0:
        return env0
    prev = exec_seq(PS, env0, j - 1)
    if is_assign(PS[j - 1]):
        return upd(prev, stmt_lhs(PS[j - 1]), den(stmt_rhs(PS[j - 1]), prev))
    return prev
""")


@registry.spec("is_assign")
def _is_assign(ctx, st, s):
    return SV(TBool, Stmt.is_Assign(s.t))


@registry.spec("stmt_lhs")
def _stmt_lhs(ctx, st, s):
    return SV(TSym, Stmt.lhs(s.t))


@registry.spec("stmt_rhs")
def _stmt_rhs(ctx, st, s):
    return SV(TSym, Stmt.rhs(s.t))


defspec("defs_emit", {"SA": "Seq[Atom]", "j": "Int"}, "Seq[Stmt]", """
def defs_emit(SA, j):
    if j <= 0:
        return empty("Seq[Stmt]")
    return defs_emit(SA, j - 1) + [Assign(SA[j - 1].symbol, SA[j - 1].expr, True)]
""")

# hypotheses about position i, as prefix-recursive conjunctions (no quantifiers):
# topo_i: no symbol defined at or after position i occurs in expr(SA[i]); dist_i: later symbols differ from symbol(SA[i])
defspec("topo_i", {"SA": "Seq[Atom]", "i": "Int", "j": "Int"}, "Bool", """
def topo_i(SA, i, j):
    if j <= i:
        return True
    return topo_i(SA, i, j - 1) and notfree(SA[j - 1].symbol, SA[i].expr)
""")
defspec("dist_i", {"SA": "Seq[Atom]", "i": "Int", "j": "Int"}, "Bool", """
def dist_i(SA, i, j):
    if j <= i + 1:
        return True
    return dist_i(SA, i, j - 1) and SA[j - 1].symbol != SA[i].symbol and notfree(SA[j - 1].symbol, SA[i].symbol)
""")


@registry.spec("env_frame")
def _env_frame(ctx, st, e, prev, lhs, v):
    """the two ASSUMED environment axioms at the given terms: den(e, prev[lhs := v]) is v if e is lhs, and unchanged if lhs does not occur in e"""
    e, lhs = lift(e, TSym).t, lift(lhs, TSym).t
    u = UPD(prev.t, lhs, lift(v, TReal).t)
    return SV(TBool, z3.And(z3.Implies(e == lhs, DEN(e, u) == lift(v, TReal).t), z3.Implies(NOTFREE(lhs, e), DEN(e, u) == DEN(e, prev.t))))


# ------------------------------------------------------------------------------------------------------------------
# L3: the statements of rhs_emit (definitions interleaved with `values[slot] = <derivative symbol>`) leave, in slot
# count_sd(SA, i), the value of the i-th assignment's expression whenever that assignment is a state derivative.
# An array cell values[n] is a location of the same environment; ASSUMED: distinct cells of one array do not alias.
# ------------------------------------------------------------------------------------------------------------------
_prev_notfree = core.TERM_AXIOMS.get("notfree")


def _notfree_cells(app):
    out = _prev_notfree(app) if _prev_notfree else []
    s, e = app.children()
    if z3.is_app(s) and z3.is_app(e) and s.decl().name() == "sp.Indexed" and e.decl().name() == "sp.Indexed":
        bs, i_s = s.children()
        be, i_e = e.children()
        out = out + [z3.Implies(z3.Or(bs != be, i_s != i_e), app)]
    return out


core.TERM_AXIOMS["notfree"] = _notfree_cells

defspec("renv", {"SA": "Seq[Atom]", "env0": "Env", "j": "Int"}, "Env", """
def renv(SA, env0, j):
    if j <= 0:
        return env0
    prev = renv(SA, env0, j - 1)
    x = SA[j - 1]
    e1 = upd(prev, x.symbol, den(x.expr, prev))
    if is_sd(x):
        return upd(e1, Indexed("values", count_sd(SA, j - 1)), den(x.symbol, e1))
    return e1
""")

# hypotheses about position i (prefix-recursive conjunctions over the later positions p in [i, j)):
# vfree_i: the cells written at or after i occur neither in symbol(SA[i]) nor in expr(SA[i])
# cfree_i: the symbols defined after i are not the cell that holds derivative i
defspec("vfree_i", {"SA": "Seq[Atom]", "i": "Int", "j": "Int"}, "Bool", """
def vfree_i(SA, i, j):
    if j <= i:
        return True
    return vfree_i(SA, i, j - 1) and implies(is_sd(SA[j - 1]),
        notfree(Indexed("values", count_sd(SA, j - 1)), SA[i].symbol) and notfree(Indexed("values", count_sd(SA, j - 1)), SA[i].expr))
""")
defspec("cfree_i", {"SA": "Seq[Atom]", "i": "Int", "j": "Int"}, "Bool", """
def cfree_i(SA, i, j):
    if j <= i + 1:
        return True
    return cfree_i(SA, i, j - 1) and notfree(SA[j - 1].symbol, Indexed("values", count_sd(SA, i)))
""")

# the same for the explicit Euler statements: values[slot] = state + dt * derivative
defspec("renv_e", {"SA": "Seq[Atom]", "dt": "Sym", "vname": "Name", "env0": "Env", "j": "Int"}, "Env", """
def renv_e(SA, dt, vname, env0, j):
    if j <= 0:
        return env0
    prev = renv_e(SA, dt, vname, env0, j - 1)
    x = SA[j - 1]
    e1 = upd(prev, x.symbol, den(x.expr, prev))
    if is_sd(x):
        return upd(e1, Indexed(vname, count_sd(SA, j - 1)), den(x.state.symbol + dt * x.symbol, e1))
    return e1
""")
defspec("vfree_e", {"SA": "Seq[Atom]", "vname": "Name", "i": "Int", "j": "Int"}, "Bool", """
def vfree_e(SA, vname, i, j):
    if j <= i:
        return True
    return vfree_e(SA, vname, i, j - 1) and implies(is_sd(SA[j - 1]),
        notfree(Indexed(vname, count_sd(SA, j - 1)), SA[i].symbol) and notfree(Indexed(vname, count_sd(SA, j - 1)), SA[i].expr))
""")
defspec("cfree_e", {"SA": "Seq[Atom]", "vname": "Name", "i": "Int", "j": "Int"}, "Bool", """
def cfree_e(SA, vname, i, j):
    if j <= i + 1:
        return True
    return cfree_e(SA, vname, i, j - 1) and notfree(SA[j - 1].symbol, Indexed(vname, count_sd(SA, i)))
""")
# inputs_e: neither a definition nor an output cell overwrites the state symbol of derivative i or the step symbol dt
defspec("inputs_e", {"SA": "Seq[Atom]", "dt": "Sym", "vname": "Name", "i": "Int", "j": "Int"}, "Bool", """
def inputs_e(SA, dt, vname, i, j):
    if j <= 0:
        return True
    return (inputs_e(SA, dt, vname, i, j - 1) and notfree(SA[j - 1].symbol, SA[i].state.symbol) and notfree(SA[j - 1].symbol, dt)
            and implies(is_sd(SA[j - 1]), notfree(Indexed(vname, count_sd(SA, j - 1)), SA[i].state.symbol)
                        and notfree(Indexed(vname, count_sd(SA, j - 1)), dt)))
""")
