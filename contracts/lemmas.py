"""Spec-level lemmas (DESIGN.md section 5): proved by induction with ground unfolding, never mention code."""
from __future__ import annotations

import z3

from pyvc import core
from pyvc.core import SV, TInt, parse_ty
from pyvc.interp import State

LEMMAS: dict = {}
PROPS: dict = {}  # name -> (vars, prop string, induction variable)


def _env(vars_):
    return {k: core.fresh(parse_ty(t), k) for k, t in vars_.items()}


def _use(it, st, uses, env):
    for lname, binding in uses:
        vars_, prop, _ = PROPS[lname]
        e2 = dict(env)
        for k, expr in binding.items():
            s2 = State(dict(env), st.pc, st.decisions, st.assumed)
            e2[k] = it.ev_contract_expr(expr, s2)
        s3 = State(e2, st.pc, st.decisions, st.assumed)
        it.assume(st, it.ev_contract_expr(prop, s3))


def instantiate(it, st, lname, binding):
    """the statement of a (separately proved) lemma at the given arguments, as a z3 fact"""
    from pyvc.values import zbool
    vars_, prop, _ = PROPS[lname]
    e2 = dict(st.env)
    for k, expr in binding.items():
        s2 = State(dict(st.env), st.pc, st.decisions, st.assumed)
        e2[k] = it.ev_contract_expr(expr, s2)
    missing = [v for v in vars_ if v not in binding]
    if missing:
        raise KeyError(f"lemma {lname}: unbound {missing}")
    v = it.ev_contract_expr(prop, State(e2, st.pc, st.decisions, st.assumed))
    return zbool(v) if isinstance(v, SV) else z3.BoolVal(bool(v))


GROUPS: dict = {}  # lemma name -> list of obligations names (base/step) to prove


def induction(name, vars_, prop, on="j", hyps=(), uses_base=(), uses_step=(), lo=0, hints_step=()):
    """prove  forall vars, on >= lo . hyps => prop   by induction on `on`"""
    PROPS[name] = (dict(vars_, **{on: "Int"}), prop, on)

    def base(it, st):
        env = _env(vars_)
        env[on] = SV(TInt, z3.IntVal(lo))
        st.env.update(env)
        for h in hyps:
            it.assume(st, it.ev_contract_expr(h, st))
        _use(it, st, uses_base, st.env)
        return it.ev_contract_expr(prop, st)

    def step(it, st):
        env = _env(vars_)
        j = core.fresh(TInt, on)
        env[on] = j
        st.env.update(env)
        st.pc.append(j.t >= lo)
        for h in hyps:
            it.assume(st, it.ev_contract_expr(h, st))
        it.assume(st, it.ev_contract_expr(prop, st))  # induction hypothesis
        st.env[on] = SV(TInt, j.t + 1)
        _use(it, st, uses_step, st.env)
        for h in hints_step:  # ground instances of ASSUMED axioms, spelled out because they are not triggered syntactically
            it.assume(st, it.ev_contract_expr(h, st))
        return it.ev_contract_expr(prop, st)

    LEMMAS[name + ".base"] = base
    LEMMAS[name + ".step"] = step
    GROUPS[name] = [name + ".base", name + ".step"] + [x for u, _ in list(uses_base) + list(uses_step) for x in GROUPS.get(u, [])]
    return [name + ".base", name + ".step"]


def direct(name, vars_, prop, hyps=(), uses=()):
    PROPS[name] = (dict(vars_), prop, None)

    def f(it, st):
        st.env.update(_env(vars_))
        for h in hyps:
            it.assume(st, it.ev_contract_expr(h, st))
        _use(it, st, uses, st.env)
        return it.ev_contract_expr(prop, st)

    LEMMAS[name] = f
    GROUPS[name] = [name] + [x for u, _ in uses for x in GROUPS.get(u, [])]
    return [name]


C19L: list = []  # filled by c_reserved (its spec vocabulary is defined there)
L1 = []
L1 += induction("L1.count_nonneg", {"SA": "Seq[Atom]"}, "count_sd(SA, j) >= 0 and count_sd(SA, j) <= j")
L1 += induction("L1.filter_len", {"SA": "Seq[Atom]"}, "len(filter_sd(SA, j)) == count_sd(SA, j)")
L1 += induction("L1.count_mono", {"SA": "Seq[Atom]", "i": "Int"}, "implies(i >= 0 and i <= j, count_sd(SA, i) <= count_sd(SA, j))")
L1 += induction(
    "L1.slot_of_derivative", {"SA": "Seq[Atom]", "i": "Int"},
    "implies(i >= 0 and i < j and is_sd(SA[i]), filter_sd(SA, j)[count_sd(SA, i)] == SA[i])",
    uses_step=[("L1.filter_len", {"j": "j - 1"}), ("L1.count_mono", {"i": "i + 1", "j": "j - 1"}), ("L1.count_nonneg", {"j": "i"})],
)
L1 += induction("L1.map_state_len", {"SD": "Seq[Atom]"}, "len(map_state(SD, j)) == ite(j >= 0, j, 0)")
L1 += induction(
    "L1.map_state_at", {"SD": "Seq[Atom]", "i": "Int"},
    "implies(i >= 0 and i < j, map_state(SD, j)[i] == SD[i].state)",
    uses_step=[("L1.map_state_len", {"j": "j - 1"})],
)


def prefix_stability(fname, params, seqvar, elemty):
    """F(.., S ++ T, .., j) == F(.., S, .., j) for 0 <= j <= len(S): generic for prefix-recursive spec functions"""
    args_l = ", ".join((f"{seqvar} + T" if p == seqvar else p) for p in params if p != "j")
    args_r = ", ".join(p for p in params if p != "j")
    vars_ = {p: t for p, t in params.items() if p != "j"}
    vars_["T"] = f"Seq[{elemty}]"
    return induction(f"stab.{fname}", vars_, f"implies(j <= len({seqvar}), {fname}({args_l}, j) == {fname}({args_r}, j))")


STAB = []
STAB += prefix_stability("filter_sd", {"SA": "Seq[Atom]", "j": "Int"}, "SA", "Atom")
STAB += prefix_stability("count_sd", {"SA": "Seq[Atom]", "j": "Int"}, "SA", "Atom")

C12L = induction(
    "C12.filter_kept_preserves_sd", {"A": "Seq[Atom]", "D": "Dict[Name,Set[Name]]"},
    "filter_sd(filter_kept(A, D, j), len(filter_kept(A, D, j))) == filter_sd(A, j)",
    uses_step=[("stab.filter_sd", {"SA": "filter_kept(A, D, j - 1)", "T": "[A[j - 1]]", "j": "len(filter_kept(A, D, j - 1))"})],
)

STAB += prefix_stability("sumden", {"XS": "Seq[Sym]", "env": "Env", "j": "Int"}, "XS", "Sym")
C16L = []
C16L += induction("C16.count_len", {"ORD": "Seq[Sing]", "expr": "Sym"},
                  "len(cond_list(ORD, expr, j)) == count_fin(ORD, j) and count_fin(ORD, j) >= 0")
C16L += induction(
    "C16.sum_of_conditionals", {"ORD": "Seq[Sing]", "expr": "Sym", "env": "Env"},
    "implies(off_all(ORD, env, j), sumden(cond_list(ORD, expr, j), env, len(cond_list(ORD, expr, j))) == count_fin(ORD, j) * den(expr, env))",
    uses_step=[("stab.sumden", {"XS": "cond_list(ORD, expr, j - 1)",
                                "T": "[Conditional(Eq(ORD[j - 1].symbol, ORD[j - 1].value), ORD[j - 1].replacement, expr)]",
                                "env": "env", "j": "len(cond_list(ORD, expr, j - 1))"})],
)

C13L = induction(
    "C13.frozen_after_break", {"SA": "Seq[Atom]", "VALS": "Dict[Name,Int]", "n0": "Int", "N": "Int", "i": "Int"},
    "implies(i >= 0 and i <= j and mv_broken(SA, VALS, n0, N, i), "
    "mv_broken(SA, VALS, n0, N, j) and mv_emit(SA, VALS, n0, N, j) == mv_emit(SA, VALS, n0, N, i))",
)

STAB += prefix_stability("all_nz", {"XS": "Seq[Sym]", "env": "Env", "j": "Int"}, "XS", "Sym")
C06L = induction("C06.certain_nonzero", {"XS": "Seq[Sym]", "env": "Env"}, "certain_all_nz(XS, env, j)")
C06L += induction(
    "C06.product_nonzero", {"XS": "Seq[Sym]", "env": "Env"},
    "implies(all_nz(filter_potential(XS, j), env, len(filter_potential(XS, j))) and certain_all_nz(XS, env, j), prod_den(XS, env, j) != 0)",
    uses_step=[("stab.all_nz", {"XS": "filter_potential(XS, j - 1)", "T": "[XS[j - 1]]", "env": "env", "j": "len(filter_potential(XS, j - 1))"})],
)

# L4 (C06): the emitted Rush-Larsen right-hand side denotes the exponential-integrator formula, guarded.
# L = value of the `<d>_linearized` symbol (= g, by the preceding assignment), F = value of the derivative symbol.
_L4_LET = ("L", "den(Symbol(x.name + '_linearized'), env)"), ("F", "den(x.symbol, env)"), ("DT", "den(dt, env)"), \
          ("RLV", "den(rl_term(x, dt, delta), env)"), ("G", "diff(x.expr, x.state.symbol)")


def _l4_prop():
    sub = dict(_L4_LET)
    body = ("implies(reciprocals_defined(env) and delta >= 0 and L == den(G, env), "
            "ite(frac_nonzero(G), L != 0 and RLV * L == F * (rexp(L * DT) - 1), "
            "ite(abs(L) > delta, RLV * L == F * (rexp(L * DT) - 1), RLV == DT * F)))")
    # textual let-expansion (longest names first)
    import re
    for k in sorted(sub, key=len, reverse=True):
        body = re.sub(rf"\b{k}\b", f"({sub[k]})", body)
    return body


C06L += direct("L4.rush_larsen_formula", {"x": "Atom", "dt": "Sym", "delta": "Real", "env": "Env"}, _l4_prop())

C08L = direct("C08.same_definition_is_transitive", {"d": "Atom", "a": "Atom", "b": "Atom"},
              "implies(same_def(d, a) and same_def(d, b), same_def(a, b))")

# L2 (definitions only): after executing the definitions of SA[0..j) in order, symbol(SA[i]) holds the value of expr(SA[i])
from . import c_l2  # noqa: E402,F401

STAB += prefix_stability("exec_seq", {"PS": "Seq[Stmt]", "env0": "Env", "j": "Int"}, "PS", "Stmt")
L2 = []
L2 += induction("L2.defs_len", {"SA": "Seq[Atom]"}, "len(defs_emit(SA, j)) == ite(j >= 0, j, 0)")
_PS = "defs_emit(SA, j)"
_PREV = f"exec_seq({_PS}, env0, j - 1)"
_LHS, _RHS = "SA[j - 1].symbol", "SA[j - 1].expr"
L2 += induction(
    "L2.straight_line_evaluation", {"SA": "Seq[Atom]", "env0": "Env", "i": "Int"},
    "implies(0 <= i and i < j and topo_i(SA, i, j) and dist_i(SA, i, j), "
    "den(SA[i].symbol, exec_seq(defs_emit(SA, j), env0, j)) == den(SA[i].expr, exec_seq(defs_emit(SA, j), env0, j)))",
    uses_step=[("L2.defs_len", {"j": "j - 1"}), ("L2.defs_len", {"j": "j"}),
               ("stab.exec_seq", {"PS": "defs_emit(SA, j - 1)", "T": "[Assign(SA[j - 1].symbol, SA[j - 1].expr, True)]", "env0": "env0", "j": "j - 1"})],
    hints_step=[f"env_frame(SA[i].symbol, {_PREV}, {_LHS}, den({_RHS}, {_PREV}))", f"env_frame(SA[i].expr, {_PREV}, {_LHS}, den({_RHS}, {_PREV}))"],
)

# L3: executing rhs_emit leaves every derivative's value in its slot -------------------------------------------------
L3 = []
L3 += induction("L3.emit_len", {"SA": "Seq[Atom]"}, "len(rhs_emit(SA, j)) == ite(j >= 0, j, 0) + count_sd(SA, j)")
_RE, _REP = "rhs_emit(SA, j)", "rhs_emit(SA, j - 1)"
_X = "SA[j - 1]"
_DEF = f"Assign({_X}.symbol, {_X}.expr, True)"
_OUT = f"Assign(Indexed('values', count_sd(SA, j - 1)), {_X}.symbol, False)"
L3 += induction(
    "L3.exec_is_renv", {"SA": "Seq[Atom]", "env0": "Env"},
    "exec_seq(rhs_emit(SA, j), env0, len(rhs_emit(SA, j))) == renv(SA, env0, j)",
    uses_step=[("L3.emit_len", {"j": "j - 1"}), ("L3.emit_len", {"j": "j"}),
               ("stab.exec_seq", {"PS": _REP, "T": f"ite(is_sd({_X}), [{_DEF}, {_OUT}], [{_DEF}])", "env0": "env0", "j": f"len({_REP})"}),
               ("stab.exec_seq", {"PS": f"{_REP} + [{_DEF}]", "T": f"[{_OUT}]", "env0": "env0", "j": f"len({_REP}) + 1"})],
)
_EJ = "renv(SA, env0, j)"
_EP = "renv(SA, env0, j - 1)"
_E1 = f"upd({_EP}, {_X}.symbol, den({_X}.expr, {_EP}))"
_CELL = "Indexed('values', count_sd(SA, j - 1))"
_HYP = "0 <= i and i < j and topo_i(SA, i, j) and dist_i(SA, i, j) and vfree_i(SA, i, j) and cfree_i(SA, i, j)"
L3 += induction(
    "L3.slots_hold_derivative_values", {"SA": "Seq[Atom]", "env0": "Env", "i": "Int"},
    f"implies({_HYP}, den(SA[i].symbol, {_EJ}) == den(SA[i].expr, {_EJ}) and "
    f"implies(is_sd(SA[i]), den(Indexed('values', count_sd(SA, i)), {_EJ}) == den(SA[i].expr, {_EJ})))",
    uses_step=[("L1.count_mono", {"SA": "SA", "i": "i + 1", "j": "j - 1"}), ("L1.count_nonneg", {"SA": "SA", "j": "i"})],
    hints_step=[f"env_frame(SA[i].symbol, {_EP}, {_X}.symbol, den({_X}.expr, {_EP}))",
                f"env_frame(SA[i].expr, {_EP}, {_X}.symbol, den({_X}.expr, {_EP}))",
                f"env_frame(Indexed('values', count_sd(SA, i)), {_EP}, {_X}.symbol, den({_X}.expr, {_EP}))",
                f"env_frame(SA[i].symbol, {_E1}, {_CELL}, den({_X}.symbol, {_E1}))",
                f"env_frame(SA[i].expr, {_E1}, {_CELL}, den({_X}.symbol, {_E1}))",
                f"env_frame(Indexed('values', count_sd(SA, i)), {_E1}, {_CELL}, den({_X}.symbol, {_E1}))"],
)

# the same for explicit Euler: values[slot of state X] = X + dt * (value of X's derivative expression), X and dt being the inputs
_EE, _EEP = "euler_emit(SA, dt, vname, j)", "euler_emit(SA, dt, vname, j - 1)"
_OUTE = f"euler_stmt({_X}, dt, vname, count_sd(SA, j - 1))"
L3 += induction("L3.euler_len", {"SA": "Seq[Atom]", "dt": "Sym", "vname": "Name"}, f"len({_EE}) == ite(j >= 0, j, 0) + count_sd(SA, j)")
L3 += induction(
    "L3.euler_exec_is_renv", {"SA": "Seq[Atom]", "dt": "Sym", "vname": "Name", "env0": "Env"},
    f"exec_seq({_EE}, env0, len({_EE})) == renv_e(SA, dt, vname, env0, j)",
    uses_step=[("L3.euler_len", {"j": "j - 1"}), ("L3.euler_len", {"j": "j"}),
               ("stab.exec_seq", {"PS": _EEP, "T": f"ite(is_sd({_X}), [{_DEF}, {_OUTE}], [{_DEF}])", "env0": "env0", "j": f"len({_EEP})"}),
               ("stab.exec_seq", {"PS": f"{_EEP} + [{_DEF}]", "T": f"[{_OUTE}]", "env0": "env0", "j": f"len({_EEP}) + 1"})],
)
_FJ, _FP = "renv_e(SA, dt, vname, env0, j)", "renv_e(SA, dt, vname, env0, j - 1)"
_F1 = f"upd({_FP}, {_X}.symbol, den({_X}.expr, {_FP}))"
_CELLE = "Indexed(vname, count_sd(SA, j - 1))"
_VALE = f"den({_X}.state.symbol + dt * {_X}.symbol, {_F1})"
_HYPE = ("0 <= i and i < j and is_sd(SA[i]) and topo_i(SA, i, j) and dist_i(SA, i, j) and vfree_e(SA, vname, i, j) and cfree_e(SA, vname, i, j) "
         "and inputs_e(SA, dt, vname, i, j)")
L3 += induction(
    "L3.euler_inputs_unchanged", {"SA": "Seq[Atom]", "dt": "Sym", "vname": "Name", "env0": "Env", "i": "Int"},
    f"implies(0 <= i and inputs_e(SA, dt, vname, i, j), den(SA[i].state.symbol, {_FJ}) == den(SA[i].state.symbol, env0) and den(dt, {_FJ}) == den(dt, env0))",
    hints_step=[f"env_frame({t_}, {_FP}, {_X}.symbol, den({_X}.expr, {_FP}))" for t_ in ("SA[i].state.symbol", "dt")]
    + [f"env_frame({t_}, {_F1}, {_CELLE}, {_VALE})" for t_ in ("SA[i].state.symbol", "dt")],
)
_TERMS = ["SA[i].symbol", "SA[i].expr", "Indexed(vname, count_sd(SA, i))"]
L3 += induction(
    "L3.euler_slot_is_state_plus_dt_times_derivative", {"SA": "Seq[Atom]", "dt": "Sym", "vname": "Name", "env0": "Env", "i": "Int"},
    f"implies({_HYPE}, den(SA[i].symbol, {_FJ}) == den(SA[i].expr, {_FJ}) and "
    f"den(Indexed(vname, count_sd(SA, i)), {_FJ}) == den(SA[i].state.symbol, env0) + den(dt, env0) * den(SA[i].expr, {_FJ}))",
    uses_step=[("L1.count_mono", {"SA": "SA", "i": "i + 1", "j": "j - 1"}), ("L1.count_nonneg", {"SA": "SA", "j": "i"}),
               ("L3.euler_inputs_unchanged", {"j": "j - 1"}), ("L3.euler_inputs_unchanged", {"j": "j"})],
    hints_step=[f"env_frame({t_}, {_FP}, {_X}.symbol, den({_X}.expr, {_FP}))" for t_ in _TERMS + ["SA[i].state.symbol", "dt"]]
    + [f"env_frame({t_}, {_F1}, {_CELLE}, {_VALE})" for t_ in _TERMS + ["SA[i].state.symbol", "dt"]],
)
