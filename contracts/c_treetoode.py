"""Contract for gotranx.transformer.TreeToODE.ode (C08 duplicate check wiring, C10 membership independent of order, C17 comments
and blank lines skipped).  The nested `defaultdict(lambda: {kind: set()})` is modelled by Table2."""
from __future__ import annotations

import z3

from pyvc import core, registry, values as V
from pyvc import interp as I
from pyvc.core import SV, TBool, TInt, TName, TSeq, TSet, lift, Record
from pyvc.registry import contract, external, class_model, CONTRACTS
from pyvc.values import BoundMethod, Unsupported, SymIter, SeqIter, as_int
from pyvc.verify import defspec
from .models import TAtom
from . import c_transformer, c_ode_iface  # noqa: F401

TR = "gotranx.transformer."
N = TName.sort()
AS = TSet(TAtom).sort()
ROW = z3.ArraySort(N, AS)          # kind name -> set of atoms
TAB = z3.ArraySort(N, ROW)         # component name -> row
KINDS = ["parameters", "assignments", "states"]


class Table2:
    """dict[component name] -> dict[kind] -> set of atoms, with the insertion order of the component names"""

    def __init__(self, keys=None, dom=None, tab=None):
        self.keys = keys if keys is not None else z3.Empty(z3.SeqSort(N))
        self.dom = dom if dom is not None else z3.K(N, z3.BoolVal(False))
        empty_row = z3.K(N, z3.K(TAtom.sort(), z3.BoolVal(False)))
        self.tab = tab if tab is not None else z3.K(N, empty_row)

    # -- reads
    def cell(self, k1, k2):
        return SV(TSet(TAtom), z3.Select(z3.Select(self.tab, lift(k1, TName).t), lift(k2, TName).t))

    def model_subscript(self, ctx, st, idx):
        return Row(self, lift(idx, TName))

    def has(self, key):
        return SV(TBool, z3.Select(self.dom, lift(key, TName).t))

    kty = TName  # so that `x in table` works through values.contains

    # -- writes (functional)
    def _touch(self, k1):
        k = lift(k1, TName).t
        keys = z3.If(z3.Select(self.dom, k), self.keys, z3.Concat(self.keys, z3.Unit(k)))
        return keys, z3.Store(self.dom, k, z3.BoolVal(True)), k

    def model_mutate2(self, ctx, st, k1, k2, meth, args):
        if meth != "add":
            raise Unsupported(f"Table2 cell mutation {meth}")
        keys, dom, k = self._touch(k1)
        kk = lift(k2, TName).t
        row = z3.Select(self.tab, k)
        newset = z3.Store(z3.Select(row, kk), lift(args[0], TAtom).t, z3.BoolVal(True))
        return Table2(keys, dom, z3.Store(self.tab, k, z3.Store(row, kk, newset)))

    def model_set1(self, ctx, st, k1, v):
        if isinstance(v, dict) and not v:
            keys, dom, k = self._touch(k1)
            return Table2(keys, dom, z3.Store(self.tab, k, z3.K(N, z3.K(TAtom.sort(), z3.BoolVal(False)))))
        raise Unsupported("Table2 row assignment of a non-empty value")

    def model_set2(self, ctx, st, k1, k2, v):
        keys, dom, k = self._touch(k1)
        row = z3.Select(self.tab, k)
        return Table2(keys, dom, z3.Store(self.tab, k, z3.Store(row, lift(k2, TName).t, lift(v, TSet(TAtom)).t)))

    def model_havoc(self, hint):
        n = next(core._FRESH)
        return Table2(z3.Const(f"{hint}.keys!{n}", z3.SeqSort(N)), z3.Const(f"{hint}.dom!{n}", z3.ArraySort(N, z3.BoolSort())),
                      z3.Const(f"{hint}.tab!{n}", TAB))

    def model_method(self, ctx, st, name, args, kwargs):
        if name == "items":
            return TableItems(self)
        raise Unsupported(f"Table2.{name}")

    def keys_sv(self):
        return SV(TSeq(TName), self.keys)


class Row:
    def __init__(self, table, key):
        self.table, self.key = table, key

    def model_subscript(self, ctx, st, idx):
        return self.table.cell(self.key, idx)

    def model_method(self, ctx, st, name, args, kwargs):
        if name == "items":
            return [(k, self.table.cell(self.key, k)) for k in KINDS]  # the inner dict has exactly the three kinds as keys
        raise Unsupported(f"Row.{name}")


class TableItems(SymIter):
    def __init__(self, table):
        self.table = table

    def length(self):
        return SV(TInt, z3.Length(self.table.keys))

    def at(self, j):
        k = SV(TName, self.table.keys[as_int(j).t])
        return (k, RowDict(self.table, k))


class RowDict(dict):
    """the inner dict of one component as python-level mapping kind -> set (concrete keys)"""

    def __init__(self, table, key):
        super().__init__({k: table.cell(key, k) for k in KINDS})
        self.table, self.key = table, key


I.MODEL_TYPES["Table2"] = lambda decl: Table2()
_prev_dd = registry.EXTERNALS["collections.defaultdict"]


def _defaultdict2(ctx, st, factory=None):
    def make(decl):
        if decl.startswith("Table2"):
            return Table2()
        return _prev_dd(ctx, st, factory).make(decl)
    return I.PendingTyped("defaultdict", make)


registry.EXTERNALS["collections.defaultdict"] = _defaultdict2

# spec-side accessors ------------------------------------------------------------------------------------------


@registry.spec("cell")
def _cell(ctx, st, table, c, kind):
    return table.cell(c, kind)


@registry.spec("table_keys")
def _table_keys(ctx, st, table):
    return table.keys_sv()


@registry.spec("kind_of")
def _kind_of(ctx, st, a):
    """the key of the inner dict an atom of exactly this class goes to (mapping[type(atom)])"""
    tag = registry.tag_term("Atom", a.t)
    tags = registry.CLASS_MODELS["Atom"].tags
    A_ = "gotranx.atoms."
    lit = core.name_lit
    return SV(TName, z3.If(tag == tags[A_ + "Parameter"], lit("parameters"),
                           z3.If(tag == tags[A_ + "Assignment"], lit("assignments"), lit("states"))))


@registry.spec("plain_kind")
def _plain_kind(ctx, st, a):
    """atoms produced by the transformer are exactly of class Parameter, State or Assignment"""
    tag = registry.tag_term("Atom", a.t)
    tags = registry.CLASS_MODELS["Atom"].tags
    A_ = "gotranx.atoms."
    return SV(TBool, z3.Or(tag == tags[A_ + "Parameter"], tag == tags[A_ + "Assignment"], tag == tags[A_ + "State"]))


# `mapping[type(atom)]` with mapping = {atoms.Parameter: ..., atoms.Assignment: ..., atoms.State: ...}
_orig_sub = I.Interp.ev_Subscript


def _ev_Subscript(self, n, st):
    import ast as _ast
    if isinstance(n.value, _ast.Name) and isinstance(st.env.get(n.value.id), dict):
        d = st.env[n.value.id]
        if d and all(isinstance(k, I.ClassRef) for k in d):
            idx = self.ev(n.slice, st)
            if isinstance(idx, I.TypeOf):
                tag = registry.tag_term(idx.v.ty.name, idx.v.t)
                tags = registry.CLASS_MODELS[idx.v.ty.name].tags
                known = z3.Or(*[tag == tags[k.dotted] for k in d])
                if self.mode == "code":
                    self.maybe_raise(SV(TBool, z3.Not(known)), I.ExcVal("KeyError"), st)
                out = None
                for k, v in reversed(list(d.items())):
                    t = lift(v, TName).t
                    out = t if out is None else z3.If(tag == tags[k.dotted], t, out)
                return SV(TName, out)
    return _orig_sub(self, n, st)


I.Interp.ev_Subscript = _ev_Subscript

# lines of the transformed tree ------------------------------------------------------------------------------------
class_model("Line", fields={"atoms": "Seq[Atom]"}, classes={})
TLine = core.TU("Line")
LINE_IS_COMMENT = core.uf("Line.is_Comment", TLine.sort(), z3.BoolSort())
LINE_IS_STR = core.uf("Line.is_str", TLine.sort(), z3.BoolSort())
V.ITER_HOOK["Line"] = lambda sv: SeqIter(registry.field_term("Line", "atoms", sv.t))
_prev_isc = registry.EXTERNALS["isinstance:gotranx.atoms.Comment"]
registry.EXTERNALS["isinstance:gotranx.atoms.Comment"] = lambda ctx, st, obj: (
    SV(TBool, LINE_IS_COMMENT(obj.t)) if isinstance(obj, SV) and obj.ty == TLine else _prev_isc(ctx, st, obj))
registry.EXTERNALS["Line.strip"] = lambda ctx, st, obj: BoundMethod(obj, "strip", lambda c, s: SV(TName, core.uf("Line.strip", TLine.sort(), N)(obj.t)))
_orig_isinstance1 = I.Interp.isinstance1


def _isinstance1(self, obj, c, st):
    if isinstance(c, I.PyBuiltin) and c.name == "str" and isinstance(obj, SV) and obj.ty == TLine:
        return SV(TBool, LINE_IS_STR(obj.t))
    return _orig_isinstance1(self, obj, c, st)


I.Interp.isinstance1 = _isinstance1


@registry.spec("is_atoms_line")
def _is_atoms_line(ctx, st, line):
    return SV(TBool, z3.And(z3.Not(LINE_IS_COMMENT(line.t)), z3.Not(LINE_IS_STR(line.t))))


# Component constructor (interface; its __attrs_post_init__ may raise StateNotFoundInComponent) -----------------------
contract("gotranx.ode_component.Component.__init__",
         params={"name": "Name", "states": "Set[Atom]", "parameters": "Set[Atom]", "assignments": "Set[Atom]"}, ret="Component",
         raises={"StateNotFoundInComponent": "maybe"}, assumed=True,
         ensures={"fields": "result.name == name and result.states == states and result.parameters == parameters and result.assignments == assignments"},
         note="attrs constructor; splitting assignments into intermediates / derivatives (and the orphan-derivative error) is _handle_assignments")
core.RECORDS["LarkODE"] = {"components": "Seq[Component]", "comments": "Py"}
core.RECORDS_BY_DOTTED["gotranx.transformer.LarkODE"] = "LarkODE"

# the contract ---------------------------------------------------------------------------------------------------


def _atom(l, q):
    return f"s[{l}].atoms[{q}]"


def _valid(l, q):
    return f"0 <= {l} and {l} < len(s) and is_atoms_line(s[{l}]) and 0 <= {q} and {q} < len(s[{l}].atoms)"


def _land(l, q, table="components"):
    a = _atom(l, q)
    return f"({a} in cell({table}, {a}.components[r], kind_of({a})))"


def _defs(l, q):
    a = _atom(l, q)
    return f"({a}.name in definitions and same_def(definitions[{a}.name], {a}))"


_MONO = "implies(ga in cell(components__pre, gc, gk), ga in cell(components, gc, gk))"
_MONO_DEFS = "implies(gc in definitions__pre, gc in definitions and definitions[gc] == definitions__pre[gc])"
_KIND3 = "(gk == 'parameters' or gk == 'assignments' or gk == 'states')"

_inv0, _inv1 = {}, {}
for _l, _q in (("l", "q"), ("l2", "q2")):
    _inv0[f"landed_{_l}"] = f"implies({_valid(_l, _q)} and {_l} < k and 0 <= r and r < len({_atom(_l, _q)}.components), {_land(_l, _q)})"
    _inv0[f"defs_{_l}"] = f"implies({_valid(_l, _q)} and {_l} < k, {_defs(_l, _q)})"
    _inv1[f"landed_{_l}"] = f"implies({_l} == k0 and {_valid(_l, _q)} and {_q} < k and 0 <= r and r < len({_atom(_l, _q)}.components), {_land(_l, _q)})"
    _inv1[f"defs_{_l}"] = f"implies({_l} == k0 and {_valid(_l, _q)} and {_q} < k, {_defs(_l, _q)})"
_inv1["mono"] = _MONO
_inv1["mono_defs"] = _MONO_DEFS
_inv2 = {"mono": _MONO, "landed": "implies(0 <= r and r < k, atom in cell(components, atom.components[r], kind_of(atom)))"}
for _l, _q in (("l", "q"), ("l2", "q2")):
    # monotonicity at the terms the outer invariants talk about (the ghosts ga/gc/gk are other constants)
    _a = _atom(_l, _q)
    _m = (f"implies({_a} in cell(components__pre, {_a}.components[r], kind_of({_a})), "
          f"{_a} in cell(components, {_a}.components[r], kind_of({_a})))")
    _inv1[f"mono_{_l}"] = _m
    _inv2[f"mono_{_l}"] = _m
    _inv1[f"mono_defs_{_l}"] = (f"implies({_a}.name in definitions__pre, {_a}.name in definitions and "
                                f"definitions[{_a}.name] == definitions__pre[{_a}.name])")

contract(
    TR + "TreeToODE.ode", params={"self": "any", "s": "Seq[Line]"}, ret="Rec:LarkODE",
    enum_params={"self": [None]},
    ghost={"l": "Int", "q": "Int", "r": "Int", "l2": "Int", "q2": "Int", "ci": "Int", "ga": "Atom", "gc": "Name", "gk": "Name"},
    locals={"components": "Table2", "frozen_components": "Table2"},
    raises={"DuplicateSymbolError": "maybe", "AssertionError": "maybe", "StateNotFoundInComponent": "maybe", "KeyError": "maybe"},
    internal={
        "every_atom_is_a_member_of_each_of_its_components":
            f"implies({_valid('l', 'q')} and 0 <= r and r < len({_atom('l', 'q')}.components), {_land('l', 'q')})",
        "two_definitions_of_one_name_are_the_same_definition":
            f"implies({_valid('l', 'q')} and {_valid('l2', 'q2')} and {_atom('l2', 'q2')}.name == {_atom('l', 'q')}.name, "
            f"same_def({_atom('l', 'q')}, {_atom('l2', 'q2')}))",
        "every_component_row_is_frozen_unchanged":
            f"implies(0 <= ci and ci < len(table_keys(components)) and {_KIND3}, "
            "cell(frozen_components, table_keys(components)[ci], gk) == cell(components, table_keys(components)[ci], gk))",
    },
    loops={
        0: {"invariant": _inv0, "types": {"definitions": "Dict[Name,Atom]", "comments": "Seq[Line]"}},
        1: {"invariant": _inv1},
        2: {"invariant": _inv2},
        3: {"invariant": {"copied": f"implies(0 <= ci and ci < k and {_KIND3}, "
                                    "cell(frozen_components, table_keys(components)[ci], gk) == cell(components, table_keys(components)[ci], gk))"}},
    },
    properties=("C08", "C10", "C17"),
)


@registry.spec("same_def")
def _same_def(ctx, st, a, b):
    """the predicate computed by _same_definition (its contract), reflexive"""
    c = CONTRACTS[TR + "_same_definition"]
    r = ctx.call_contract(c, [a, b], {}, st)
    return SV(TBool, z3.Or(a.t == b.t, V.zbool(r)))


