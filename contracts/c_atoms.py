"""Contracts for gotranx/atoms.py: remove_singularities (C16) and the copy functions (C17 frames)."""
from __future__ import annotations

import z3

from pyvc import core, registry, values as V
from pyvc.core import SV, TBool, TInt, TReal, TName, TSeq, lift
from pyvc.registry import contract, external, class_model, CONTRACTS
from pyvc.verify import defspec
from .models import TSym, S, sp_bin, sp_un
from . import c_den
from .c_den import DEN, E

A = "gotranx.atoms."
class_model("Sing", fields={"symbol": "Sym", "value": "Sym", "replacement": "Sym", "is_infinite": "Bool"},
            classes={A + "Singularity": []})

registry.EXTERNALS["sympy.Eq"] = lambda ctx, st, a, b: sp_bin("Eq", a, b)
registry.SPECS["Eq"] = lambda ctx, st, a, b: sp_bin("Eq", a, b)


@external("__sum__")
def _sum(ctx, st, v):
    if isinstance(v, list):
        v = lift(v, TSeq(TSym))
    ctx.assumed_used.add("builtins.sum over sympy expressions denotes the sum of the denotations")
    return SV(TSym, core.uf("sp.sum", TSeq(TSym).sort(), S)(v.t))


@external("sympy.piecewise_fold")
def _pwfold(ctx, st, e):
    ctx.assumed_used.add("sympy.piecewise_fold preserves the denotation")
    return sp_un("piecewise_fold", e)


defspec("sumden", {"XS": "Seq[Sym]", "env": "Env", "j": "Int"}, "Real", """
def sumden(XS, env, j):
    if j <= 0:
        return 0.0
    return sumden(XS, env, j - 1) + den(XS[j - 1], env)
""")

_prev = core.TERM_AXIOMS["den"]


def _den_axioms3(app):
    e, env = app.children()
    n = c_den._name_of(e)
    if n == "sp.sum":
        (xs,) = e.children()
        f = registry.SPECS["sumden"]
        f.define()
        return [app == f.decl()(xs, env, z3.Length(xs))]
    if n == "sp.piecewise_fold":
        return [app == DEN(e.children()[0], env)]
    return _prev(app)


core.TERM_AXIOMS["den"] = _den_axioms3

defspec("cond_list", {"ORD": "Seq[Sing]", "expr": "Sym", "j": "Int"}, "Seq[Sym]", """
def cond_list(ORD, expr, j):
    if j <= 0:
        return empty("Seq[Sym]")
    s = ORD[j - 1]
    if not s.is_infinite:
        return cond_list(ORD, expr, j - 1) + [Conditional(Eq(s.symbol, s.value), s.replacement, expr)]
    return cond_list(ORD, expr, j - 1)
""")
defspec("count_fin", {"ORD": "Seq[Sing]", "j": "Int"}, "Int", """
def count_fin(ORD, j):
    if j <= 0:
        return 0
    if not ORD[j - 1].is_infinite:
        return count_fin(ORD, j - 1) + 1
    return count_fin(ORD, j - 1)
""")
defspec("off_all", {"ORD": "Seq[Sing]", "env": "Env", "j": "Int"}, "Bool", """
def off_all(ORD, env, j):
    if j <= 0:
        return True
    s = ORD[j - 1]
    return off_all(ORD, env, j - 1) and (s.is_infinite or den(s.symbol, env) != den(s.value, env))
""")

contract(
    A + "remove_singularities", params={"expr": "Sym", "singularities": "Set[Sing]"}, ret="Sym", ghost={"env": "Env"},
    raises={"TypeError": "maybe"},
    ensures={
        "untouched_without_removable_singularities": "implies(count_fin(ORDER0, len(ORDER0)) == 0, result == expr)",
        "agrees_off_singular_points_with_at_most_one_removable_singularity":
            "implies(count_fin(ORDER0, len(ORDER0)) <= 1 and off_all(ORDER0, env, len(ORDER0)), den(result, env) == den(expr, env))",
        "agrees_off_singular_points":
            "implies(off_all(ORDER0, env, len(ORDER0)), den(result, env) == den(expr, env))",
    },
    comps={0: "cond_list(ORDER0, expr, j)"},
    uses=[("C16.sum_of_conditionals", {"ORD": "ORDER0", "expr": "expr", "env": "env", "j": "len(ORDER0)"}),
          ("C16.count_len", {"ORD": "ORDER0", "expr": "expr", "j": "len(ORDER0)"})],
    properties=("C16",),
)


# ---- Singularity.is_infinite (C16: only a limit that contains an infinity is left in place) ----------------------
from .models import sym_attr, TSym as _TSym  # noqa: E402
from pyvc import interp as I  # noqa: E402

sym_attr("is_finite", TBool)      # sympy's three-valued assumption read as "is_finite is True"
OO = SV(_TSym, z3.Const("sp.oo", S))
I.CONSTANTS["sympy.oo"] = OO
HAS = core.uf("sp.has", S, S, z3.BoolSort())


@registry.spec("contains_infinity")
def _contains_infinity(ctx, st, e):
    """the expression mentions oo or -oo (ASSUMED reading of Basic.has)"""
    from .models import sp_un
    return SV(TBool, z3.Or(HAS(e.t, OO.t), HAS(e.t, sp_un("Neg", OO).t)))


contract(
    A + "Singularity.is_infinite", params={"self": "Sing"}, ret="Bool",
    ensures={"infinite_iff_the_limit_mentions_an_infinity": "result == contains_infinity(self.replacement)"},
    properties=("C16",),
    note="a finite limit that sympy merely cannot PROVE finite (e.g. 1/tau) must still be used as the replacement",
)


# ---- Assignment.singularities (C16: every point sympy reports for a stateful dependency becomes a Singularity) ---------------
from pyvc.values import SetIter, BoundMethod  # noqa: E402
from pyvc.core import TSet, Record  # noqa: E402
from .models import TAtom  # noqa: E402

TSing = core.TU("Sing")
MK = core.uf("Sing.mk", S, S, S, TSing.sort())


def _mk_axioms(app):
    a, b, c = app.children()
    f = lambda n, ty: registry.field_term("Sing", n, app).t  # noqa: E731
    return [f("symbol", None) == a, f("value", None) == b, f("replacement", None) == c]


core.TERM_AXIOMS["Sing.mk"] = _mk_axioms


@external(A + "Singularity")
def _Singularity(ctx, st, symbol=None, value=None, replacement=None):
    """ASSUMED: a frozen attrs value class - the object is determined by its three fields"""
    ctx.assumed_used.add("gotranx.atoms.Singularity is a value: equal fields, equal (and equally hashed) objects")
    return SV(TSing, MK(lift(symbol, _TSym).t, lift(value, _TSym).t, lift(replacement, _TSym).t))


registry.SPECS["Singularity"] = lambda ctx, st, a, b, c: SV(TSing, MK(lift(a, _TSym).t, lift(b, _TSym).t, lift(c, _TSym).t))
SING_ELEMS = core.uf("sp.singularities.elems", S, S, TSet(_TSym).sort())
SING_NONEMPTY = core.uf("sp.singularities.nonempty", S, S, z3.BoolSort())
SING_FINITE = core.uf("sp.singularities.is_FiniteSet", S, S, z3.BoolSort())
LIMIT = core.uf("sp.limit", S, S, S, S)


class SingSet:
    """what sympy.singularities(expr, symbol) returns: some set object (ASSUMED interface: truthiness, FiniteSet-ness, iteration)"""

    def __init__(self, e, s):
        self.e, self.s = e, s

    def model_iter(self):
        return SetIter(SV(TSet(_TSym), SING_ELEMS(self.e.t, self.s.t)), "sympy.singularities")

    def model_truth(self):
        return SV(TBool, SING_NONEMPTY(self.e.t, self.s.t))


@external("sympy.singularities")
def _singularities(ctx, st, e, s):
    ctx.assumed_used.add("sympy.singularities / sympy.limit are functions of their arguments")
    return SingSet(lift(e, _TSym), lift(s, _TSym))


registry.EXTERNALS["isinstance:sympy.sets.sets.FiniteSet"] = lambda ctx, st, obj: (
    SV(TBool, SING_FINITE(obj.e.t, obj.s.t)) if isinstance(obj, SingSet) else False)
registry.EXTERNALS["sympy.limit"] = lambda ctx, st, e, s, v: SV(_TSym, LIMIT(lift(e, _TSym).t, lift(s, _TSym).t, lift(v, _TSym).t))
registry.SPECS["limit"] = registry.EXTERNALS["sympy.limit"]
registry.SPECS["sing_elems"] = lambda ctx, st, e, s: SV(TSet(_TSym), SING_ELEMS(lift(e, _TSym).t, lift(s, _TSym).t))
registry.SPECS["sing_reported"] = lambda ctx, st, e, s: SV(TBool, z3.And(SING_NONEMPTY(lift(e, _TSym).t, lift(s, _TSym).t),
                                                                           SING_FINITE(lift(e, _TSym).t, lift(s, _TSym).t)))

contract(A + "Atom.is_stateful", params={"self": "Atom", "lookup": "Dict[Name,Atom]"}, ret="Bool", assumed=True,
         note="interface only (recursive through the dependencies): a function of the atom and the table")
registry.method("Atom", "is_stateful", A + "Atom.is_stateful")

_SYM = "lookup[d].symbol"
contract(
    A + "Assignment.singularities", params={"self": "Atom", "lookup": "Dict[Name,Atom]"}, ret="Set[Sing]", ghost={"d": "Name", "v": "Sym"},
    ensures={
        "every_reported_point_of_every_stateful_dependency_becomes_a_singularity_with_its_limit":
            f"implies((self.value is not None) and self.expr != 0 and d in self.value.dependencies and d in lookup and "
            f"lookup[d].is_stateful(lookup) and sing_reported(self.expr, {_SYM}) and v in sing_elems(self.expr, {_SYM}), "
            f"Singularity({_SYM}, v, limit(self.expr, {_SYM}, v)) in result)",
        "nothing_without_a_value": "implies(self.value is None, len_is_zero(result))",
    },
    loops={
        0: {"invariant": {
            "covers": f"implies(d in self.value.dependencies and POS(d) < k and d in lookup and lookup[d].is_stateful(lookup) and "
                      f"sing_reported(self.expr, {_SYM}) and v in sing_elems(self.expr, {_SYM}), "
                      f"Singularity({_SYM}, v, limit(self.expr, {_SYM}, v)) in singularity_list)"},
            "types": {"singularity_list": "Set[Sing]"}},
        1: {"invariant": {
            "mono": "implies(Singularity(lookup[d].symbol, v, limit(self.expr, lookup[d].symbol, v)) in singularity_list__pre, "
                    "Singularity(lookup[d].symbol, v, limit(self.expr, lookup[d].symbol, v)) in singularity_list)",
            "covers_cur": "implies(v in sing_elems(self.expr, var.symbol) and POS(v) < k, "
                          "Singularity(var.symbol, v, limit(self.expr, var.symbol, v)) in singularity_list)"}},
    },
    properties=("C16",),
    note="which points exist is sympy's answer (assumed); the contract is that none of them is dropped, whatever kind of value it is",
)


@registry.spec("len_is_zero")
def _len_is_zero(ctx, st, s):
    if isinstance(s, (set, frozenset, list, tuple)):
        return len(s) == 0
    return SV(TBool, s.t == z3.K(s.ty.args[0].sort(), z3.BoolVal(False)))
