"""Contracts for gotranx/atoms.py: remove_singularities (C16) and the copy functions (C17 frames)."""
from __future__ import annotations

import z3

from pyvc import core, registry, values as V
from pyvc.core import SV, TBool, TInt, TReal, TName, TSeq, lift
from pyvc.registry import contract, external, class_model, CONTRACTS
from pyvc.verify import defspec
from .models import TSym, S, sp_bin, sp_un
from . import c_den
from .c_den import DEN, E

A = "gotranx.atoms."
class_model("Sing", fields={"symbol": "Sym", "value": "Sym", "replacement": "Sym", "is_infinite": "Bool"},
            classes={A + "Singularity": []})

registry.EXTERNALS["sympy.Eq"] = lambda ctx, st, a, b: sp_bin("Eq", a, b)
registry.SPECS["Eq"] = lambda ctx, st, a, b: sp_bin("Eq", a, b)


@external("__sum__")
def _sum(ctx, st, v):
    if isinstance(v, list):
        v = lift(v, TSeq(TSym))
    ctx.assumed_used.add("builtins.sum over sympy expressions denotes the sum of the denotations")
    return SV(TSym, core.uf("sp.sum", TSeq(TSym).sort(), S)(v.t))


@external("sympy.piecewise_fold")
def _pwfold(ctx, st, e):
    ctx.assumed_used.add("sympy.piecewise_fold preserves the denotation")
    return sp_un("piecewise_fold", e)


defspec("sumden", {"XS": "Seq[Sym]", "env": "Env", "j": "Int"}, "Real", """
def sumden(XS, env, j):
    if j <= 0:
        return 0.0
    return sumden(XS, env, j - 1) + den(XS[j - 1], env)
""")

_prev = core.TERM_AXIOMS["den"]


def _den_axioms3(app):
    e, env = app.children()
    n = c_den._name_of(e)
    if n == "sp.sum":
        (xs,) = e.children()
        f = registry.SPECS["sumden"]
        f.define()
        return [app == f.decl()(xs, env, z3.Length(xs))]
    if n == "sp.piecewise_fold":
        return [app == DEN(e.children()[0], env)]
    return _prev(app)


core.TERM_AXIOMS["den"] = _den_axioms3

defspec("cond_list", {"ORD": "Seq[Sing]", "expr": "Sym", "j": "Int"}, "Seq[Sym]", """
def cond_list(ORD, expr, j):
    if j <= 0:
        return empty("Seq[Sym]")
    s = ORD[j - 1]
    if not s.is_infinite:
        return cond_list(ORD, expr, j - 1) + [Conditional(Eq(s.symbol, s.value), s.replacement, expr)]
    return cond_list(ORD, expr, j - 1)
""")
defspec("count_fin", {"ORD": "Seq[Sing]", "j": "Int"}, "Int", """
def count_fin(ORD, j):
    if j <= 0:
        return 0
    if not ORD[j - 1].is_infinite:
        return count_fin(ORD, j - 1) + 1
    return count_fin(ORD, j - 1)
""")
defspec("off_all", {"ORD": "Seq[Sing]", "env": "Env", "j": "Int"}, "Bool", """
def off_all(ORD, env, j):
    if j <= 0:
        return True
    s = ORD[j - 1]
    return off_all(ORD, env, j - 1) and (s.is_infinite or den(s.symbol, env) != den(s.value, env))
""")

contract(
    A + "remove_singularities", params={"expr": "Sym", "singularities": "Set[Sing]"}, ret="Sym", ghost={"env": "Env"},
    raises={"TypeError": "maybe"},
    ensures={
        "untouched_without_removable_singularities": "implies(count_fin(ORDER0, len(ORDER0)) == 0, result == expr)",
        "agrees_off_singular_points_with_at_most_one_removable_singularity":
            "implies(count_fin(ORDER0, len(ORDER0)) <= 1 and off_all(ORDER0, env, len(ORDER0)), den(result, env) == den(expr, env))",
        "agrees_off_singular_points":
            "implies(off_all(ORDER0, env, len(ORDER0)), den(result, env) == den(expr, env))",
    },
    comps={0: "cond_list(ORDER0, expr, j)"},
    uses=[("C16.sum_of_conditionals", {"ORD": "ORDER0", "expr": "expr", "env": "env", "j": "len(ORDER0)"}),
          ("C16.count_len", {"ORD": "ORDER0", "expr": "expr", "j": "len(ORDER0)"})],
    properties=("C16",),
)


# ---- Singularity.is_infinite (C16: only a limit that contains an infinity is left in place) ----------------------
from .models import sym_attr, TSym as _TSym  # noqa: E402
from pyvc import interp as I  # noqa: E402

sym_attr("is_finite", TBool)      # sympy's three-valued assumption read as "is_finite is True"
OO = SV(_TSym, z3.Const("sp.oo", S))
I.CONSTANTS["sympy.oo"] = OO
HAS = core.uf("sp.has", S, S, z3.BoolSort())


@registry.spec("contains_infinity")
def _contains_infinity(ctx, st, e):
    """the expression mentions oo or -oo (ASSUMED reading of Basic.has)"""
    from .models import sp_un
    return SV(TBool, z3.Or(HAS(e.t, OO.t), HAS(e.t, sp_un("Neg", OO).t)))


contract(
    A + "Singularity.is_infinite", params={"self": "Sing"}, ret="Bool",
    ensures={"infinite_iff_the_limit_mentions_an_infinity": "result == contains_infinity(self.replacement)"},
    properties=("C16",),
    note="a finite limit that sympy merely cannot PROVE finite (e.g. 1/tau) must still be used as the replacement",
)
