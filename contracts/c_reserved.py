"""C19: a generator refuses model names that the code it generates uses for itself (CodeGenerator._check_reserved_names,
called by __init__), and the names the templates / generator really use are reserved (skeleton inventory, c_skeleton)."""
from __future__ import annotations

from pyvc import registry
from pyvc.registry import contract, method, CONTRACTS, CLASS_MODELS
from pyvc.verify import defspec
from . import c_base, lemmas as L  # noqa: F401

B = "gotranx.codegen.base.CodeGenerator."
CLASS_MODELS["CG"].fields["reserved_names"] = "Set[Name]"

contract(
    B + "is_reserved_name", params={"self": "CG", "name": "Name"}, ret="Bool",
    ensures={"reserved_set_or_linearized_suffix": "result == (name in self.reserved_names or endswith(name, '_linearized'))"},
    properties=("C19",),
)
method("CG", "is_reserved_name", B + "is_reserved_name")
contract(
    "gotranx.codegen.jax.JaxCodeGenerator.is_reserved_name", params={"self": "CG", "name": "Name"}, ret="Bool",
    ensures={"base_rule_or_values_prefix":
             "result == (name in self.reserved_names or endswith(name, '_linearized') or startswith(name, '_values_'))"},
    properties=("C19",),
    note="super() is read as the same object seen as a CodeGenerator (single inheritance chain JaxCodeGenerator -> "
         "PythonCodeGenerator -> CodeGenerator, neither intermediate class overrides is_reserved_name)",
)

defspec("reserved_of", {"cg": "CG", "A": "Seq[Atom]", "j": "Int"}, "Seq[Name]", """
def reserved_of(cg, A, j):
    if j <= 0:
        return empty("Seq[Name]")
    if cg.is_reserved_name(A[j - 1].name):
        return reserved_of(cg, A, j - 1) + [A[j - 1].name]
    return reserved_of(cg, A, j - 1)
""")

L.C19L += L.induction(
    "C19.no_clash_means_no_reserved_name", {"cg": "CG", "A": "Seq[Atom]", "i": "Int"},
    "implies(0 <= i and i < j and len(reserved_of(cg, A, j)) == 0, not cg.is_reserved_name(A[i].name))",
)

_ATOMS = "self.ode.states + self.ode.parameters + self.ode.intermediates"
contract(
    B + "_check_reserved_names", params={"self": "CG"}, ret=None, ghost={"i": "Int"},
    requires=["WF(self.ode)"],
    where={"ATOMS": _ATOMS},
    raises={"ReservedNameError": "maybe"},
    ensures={"no_state_parameter_or_intermediate_has_a_reserved_name":
             "implies(0 <= i and i < len(ATOMS), not self.is_reserved_name(ATOMS[i].name))"},
    comps={0: "reserved_of(self, atoms, j)"},
    uses=[("C19.no_clash_means_no_reserved_name", {"cg": "self", "A": "ATOMS", "i": "i", "j": "len(ATOMS)"})],
    properties=("C19",),
)
method("CG", "_check_reserved_names", B + "_check_reserved_names")

_init = CONTRACTS[B + "__init__"]
_init.ghost["i"] = "Int"
_init.requires = list(_init.requires) + ["WF(ode)"]
_init.ensures["no_state_parameter_or_intermediate_has_a_reserved_name"] = (
    "implies(0 <= i and i < len(ode.states + ode.parameters + ode.intermediates), "
    "not self.is_reserved_name((ode.states + ode.parameters + ode.intermediates)[i].name))")
_init.properties = tuple(_init.properties) + ("C19",)


# =============================================================================================================
# Inventory: the identifiers that the generated code really uses for itself are reserved.
# The reserved sets are *read from the source* (class attribute expressions and is_reserved_name bodies are executed by the
# interpreter on concrete strings); the generated texts are instances of the real templates / argument builders.
# =============================================================================================================
import ast as pyast  # noqa: E402
import re  # noqa: E402

from pyvc import extract, interp as I  # noqa: E402
from pyvc.core import Record  # noqa: E402
from pyvc.values import Unsupported, BoundMethod, FuncRef  # noqa: E402

GEN = {"python": "gotranx.codegen.python.PythonCodeGenerator", "jax": "gotranx.codegen.jax.JaxCodeGenerator",
       "c": "gotranx.codegen.c.CCodeGenerator"}


def _mro(cls):
    """single-inheritance chain of repository classes, most derived first"""
    out = [cls]
    while True:
        mod = out[-1].rsplit(".", 1)[0]
        bases = extract.class_bases(out[-1])
        tbl = extract.import_table(mod)
        nxt = [tbl.get(b.split(".")[0]) for b in bases if tbl.get(b.split(".")[0], "").startswith("gotranx.")]
        if len(nxt) != 1:
            return out
        out.append(nxt[0])


def _class_assignment(cls, attr):
    for st in extract.class_def(cls).body:
        if isinstance(st, pyast.Assign) and any(isinstance(t, pyast.Name) and t.id == attr for t in st.targets):
            return st.value
        if isinstance(st, pyast.AnnAssign) and isinstance(st.target, pyast.Name) and st.target.id == attr and st.value is not None:
            return st.value
    return None


_CONST_CACHE: dict = {}


def source_constant(dotted):
    """value of a module-level or class-level constant assignment, computed by the interpreter from the source text"""
    key = (extract.REPO, dotted)
    if key in _CONST_CACHE:
        return _CONST_CACHE[key]
    head, last = dotted.rsplit(".", 1)
    if extract.is_module(head):
        node, mod = extract.module_constant(dotted), head
    else:
        mod = head.rsplit(".", 1)[0]
        node = None
        for c in _mro(head):
            node = _class_assignment(c, last)
            if node is not None:
                mod = c.rsplit(".", 1)[0]
                break
        if node is None:
            raise Unsupported(f"no constant {dotted}")
    it = I.Interp(mod, qualname=dotted)
    v = it.ev(node, I.State())
    _CONST_CACHE[key] = v
    return v


_orig_getattr = I.Interp.getattr


def _getattr(self, obj, attr, st, node=None):
    if isinstance(obj, I.ClassRef) and obj.dotted.startswith("gotranx.") and obj.dotted not in registry.CLASS_OF:
        pass
    if isinstance(obj, I.ClassRef) and obj.dotted.startswith("gotranx.codegen."):
        try:
            if any(_class_assignment(c, attr) is not None for c in _mro(obj.dotted)):
                return source_constant(f"{obj.dotted}.{attr}")
        except extract.ExtractError:
            pass
    return _orig_getattr(self, obj, attr, st, node)


I.Interp.getattr = _getattr
_orig_dotted = I.Interp.dotted_value


def _dotted_value(self, dotted):
    if dotted.startswith("gotranx.codegen.") and dotted not in registry.CONTRACTS and dotted not in registry.EXTERNALS:
        head, last = dotted.rsplit(".", 1)
        if extract.is_module(head) and last.isupper():
            try:
                return source_constant(dotted)
            except extract.ExtractError:
                pass
    return _orig_dotted(self, dotted)


I.Interp.dotted_value = _dotted_value


def reserved(backend, name):
    """run the real is_reserved_name of the back end's generator class on a concrete name"""
    chain = _mro(GEN[backend])
    rn = source_constant(GEN[backend] + ".reserved_names")

    def call_from(k, nm):
        for j in range(k, len(chain)):
            try:
                fi = extract.find_function(chain[j] + ".is_reserved_name")
            except extract.ExtractError:
                continue
            it = I.Interp(fi.module, qualname=chain[j] + ".is_reserved_name")
            it.extra_globals["super"] = lambda ctx, st_, *a, j=j: Record("SuperProxy", {"k": j + 1})
            self_obj = Record("GenSelf", {"reserved_names": rn})
            st = I.State({"self": self_obj, "name": nm})
            outs = it.exec_block(fi.node.body, st)
            (o,) = [o for o in outs if o.kind == "return"]
            return bool(o.val)
        raise Unsupported("no is_reserved_name in the class chain")

    def _super_attr(ctx, st_, rec, attr):
        if attr == "is_reserved_name":
            return BoundMethod(rec, attr, lambda c, s_, nm: call_from(rec.fields["k"], nm))
        raise Unsupported(f"super().{attr}")

    registry.RECORD_ATTR_FALLBACK["SuperProxy"] = _super_attr
    return call_from(0, name)


PY_BUILTIN_OK = {"int", "str", "float"}  # only in annotations of the generated signatures, never rebound by a model name
C_WORDS = {"void", "double", "const", "int", "char", "return", "if", "else", "for", "restrict", "__restrict__", "__restrict"}


def py_identifiers(text):
    tree = pyast.parse(text)
    out = set()
    for n in pyast.walk(tree):
        if isinstance(n, pyast.Name):
            out.add(n.id)
        elif isinstance(n, pyast.arg):
            out.add(n.arg)
    return out


def c_identifiers(text):
    text = re.sub(r'"[^"]*"', "", re.sub(r"//[^\n]*", "", text))
    return set(re.findall(r"[A-Za-z_]\w*", text))


@registry.spec("internal_names_reserved")
def _internal_names_reserved(ctx, st, backend, text, holes):
    """every identifier of the generated text that is not a hole (a model name of the instance) is reserved for the back end"""
    ids = c_identifiers(text) - C_WORDS if backend == "c" else py_identifiers(text) - PY_BUILTIN_OK
    bad = sorted(i for i in ids - set(holes) if not reserved(backend, i))
    if bad:
        ctx.note = f"not reserved: {bad}"
    return not bad


@registry.spec("all_reserved")
def _all_reserved(ctx, st, backend, names):
    return all(reserved(backend, n) for n in names)


# ----------------------------------------------------------------------------- inventory obligations
import subprocess  # noqa: E402

from .c_skeleton import TP, TJ, TC  # noqa: E402
from .c_backends import PY, CC  # noqa: E402

_HOLES = ["FNAME", "A1", "A2", "S0", "S1", "P0", "V0", "W", "M0"]


@registry.spec("HOLES")
def _holes(ctx, st):
    return list(_HOLES)


@registry.spec("JAX_SLOTS")
def _jax_slots(ctx, st):
    """the shared instance body contains the JAX printer's slot variables; they are hole content for the other back ends"""
    return ["_values_0", "_values_1", "_values_2"]


# I1: template instances - whatever the template adds around the holes is reserved
CONTRACTS[TP + "method"].ensures["names_added_by_the_template_are_reserved"] = (
    "internal_names_reserved('python', result, HOLES() + JAX_SLOTS()) and internal_names_reserved('jax', result, HOLES())")
CONTRACTS[TJ + "method"].ensures["names_added_by_the_template_are_reserved"] = "internal_names_reserved('jax', result, HOLES())"
CONTRACTS[TC + "method"].ensures["names_added_by_the_template_are_reserved"] = "internal_names_reserved('c', result, HOLES() + JAX_SLOTS())"


# I2: the formals and array names chosen by the argument builders are reserved
@registry.spec("func_names")
def _func_names(ctx, st, f, backend):
    texts = list(f.fields["arguments"]) + [f.fields["values_type"], f.fields["return_name"]]
    names = set()
    for fld in ("states", "parameters", "values"):
        names.add(f.fields[fld].fields["name"] if isinstance(f.fields[fld], Record) else f.fields[fld])
    for t in texts:
        names |= (c_identifiers(t) - C_WORDS) if backend == "c" else (py_identifiers(t) if t else set())
    return sorted(names)


for q in (PY + "_rhs_arguments", PY + "_scheme_arguments"):
    CONTRACTS[q].ensures["formals_and_array_names_are_reserved"] = (
        "all_reserved('python', func_names(result, 'python')) and all_reserved('jax', func_names(result, 'jax'))")
    CONTRACTS[q].properties = tuple(CONTRACTS[q].properties) + ("C19",)
for q in (CC + "_rhs_arguments", CC + "_scheme_arguments"):
    CONTRACTS[q].ensures["formals_and_array_names_are_reserved"] = "all_reserved('c', func_names(result, 'c'))"
    CONTRACTS[q].properties = tuple(CONTRACTS[q].properties) + ("C19",)

# I3: the shape prologue (instance with a concrete slot count; the general text is pinned by the contract of _shape_info)
contract(
    B + "_shape_info#names", source=B + "_shape_info", params={"self": "CG", "shape": "PyInt"}, ret="PyStr",
    enum_params={"shape": [3]},
    raises={"ValueError": "maybe"},
    ensures={"names_in_the_shape_prologue_are_reserved":
             "internal_names_reserved('python', result, []) and internal_names_reserved('jax', result, [])"},
    properties=("C19",), note="BOUNDED instance (slot count 3); every Shape member is a path",
)


# I4/I5: the names the property statement lists, the scheme helper symbols and the time symbol
_LISTED = ["dt", "t", "time", "states", "parameters", "values", "shape", "missing_variables", "dV_dt_linearized", "x_linearized"]


@registry.spec("listed_names_reserved")
def _listed(ctx, st):
    """dt, t, time, states, parameters, values, shape, missing_variables (property statement), the <d>_linearized helper symbols of the
    Rush-Larsen schemes and the numerical library of each back end"""
    lib = {"python": ["numpy", "len"], "jax": ["numpy", "jax", "_values_0", "_values_12"], "c": []}
    return all(all(reserved(b, n) for n in _LISTED + lib[b]) for b in GEN)


@registry.spec("sympy_c_names")
def _sympy_c_names(ctx, st):
    """ASSUMED inventory: the identifiers sympy's C99 printer can emit are its function table, its math macros, pow and fmod
    (read from the installed sympy by a sub-process of the repository's interpreter)"""
    code = ("from sympy.printing.c import known_functions_C99 as k, C99CodePrinter as P\n"
            "n=set()\n"
            "for v in k.values():\n"
            "    n |= {v} if isinstance(v,str) else {f for c,f in v if isinstance(f,str)}\n"
            "n |= set(P().math_macros.values()) | {'pow','fmod'}\n"
            "print(' '.join(sorted(n)))")
    p = subprocess.run(["/venv/bin/python", "-c", code], capture_output=True, text=True, timeout=120)
    if p.returncode != 0:
        raise Unsupported("cannot read sympy's C tables: " + p.stderr[-200:])
    ctx.assumed_used.add("sympy's C99 printer emits only names of known_functions_C99, math_macros, pow, fmod")
    return p.stdout.split()


# (internal: facts about the class constants, proved with the body but not part of what a call site learns)
CONTRACTS[B + "is_reserved_name"].internal["names_listed_by_the_property_are_reserved"] = "listed_names_reserved()"
CONTRACTS[B + "is_reserved_name"].internal["names_the_c_printer_can_emit_are_reserved"] = "all_reserved('c', sympy_c_names() + ['true', 'false'])"
