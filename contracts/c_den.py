"""Denotational layer: den(e, env) / holds(c, env) with the ASSUMED semantics of sympy's constructors,
and contracts for expressions.py / sympytools.Conditional / schemes.fraction_numerator_is_nonzero
(C01, C06, C16).
"""
from __future__ import annotations

import z3

from pyvc import core, registry, values as V
from pyvc import interp as I
from pyvc.core import SV, TBool, TInt, TReal, TName, TSeq, TSet, lift, parse_ty
from pyvc.registry import contract, external, CONTRACTS
from pyvc.verify import defspec
from pyvc.values import Unsupported, BoundMethod, ExcVal, PyRaise
from .models import TSym, S, spf, sym, sp_cls, SP_CLASSES, sp_bin, sp_un, sp_add, sp_mul

TEnv = core.TU("Env")
E = TEnv.sort()
R = z3.RealSort()

DEN = core.uf("den", S, E, R)
HOLDS = core.uf("holds", S, E, z3.BoolSort())
RPOW = core.uf("rpow", R, R, R)
REXP = core.uf("rexp", R, R)


@registry.spec("den")
def _den(ctx, st, e, env):
    return SV(TReal, DEN(sym(e).t, env.t))


@registry.spec("holds")
def _holds(ctx, st, c, env):
    return SV(TBool, HOLDS(sym(c).t, env.t))


@registry.spec("rpow")
def _rpow(ctx, st, a, b):
    return SV(TReal, RPOW(lift(a, TReal).t, lift(b, TReal).t))


@registry.spec("den1")
def _den1(ctx, st, e, env):
    """meaning of an operand of a binary operation: a relational counts as 1/0 (relational_to_piecewise)"""
    e = sym(e)
    rel = core.uf("sp.is_Relational", S, z3.BoolSort())(e.t)
    return SV(TReal, z3.If(rel, z3.If(HOLDS(e.t, env.t), z3.RealVal(1), z3.RealVal(0)), DEN(e.t, env.t)))


def DEN1(e, env):
    rel = core.uf("sp.is_Relational", S, z3.BoolSort())(e)
    return z3.If(rel, z3.If(HOLDS(e, env), z3.RealVal(1), z3.RealVal(0)), DEN(e, env))


def _name_of(t):
    return t.decl().name() if z3.is_app(t) else ""


def _den_axioms(app):
    """ASSUMED sympy semantics, instantiated structurally on den(<constructor application>, env)"""
    e, env = app.children()
    n = _name_of(e)
    ch = e.children() if z3.is_app(e) else []
    d = lambda x: DEN(x, env)  # noqa: E731
    if n == "sp.Add":
        return [app == d(ch[0]) + d(ch[1])]
    if n == "sp.Mul":
        return [app == d(ch[0]) * d(ch[1])]
    if n == "sp.Sub":
        return [app == d(ch[0]) - d(ch[1])]
    if n == "sp.Neg":
        return [app == -d(ch[0])]
    if n == "sp.Div":
        return [z3.Implies(d(ch[1]) != 0, app * d(ch[1]) == d(ch[0]))]
    if n == "sp.Pow":
        return [app == RPOW(d(ch[0]), d(ch[1])),
                z3.Implies(z3.And(d(ch[1]) == -1, d(ch[0]) != 0), app * d(ch[0]) == 1),
                z3.Implies(d(ch[1]) == 1, app == d(ch[0]))]
    if n == "sp.Integer":
        return [app == z3.ToReal(ch[0])]
    if n == "sp.Float":
        return [app == ch[0]]
    if n == "sp.exp":
        return [app == REXP(d(ch[0])), app > 0]
    if n == "sp.Abs":
        return [app == z3.If(d(ch[0]) >= 0, d(ch[0]), -d(ch[0]))]
    if n == "sp.Piecewise2":
        return [app == z3.If(HOLDS(ch[1], env), d(ch[0]), d(ch[2]))]
    return []


def _holds_axioms(app):
    c, env = app.children()
    n = _name_of(c)
    ch = c.children() if z3.is_app(c) else []
    d = lambda x: DEN(x, env)  # noqa: E731
    rel = {"sp.Gt": lambda a, b: a > b, "sp.Lt": lambda a, b: a < b, "sp.Ge": lambda a, b: a >= b,
           "sp.Le": lambda a, b: a <= b, "sp.Eq": lambda a, b: a == b, "sp.Ne": lambda a, b: a != b}
    if n in rel:
        return [app == rel[n](d(ch[0]), d(ch[1]))]
    if n == "sp.true":
        return [app]
    if n == "sp.false":
        return [z3.Not(app)]
    return []


core.TERM_AXIOMS["den"] = _den_axioms
core.TERM_AXIOMS["holds"] = _holds_axioms

# ---- more of the sympy model needed here -------------------------------------------------------------

SP_TRUE = SV(TSym, z3.Const("sp.true", S))
SP_FALSE = SV(TSym, z3.Const("sp.false", S))


def _bool_consts():
    return [sp_cls(SP_TRUE.t) == SP_CLASSES.index("BooleanTrue"), sp_cls(SP_FALSE.t) == SP_CLASSES.index("BooleanFalse")]


from pyvc import verify as _verify  # noqa: E402

_verify.GLOBAL_AXIOMS.append(_bool_consts)
V.TRUTH["Sym"] = lambda sv: sp_cls(sv.t) != SP_CLASSES.index("BooleanFalse")  # bool(sympy.false) is False


@external("sympy.sympify")
def _sympify(ctx, st, v, **kw):
    """ASSUMED: sympify is the identity on sympy objects; python bools become sympy.true / sympy.false"""
    if isinstance(v, bool):
        return SP_TRUE if v else SP_FALSE
    if isinstance(v, SV) and v.ty.kind == "bool":
        return SV(TSym, z3.If(v.t, SP_TRUE.t, SP_FALSE.t))
    if isinstance(v, SV) and v.ty.kind == "u" and v.ty.name == "Node":
        return SV(TSym, core.uf("sp.sympify_token", v.ty.sort(), S)(v.t))
    if isinstance(v, SV) and v.ty == TName:
        return SpApply(v)  # sympify("Gt") is the sympy class of that name
    return sym(v)


def _ext_ctor(name, arity, comm=False):
    def f(ctx, st, *args, **kw):
        if len(args) != arity:
            raise Unsupported(f"sympy.{name} with {len(args)} arguments")
        if kw.get("evaluate", False) is not False and name in ("Add", "Mul", "Pow"):
            raise Unsupported(f"sympy.{name} with evaluate=True")
        if comm:
            return (sp_add if name == "Add" else sp_mul)(*args)
        return sp_bin(name, *args) if arity == 2 else sp_un(name, *args)
    registry.EXTERNALS["sympy." + name] = f


_ext_ctor("Add", 2, True)
_ext_ctor("Mul", 2, True)
_ext_ctor("Pow", 2)


@external("sympy.Integer")
def _Integer(ctx, st, v):
    return sym(v)


@external("sympy.Piecewise", "sympy.functions.Piecewise")
def _Piecewise(ctx, st, *branches, **kw):
    """ASSUMED: Piecewise((a, c), (b, True)) is the abstract two-branch term Piecewise2(a, c, b)"""
    if len(branches) != 2:
        raise Unsupported("Piecewise with other than two branches")
    (a, c), (b, last) = branches
    if last is not True and not (isinstance(last, SV) and last.t.eq(SP_TRUE.t)):
        raise Unsupported("Piecewise whose last condition is not True")
    return SV(TSym, spf("Piecewise2", S, S, S, S)(sym(a).t, sym(c).t, sym(b).t))


for _n in ("BooleanTrue", "BooleanFalse", "Boolean", "Relational"):
    registry.EXTERNALS[f"isinstance:sympy.logic.boolalg.{_n}"] = registry.EXTERNALS[f"isinstance:sympy.{_n}"]
    registry.EXTERNALS[f"isinstance:sympy.core.relational.{_n}"] = registry.EXTERNALS[f"isinstance:sympy.{_n}"]

# ---- contracts: expressions.py ------------------------------------------------------------------------

X = "gotranx.expressions."

contract(
    X + "relational_to_piecewise", params={"expr": "Sym"}, ret="Sym", ghost={"env": "Env"},
    ensures={"meaning": "den(result, env) == den1(expr, env)",
             "identity_unless_relational": "implies(not expr.is_Relational, result == expr)"},
    properties=("C01",),
)

_BIN_MEANING = {
    "+": "den(result, env) == den1(fst, env) + den1(snd, env)",
    "-": "den(result, env) == den1(fst, env) - den1(snd, env)",
    "*": "den(result, env) == den1(fst, env) * den1(snd, env)",
    "/": "den(result, env) == den1(fst, env) * rpow(den1(snd, env), -1)",
    "**": "den(result, env) == rpow(den1(fst, env), den1(snd, env))",
}


@registry.spec("binop_meaning")
def _binop_meaning(ctx, st, op, result, fst, snd, env):
    s2 = I.State({"result": result, "fst": fst, "snd": snd, "env": env}, st.pc, st.decisions, st.assumed)
    if isinstance(op, SV):
        parts = [z3.Implies(op.t == core.name_lit(o), V.zbool(ctx.ev_contract_expr(m, s2))) for o, m in _BIN_MEANING.items()]
        return SV(TBool, z3.And(*parts))
    if op not in _BIN_MEANING:
        return True
    return ctx.ev_contract_expr(_BIN_MEANING[op], s2)


contract(
    X + "binary_op", params={"op": "PyStr", "fst": "Sym", "snd": "Sym"}, ret="Sym", ghost={"env": "Env"},
    enum_params={"op": ["+", "-", "*", "/", "**", "%", "//"]},
    raises={"RuntimeError": "op not in ['+', '-', '*', '/', '**']"},
    ensures={"meaning": "binop_meaning(op, result, fst, snd, env)", "arithmetic_result": "not result.is_Relational"},
    properties=("C01",),
)
contract(
    X + "unary_op", params={"op": "PyStr", "arg": "Sym"}, ret="Sym", ghost={"env": "Env"},
    enum_params={"op": ["-", "+", "~"]},
    raises={"RuntimeError": "op not in ['+', '-']"},
    ensures={"meaning": "ite(op == '+', result == arg, den(result, env) == -den(arg, env) and not result.is_Relational)"},
    properties=("C01",),
)

# ---- contracts: sympytools.Conditional ------------------------------------------------------------------

T = "gotranx.sympytools."
c = CONTRACTS[T + "Conditional"]
c.ghost = {"env": "Env"}
c.ensures["meaning"] = ("implies(not sp_is_true(cond) and not sp_is_false(cond), "
                        "den(result, env) == ite(holds(cond, env), den(true_value, env), den(false_value, env)))")
c.properties = ("C01", "C06", "C16")

# ---- lark trees ---------------------------------------------------------------------------------------
from pyvc.registry import class_model  # noqa: E402

class_model("Node", fields={"data": "Name", "children": "Seq[Node]", "meta": "Meta", "value": "Name", "type": "Name"},
            classes={"lark.Tree": [], "lark.lexer.Token": [], "lark.tree.Tree": []})
class_model("Meta", fields={"line": "Int"}, classes={})
TNode = core.TU("Node")
_text = core.uf("Node.text", TNode.sort(), TName.sort())
V.STR_VIEW["Node"] = lambda sv: SV(TName, _text(sv.t))
registry.EXTERNALS["str:Node"] = lambda ctx, st, v: SV(TName, _text(v.t))
core.COERCIONS[(repr(TNode), repr(TName))] = lambda v: SV(TName, _text(v.t))
TOKVAL = core.uf("Node.number_value", TNode.sort(), R)  # the real number a SCIENTIFIC_NUMBER token spells
core.TERM_AXIOMS["sp.sympify_token"] = lambda app: []
_old_den_axioms = core.TERM_AXIOMS["den"]


def _den_axioms2(app):
    e, env = app.children()
    n = _name_of(e)
    if n == "sp.sympify_token":
        return [app == TOKVAL(e.children()[0])]  # ASSUMED: sympify(token) denotes the number the token spells
    if n == "sp.apply":
        f, args = e.children()
        a0, a1 = DEN1(args[0], env), DEN1(args[1], env)
        return [z3.Implies(z3.Length(args) == 1, app == core.uf("fsem1", TName.sort(), R, R)(f, a0)),
                z3.Implies(z3.Length(args) == 2, app == core.uf("fsem2", TName.sort(), R, R, R)(f, a0, a1))]
    return _old_den_axioms(app)


core.TERM_AXIOMS["den"] = _den_axioms2
PI = z3.Const("sp.pi", S)


class SpApply:
    def __init__(self, fname: SV):
        self.fname = fname


def _sp_apply_call(ctx, st, f, args):
    seq = None
    for a in args:
        if isinstance(a, I.StarArgs):
            it = a.it
            s_ = it.seq if isinstance(it, V.SeqIter) else ctx.materialize(it)
        else:
            s_ = lift([sym(a)], TSeq(TSym))
        seq = s_ if seq is None else SV(s_.ty, z3.Concat(seq.t, s_.t))
    if seq is None:
        seq = SV(TSeq(TSym), z3.Empty(TSeq(TSym).sort()))
    ctx.assumed_used.add("sympy: getattr(sympy, name)(*args) denotes fsem(name)(den args) (arity <= 2)")
    return SV(TSym, core.uf("sp.apply", TName.sort(), TSeq(TSym).sort(), S)(f.fname.t, seq.t))


_orig_call = I.Interp.call


def _call(self, f, args, kwargs, st, node=None):
    if isinstance(f, SpApply):
        return _sp_apply_call(self, st, f, args)
    return _orig_call(self, f, args, kwargs, st, node)


I.Interp.call = _call


@external("__getattr_symbolic__")
def _getattr_symbolic(ctx, st, obj, attr, *default):
    if isinstance(obj, I.ModuleRef) and obj.dotted == "sympy":
        return SpApply(lift(attr, TName))
    raise Unsupported("getattr with symbolic name")


_orig_getattr = I.Interp.call_builtin


def _call_builtin(self, name, args, kwargs, st, node):
    if name == "getattr" and isinstance(args[0], I.ModuleRef) and args[0].dotted == "sympy":
        return SpApply(lift(args[1], TName))  # uniform: every sympy function looked up by name is sp.apply(name, .)
    return _orig_getattr(self, name, args, kwargs, st, node)


I.Interp.call_builtin = _call_builtin

# reference meaning T(tree, env) written from docs/grammar.md ------------------------------------------------

defspec("apply_op", {"op": "Name", "a": "Real", "b": "Real"}, "Real", """
def apply_op(op, a, b):
    if op == "+":
        return a + b
    if op == "-":
        return a - b
    if op == "*":
        return a * b
    if op == "/":
        return a * rpow(b, -1)
    return rpow(a, b)
""")

defspec("T", {"tree": "Node", "symbols": "Dict[Name,Sym]", "env": "Env"}, "Real", """
def T(tree, symbols, env):
    if tree.data == "expression" or tree.data == "term":
        return foldT(tree.children, symbols, env, len(tree.children))
    if tree.data == "factor":
        if tree.children[0] == "-":
            return -den(expr2symbols_of(tree.children[1], symbols), env)
        return T(tree.children[1], symbols, env)
    if tree.data == "power":
        return rpow(T(tree.children[0], symbols, env), T(tree.children[1], symbols, env))
    if tree.data == "variable":
        return den1(symbols[str(tree.children[0])], env)
    if tree.data == "scientific":
        return token_value(tree.children[0])
    if tree.data == "constant":
        return den_pi(env)
    if tree.data == "func":
        return Tfunc(tree, symbols, env)
    return den1(expr2symbols_of(tree, symbols), env)
""")


@registry.spec("token_value")
def _token_value(ctx, st, n):
    return SV(TReal, TOKVAL(n.t))


@registry.spec("den_pi")
def _den_pi(ctx, st, env):
    return SV(TReal, DEN(PI, env.t))


defspec("Tfunc", {"tree": "Node", "symbols": "Dict[Name,Sym]", "env": "Env"}, "Real", """
def Tfunc(tree, symbols, env):
    f = fname_of(tree.children[0])
    if len(tree.children) == 2:
        return fsem1(f, T(tree.children[1], symbols, env))
    if len(tree.children) == 3:
        return fsem2(f, T(tree.children[1], symbols, env), T(tree.children[2], symbols, env))
    return den1(expr2symbols_of(tree, symbols), env)
""")
defspec("Tfunc_other", {"tree": "Node", "symbols": "Dict[Name,Sym]", "env": "Env"}, "Real")
defspec("Tlogical", {"tree": "Node", "symbols": "Dict[Name,Sym]", "env": "Env"}, "Real")


@registry.spec("fname_of")
def _fname_of(ctx, st, tok):
    """'abs' is sympy's 'Abs'; every other function name is the sympy name"""
    t = _text(tok.t)
    return SV(TName, z3.If(t == core.name_lit("abs"), core.name_lit("Abs"), t))


@registry.spec("fsem1")
def _fsem1(ctx, st, f, a):
    return SV(TReal, core.uf("fsem1", TName.sort(), R, R)(lift(f, TName).t, lift(a, TReal).t))


@registry.spec("fsem2")
def _fsem2(ctx, st, f, a, b):
    return SV(TReal, core.uf("fsem2", TName.sort(), R, R, R)(lift(f, TName).t, lift(a, TReal).t, lift(b, TReal).t))


# operands of + - * / ** go through relational_to_piecewise: T1 is the 1/0 reading of a relational sub-tree
defspec("T1", {"tree": "Node", "symbols": "Dict[Name,Sym]", "env": "Env"}, "Real", """
def T1(tree, symbols, env):
    return T(tree, symbols, env)
""")

defspec("foldT", {"ch": "Seq[Node]", "symbols": "Dict[Name,Sym]", "env": "Env", "j": "Int"}, "Real", """
def foldT(ch, symbols, env, j):
    if j <= 1:
        return T(ch[0], symbols, env)
    return apply_op(str(ch[j - 2]), foldT(ch, symbols, env, j - 2), T(ch[j - 1], symbols, env))
""")

contract(
    X + "build_expression.expr2symbols",
    params={"tree": "Node"}, captured={"symbols_": "Dict[Name,Sym]"}, ret="Sym", ghost={"env": "Env"},
    requires=["wf_tree(tree)"],
    raises={"MissingSymbolError": "maybe", "InvalidTreeError": "maybe", "RuntimeError": "maybe", "TypeError": "maybe"},
    ensures={"denotes_reference_meaning":
             "implies(tree.data != 'logicalfunc' and not (tree.data == 'func' and len(tree.children) > 3), "
             "den1(result, env) == T(tree, symbols_, env))",
             "conditional_selects_second_or_third_argument":
             "implies(tree.data == 'logicalfunc' and tree.children[0] == 'Conditional' and not sp_is_true(C1) and not sp_is_false(C1), "
             "den(result, env) == ite(holds(C1, env), den(C2, env), den(C3, env)))",
             "a_variable_that_is_returned_is_defined":
             "implies(tree.data == 'variable', str(tree.children[0]) in symbols_)"},
    where={"C1": "expr2symbols_of(tree.children[1], symbols_)", "C2": "expr2symbols_of(tree.children[2], symbols_)",
           "C3": "expr2symbols_of(tree.children[3], symbols_)"},
    loops={0: {"invariant": {"left_fold": "den1(fst, env) == foldT(tree.children, symbols_, env, 1 + 2 * k)"}}},
    properties=("C01",),
)


FUNCNAMES = ["cos", "tan", "sin", "acos", "atan", "asin", "log", "ln", "sqrt", "exp", "Abs", "abs", "floor", "Mod"]
WF_TREE = core.uf("wf_tree", TNode.sort(), z3.BoolSort())


@registry.spec("wf_tree")
def _wf_tree(ctx, st, tree):
    return SV(TBool, WF_TREE(tree.t))


@registry.spec("expr2symbols_of")
def _e2s_of(ctx, st, tree, symbols):
    f = core.uf(X + "build_expression.expr2symbols", TNode.sort(), symbols.ty.sort(), S)
    return SV(TSym, f(tree.t, symbols.t))


def _wf_axioms(app):
    """shape facts the grammar guarantees (ASSUMED from ode.lark; bounded conformance: replay/oracles/c01),
    and well-formedness of sub-trees"""
    (t,) = app.children()
    out = [z3.Implies(app, _wf_shape(t))]
    parent = _parent_of(t)
    if parent is not None:
        out.append(z3.Implies(WF_TREE(parent), app))
    return out


def _parent_of(t):
    """t is an element (nth / slice element) of Node.children(p): return p"""
    seen = 0
    cur = t
    if not z3.is_app(cur) or _name_of(cur) == "Node.children":
        return None
    stack = [cur]
    while stack and seen < 50:
        x = stack.pop()
        seen += 1
        if not z3.is_app(x):
            continue
        if _name_of(x) == "Node.children":
            return x.children()[0]
        if x.decl().kind() in (z3.Z3_OP_SEQ_NTH, z3.Z3_OP_SEQ_EXTRACT, z3.Z3_OP_ITE) or _name_of(x) in ("seq.nth_i", "seq.nth_u", "seq.nth"):
            ch = x.children()
            stack.extend(ch[1:3] if x.decl().kind() == z3.Z3_OP_ITE else ch[:1])
    return None


core.TERM_AXIOMS["wf_tree"] = _wf_axioms


def _nonrel(app):
    return [z3.Not(core.uf("sp.is_Relational", S, z3.BoolSort())(app))]


for _n in ("sp.Add", "sp.Mul", "sp.Pow", "sp.Sub", "sp.Div", "sp.Neg", "sp.Integer", "sp.Float", "sp.exp", "sp.Abs",
           "sp.sympify_token", "sp.Piecewise2"):
    _prev = core.TERM_AXIOMS.get(_n)
    core.TERM_AXIOMS[_n] = (lambda app, _prev=_prev: (_prev(app) if _prev else []) + _nonrel(app))
core.TERM_AXIOMS["sp.apply"] = lambda app: [z3.Implies(
    z3.Or(*[app.children()[0] == core.name_lit(f) for f in FUNCNAMES if f != "abs"]),
    z3.Not(core.uf("sp.is_Relational", S, z3.BoolSort())(app)))]
_verify.GLOBAL_AXIOMS.append(lambda: [z3.Not(core.uf("sp.is_Relational", S, z3.BoolSort())(PI))])


def _wf_shape(t):
    ch = registry.field_term("Node", "children", t)
    data = registry.field_term("Node", "data", t).t
    n = z3.Length(ch.t)
    lit = core.name_lit
    fn = _text(ch.t[0])
    return (z3.And(
        z3.Implies(z3.Or(data == lit("expression"), data == lit("term")), z3.And(n >= 1, n % 2 == 1)),
        z3.Implies(data == lit("factor"), n == 2),
        z3.Implies(data == lit("power"), n == 2),
        z3.Implies(z3.Or(data == lit("variable"), data == lit("scientific"), data == lit("constant")), n == 1),
        z3.Implies(data == lit("func"), z3.And(n >= 2, z3.Or(*[fn == lit(f) for f in FUNCNAMES]))),
    ))


@registry.spec("arith_node")
def _arith_node(ctx, st, tree):
    data = registry.field_term("Node", "data", tree.t).t
    lit = core.name_lit
    return SV(TBool, z3.Or(*[data == lit(x) for x in ("expression", "term", "factor", "power", "variable", "scientific", "constant")]))

# ---- ContinuousConditional ----------------------------------------------------------------------------
registry.EXTERNALS["Sym.rel_op"] = lambda ctx, st, obj: SV(TName, core.uf("sp.rel_op", S, TName.sort())(obj.t))


@registry.spec("rexp")
def _rexp(ctx, st, a):
    return SV(TReal, REXP(lift(a, TReal).t))


contract(
    T + "ContinuousConditional",
    params={"cond": "Sym", "true_value": "Sym", "false_value": "Sym", "sigma": "Sym"}, ret="Sym", ghost={"env": "Env"},
    where={"A": "den(cond.args[0], env)", "B": "den(cond.args[1], env)", "SG": "den(sigma, env)",
           "TV": "den(true_value, env)", "FV": "den(false_value, env)"},
    ensures={"sigmoid_blend": "implies(SG != 0, den(result, env) * (1 + rexp((A - B) / SG)) == "
                              "ite('>' in cond.rel_op, TV * rexp((A - B) / SG) + FV, TV + FV * rexp((A - B) / SG)))"},
    properties=("C01",),
    note="the documented blend t*(1-H)+f*H with H = 1/(1+exp((a-b)/sigma)), multiplied through by (1+exp(..)) to stay polynomial",
)

# ---- schemes.fraction_numerator_is_nonzero (C06: no division by zero without a guard) ---------------------
SCH = "gotranx.schemes."
ARGS = core.uf("sp.args", S, TSeq(TSym).sort())
FREE = core.uf("sp.free_symbols", S, TSet(TSym).sort())
ISNZ = core.uf("sp.is_nonzero", S, z3.BoolSort())

defspec("prod_den", {"XS": "Seq[Sym]", "env": "Env", "j": "Int"}, "Real", """
def prod_den(XS, env, j):
    if j <= 0:
        return 1.0
    return prod_den(XS, env, j - 1) * den(XS[j - 1], env)
""")
defspec("certain", {"e": "Sym"}, "Bool", """
def certain(e):
    return len(e.free_symbols) == 0 and e.is_nonzero
""")
defspec("filter_certain", {"XS": "Seq[Sym]", "j": "Int"}, "Seq[Sym]", """
def filter_certain(XS, j):
    if j <= 0:
        return empty("Seq[Sym]")
    if certain(XS[j - 1]):
        return filter_certain(XS, j - 1) + [XS[j - 1]]
    return filter_certain(XS, j - 1)
""")
defspec("filter_potential", {"XS": "Seq[Sym]", "j": "Int"}, "Seq[Sym]", """
def filter_potential(XS, j):
    if j <= 0:
        return empty("Seq[Sym]")
    if not certain(XS[j - 1]):
        return filter_potential(XS, j - 1) + [XS[j - 1]]
    return filter_potential(XS, j - 1)
""")
defspec("all_nz", {"XS": "Seq[Sym]", "env": "Env", "j": "Int"}, "Bool", """
def all_nz(XS, env, j):
    if j <= 0:
        return True
    return all_nz(XS, env, j - 1) and den(XS[j - 1], env) != 0
""")


DOM = core.uf("reciprocals_defined", E, z3.BoolSort())


def _envs():
    return list(core.QUERY_CONSTS.get("Env", {}).values())


def _args_axioms(app):
    """ASSUMED sympy semantics of .args for Mul and Pow, for the environments of the query, and
    `reciprocals_defined(env)`: at env the base of every reciprocal a**-1 is non-zero"""
    (e,) = app.children()
    pd = registry.SPECS["prod_den"]
    pd.define()
    m1 = sym(-1).t
    out = [z3.Implies(sp_cls(e) == SP_CLASSES.index("Pow"), z3.Length(app) == 2)]
    for env in _envs():
        d = DEN(e, env)
        out += [
            z3.Implies(sp_cls(e) == SP_CLASSES.index("Mul"), d == pd.decl()(app, env, z3.Length(app))),
            z3.Implies(z3.And(sp_cls(e) == SP_CLASSES.index("Pow"), app[1] == m1, DEN(app[0], env) != 0), d * DEN(app[0], env) == 1),
            z3.Implies(z3.And(DOM(env), sp_cls(e) == SP_CLASSES.index("Pow"), app[1] == m1), DEN(app[0], env) != 0),
        ]
    return out


def _isnz_axioms(app):
    """ASSUMED: a constant expression (no free symbols) whose is_nonzero is True denotes a non-zero number"""
    (e,) = app.children()
    card = core.uf(f"card<{TSym!r}>", TSet(TSym).sort(), z3.IntSort())
    return [z3.Implies(z3.And(app, card(FREE(e)) == 0), DEN(e, env) != 0) for env in _envs()]


core.TERM_AXIOMS["sp.args"] = _args_axioms
core.TERM_AXIOMS["sp.is_nonzero"] = _isnz_axioms

c = CONTRACTS[SCH + "fraction_numerator_is_nonzero"]
c.ghost = {"env": "Env"}
c.ghost_requires = ["reciprocals_defined(env)"]
c.ensures["certainly_nonzero"] = "implies(result, den(expr, env) != 0)"
c.loops = {0: {"invariant": {"certain": "certainly_nonzero_args == filter_certain(args, k)",
                             "potential": "potentially_nonzero_args == filter_potential(args, k)"},
               "types": {"certainly_nonzero_args": "Seq[Sym]", "potentially_nonzero_args": "Seq[Sym]"}},
           1: {"invariant": {"all_nonzero_so_far": "all_nz(potentially_nonzero_args, env, k)"}}}
c.uses = [("C06.certain_nonzero", {"XS": "expr.args", "env": "env", "j": "len(expr.args)"}),
          ("C06.product_nonzero", {"XS": "expr.args", "env": "env", "j": "len(expr.args)"})]
c.properties = ("C06",)


@registry.spec("reciprocals_defined")
def _recip(ctx, st, env):
    return SV(TBool, DOM(env.t))


defspec("certain_all_nz", {"XS": "Seq[Sym]", "env": "Env", "j": "Int"}, "Bool", """
def certain_all_nz(XS, env, j):
    if j <= 0:
        return True
    return certain_all_nz(XS, env, j - 1) and implies(certain(XS[j - 1]), den(XS[j - 1], env) != 0)
""")
