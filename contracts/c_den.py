"""Denotational layer: den(e, env) / holds(c, env) with the ASSUMED semantics of sympy's constructors,
and contracts for expressions.py / sympytools.Conditional / schemes.fraction_numerator_is_nonzero
(C01, C06, C16).
"""
from __future__ import annotations

import z3

from pyvc import core, registry, values as V
from pyvc import interp as I
from pyvc.core import SV, TBool, TInt, TReal, TName, TSeq, TSet, lift, parse_ty
from pyvc.registry import contract, external, CONTRACTS
from pyvc.verify import defspec
from pyvc.values import Unsupported, BoundMethod, ExcVal, PyRaise
from .models import TSym, S, spf, sym, sp_cls, SP_CLASSES, sp_bin, sp_un, sp_add, sp_mul

TEnv = core.TU("Env")
E = TEnv.sort()
R = z3.RealSort()

DEN = core.uf("den", S, E, R)
HOLDS = core.uf("holds", S, E, z3.BoolSort())
RPOW = core.uf("rpow", R, R, R)
REXP = core.uf("rexp", R, R)


@registry.spec("den")
def _den(ctx, st, e, env):
    return SV(TReal, DEN(sym(e).t, env.t))


@registry.spec("holds")
def _holds(ctx, st, c, env):
    return SV(TBool, HOLDS(sym(c).t, env.t))


@registry.spec("rpow")
def _rpow(ctx, st, a, b):
    return SV(TReal, RPOW(lift(a, TReal).t, lift(b, TReal).t))


@registry.spec("den1")
def _den1(ctx, st, e, env):
    """meaning of an operand of a binary operation: a relational counts as 1/0 (relational_to_piecewise)"""
    e = sym(e)
    rel = core.uf("sp.is_Relational", S, z3.BoolSort())(e.t)
    return SV(TReal, z3.If(rel, z3.If(HOLDS(e.t, env.t), z3.RealVal(1), z3.RealVal(0)), DEN(e.t, env.t)))


def _name_of(t):
    return t.decl().name() if z3.is_app(t) else ""


def _den_axioms(app):
    """ASSUMED sympy semantics, instantiated structurally on den(<constructor application>, env)"""
    e, env = app.children()
    n = _name_of(e)
    ch = e.children() if z3.is_app(e) else []
    d = lambda x: DEN(x, env)  # noqa: E731
    if n == "sp.Add":
        return [app == d(ch[0]) + d(ch[1])]
    if n == "sp.Mul":
        return [app == d(ch[0]) * d(ch[1])]
    if n == "sp.Sub":
        return [app == d(ch[0]) - d(ch[1])]
    if n == "sp.Neg":
        return [app == -d(ch[0])]
    if n == "sp.Div":
        return [z3.Implies(d(ch[1]) != 0, app * d(ch[1]) == d(ch[0]))]
    if n == "sp.Pow":
        return [app == RPOW(d(ch[0]), d(ch[1])),
                z3.Implies(z3.And(d(ch[1]) == -1, d(ch[0]) != 0), app * d(ch[0]) == 1),
                z3.Implies(d(ch[1]) == 1, app == d(ch[0]))]
    if n == "sp.Integer":
        return [app == z3.ToReal(ch[0])]
    if n == "sp.Float":
        return [app == ch[0]]
    if n == "sp.exp":
        return [app == REXP(d(ch[0])), app > 0]
    if n == "sp.Abs":
        return [app == z3.If(d(ch[0]) >= 0, d(ch[0]), -d(ch[0]))]
    if n == "sp.Piecewise2":
        return [app == z3.If(HOLDS(ch[1], env), d(ch[0]), d(ch[2]))]
    return []


def _holds_axioms(app):
    c, env = app.children()
    n = _name_of(c)
    ch = c.children() if z3.is_app(c) else []
    d = lambda x: DEN(x, env)  # noqa: E731
    rel = {"sp.Gt": lambda a, b: a > b, "sp.Lt": lambda a, b: a < b, "sp.Ge": lambda a, b: a >= b,
           "sp.Le": lambda a, b: a <= b, "sp.Eq": lambda a, b: a == b, "sp.Ne": lambda a, b: a != b}
    if n in rel:
        return [app == rel[n](d(ch[0]), d(ch[1]))]
    if n == "sp.true":
        return [app]
    if n == "sp.false":
        return [z3.Not(app)]
    return []


core.TERM_AXIOMS["den"] = _den_axioms
core.TERM_AXIOMS["holds"] = _holds_axioms

# ---- more of the sympy model needed here -------------------------------------------------------------

SP_TRUE = SV(TSym, z3.Const("sp.true", S))
SP_FALSE = SV(TSym, z3.Const("sp.false", S))


def _bool_consts():
    return [sp_cls(SP_TRUE.t) == SP_CLASSES.index("BooleanTrue"), sp_cls(SP_FALSE.t) == SP_CLASSES.index("BooleanFalse")]


from pyvc import verify as _verify  # noqa: E402

_verify.GLOBAL_AXIOMS.append(_bool_consts)
V.TRUTH["Sym"] = lambda sv: sp_cls(sv.t) != SP_CLASSES.index("BooleanFalse")  # bool(sympy.false) is False


@external("sympy.sympify")
def _sympify(ctx, st, v, **kw):
    """ASSUMED: sympify is the identity on sympy objects; python bools become sympy.true / sympy.false"""
    if isinstance(v, bool):
        return SP_TRUE if v else SP_FALSE
    if isinstance(v, SV) and v.ty.kind == "bool":
        return SV(TSym, z3.If(v.t, SP_TRUE.t, SP_FALSE.t))
    if isinstance(v, SV) and v.ty.kind == "u" and v.ty.name == "Node":
        return SV(TSym, core.uf("sp.sympify_token", v.ty.sort(), S)(v.t))
    return sym(v)


def _ext_ctor(name, arity, comm=False):
    def f(ctx, st, *args, **kw):
        if len(args) != arity:
            raise Unsupported(f"sympy.{name} with {len(args)} arguments")
        if kw.get("evaluate", False) is not False and name in ("Add", "Mul", "Pow"):
            raise Unsupported(f"sympy.{name} with evaluate=True")
        if comm:
            return (sp_add if name == "Add" else sp_mul)(*args)
        return sp_bin(name, *args) if arity == 2 else sp_un(name, *args)
    registry.EXTERNALS["sympy." + name] = f


_ext_ctor("Add", 2, True)
_ext_ctor("Mul", 2, True)
_ext_ctor("Pow", 2)


@external("sympy.Integer")
def _Integer(ctx, st, v):
    return sym(v)


@external("sympy.Piecewise", "sympy.functions.Piecewise")
def _Piecewise(ctx, st, *branches, **kw):
    """ASSUMED: Piecewise((a, c), (b, True)) is the abstract two-branch term Piecewise2(a, c, b)"""
    if len(branches) != 2:
        raise Unsupported("Piecewise with other than two branches")
    (a, c), (b, last) = branches
    if last is not True and not (isinstance(last, SV) and last.t.eq(SP_TRUE.t)):
        raise Unsupported("Piecewise whose last condition is not True")
    return SV(TSym, spf("Piecewise2", S, S, S, S)(sym(a).t, sym(c).t, sym(b).t))


for _n in ("BooleanTrue", "BooleanFalse", "Boolean", "Relational"):
    registry.EXTERNALS[f"isinstance:sympy.logic.boolalg.{_n}"] = registry.EXTERNALS[f"isinstance:sympy.{_n}"]
    registry.EXTERNALS[f"isinstance:sympy.core.relational.{_n}"] = registry.EXTERNALS[f"isinstance:sympy.{_n}"]

# ---- contracts: expressions.py ------------------------------------------------------------------------

X = "gotranx.expressions."

contract(
    X + "relational_to_piecewise", params={"expr": "Sym"}, ret="Sym", ghost={"env": "Env"},
    ensures={"meaning": "den(result, env) == den1(expr, env)",
             "identity_unless_relational": "implies(not expr.is_Relational, result == expr)"},
    properties=("C01",),
)

_BIN_MEANING = {
    "+": "den(result, env) == den1(fst, env) + den1(snd, env)",
    "-": "den(result, env) == den1(fst, env) - den1(snd, env)",
    "*": "den(result, env) == den1(fst, env) * den1(snd, env)",
    "/": "implies(den1(snd, env) != 0, den(result, env) * den1(snd, env) == den1(fst, env))",
    "**": "den(result, env) == rpow(den1(fst, env), den1(snd, env))",
}


@registry.spec("binop_meaning")
def _binop_meaning(ctx, st, op, result, fst, snd, env):
    if isinstance(op, SV):
        raise Unsupported("symbolic operator")
    s2 = I.State({"result": result, "fst": fst, "snd": snd, "env": env}, st.pc, st.decisions, st.assumed)
    return ctx.ev_contract_expr(_BIN_MEANING[op], s2)


contract(
    X + "binary_op", params={"op": "PyStr", "fst": "Sym", "snd": "Sym"}, ret="Sym", ghost={"env": "Env"},
    enum_params={"op": ["+", "-", "*", "/", "**", "%", "//"]},
    raises={"RuntimeError": "op not in ['+', '-', '*', '/', '**']"},
    ensures={"meaning": "binop_meaning(op, result, fst, snd, env)"},
    properties=("C01",),
)
contract(
    X + "unary_op", params={"op": "PyStr", "arg": "Sym"}, ret="Sym", ghost={"env": "Env"},
    enum_params={"op": ["-", "+", "~"]},
    raises={"RuntimeError": "op not in ['+', '-']"},
    ensures={"meaning": "den(result, env) == (den(arg, env) if op == '+' else -den(arg, env))"},
    properties=("C01",),
)

# ---- contracts: sympytools.Conditional ------------------------------------------------------------------

T = "gotranx.sympytools."
c = CONTRACTS[T + "Conditional"]
c.ghost = {"env": "Env"}
c.ensures["meaning"] = ("implies(not sp_is_true(cond) and not sp_is_false(cond), "
                        "den(result, env) == ite(holds(cond, env), den(true_value, env), den(false_value, env)))")
c.properties = ("C01", "C06", "C16")
