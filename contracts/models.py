"""Sorts, class models and ASSUMED models of external dependencies (sympy, str, sorted ...).

Everything in this file is part of the trusted base: it states how values of the real
program are represented and what the dependencies are assumed to do (DESIGN.md 3.2).
"""
from __future__ import annotations

import z3

from pyvc import core, registry, values as V, extract
from pyvc.core import SV, TInt, TBool, TReal, TName, TSym, TSeq, TSet, TDict, TU, Ty, lift, Record, EnumVal, parse_ty
from pyvc.registry import class_model, external, contract, method
from pyvc.values import Unsupported, BoundMethod, ExcVal, PyRaise
from pyvc import interp as I

# ----------------------------------------------------------------------------- sorts

TAtom, TODE, TComp, TCG, TValue = TU("Atom"), TU("ODE"), TU("Component"), TU("CG"), TU("Value")
TText = TU("Text")  # opaque generated text (a whole function, a formatted module)

Stmt = core.declare_datatype(
    "Stmt",
    [
        ("Assign", [("lhs", TSym), ("rhs", TSym), ("prefixed", TBool)]),
        ("CommentLine", [("ctext", TName)]),
        ("Blank", []),
        ("Raw", [("raw", TName)]),
    ],
)
TStmt = Ty("dt", "Stmt")
TCode = TSeq(TStmt)  # a python str holding statements, one per line

core.COERCIONS[("str", repr(TStmt))] = lambda s: SV(TStmt, Stmt.Blank if s == "" else Stmt.Raw(core.name_lit(s)))
core.COERCIONS[(repr(TName), repr(TStmt))] = lambda v: SV(TStmt, Stmt.Raw(v.t))
core.COERCIONS[("str", repr(TCode))] = lambda s: SV(TCode, z3.Empty(TCode.sort()) if s == "" else z3.Unit(Stmt.Raw(core.name_lit(s))))
core.COERCIONS[(repr(TStmt), repr(TCode))] = lambda v: SV(TCode, z3.Unit(v.t))

# ----------------------------------------------------------------------------- sympy (assumed model)

_sp = {}


def spf(name, *sorts):
    return core.uf("sp." + name, *sorts)


S = TSym.sort()
N = TName.sort()


def sym(v) -> SV:
    """coerce a python/symbolic number to Sym"""
    if isinstance(v, SV):
        if v.ty == TSym:
            return v
        if v.ty.kind == "int":
            return SV(TSym, spf("Integer", z3.IntSort(), S)(v.t))
        if v.ty.kind == "real":
            return SV(TSym, spf("Float", z3.RealSort(), S)(v.t))
        if v.ty == TValue:
            return SV(TSym, core.uf("Value.as_sym", TValue.sort(), S)(v.t))
        raise Unsupported(f"cannot use {v.ty!r} as a sympy expression")
    if isinstance(v, bool):
        raise Unsupported("bool as sympy expression")
    if isinstance(v, int):
        return SV(TSym, spf("Integer", z3.IntSort(), S)(z3.IntVal(v)))
    if isinstance(v, float):
        return SV(TSym, spf("Float", z3.RealSort(), S)(z3.RealVal(repr(v))))
    raise Unsupported(f"cannot use {type(v).__name__} as a sympy expression")


core.COERCIONS[("int", "Sym")] = sym
core.COERCIONS[("float", "Sym")] = sym
core.COERCIONS[("int", repr(TSym))] = sym
core.COERCIONS[(repr(TInt), repr(TSym))] = sym
core.COERCIONS[(repr(TReal), repr(TSym))] = sym
core.COERCIONS[(repr(TValue), repr(TSym))] = sym


core.COMMUTATIVE |= {"sp.Add", "sp.Mul"}  # ASSUMED: sympy's Add/Mul are commutative (canonical ordering)


def _comm(name, a, b):
    a, b = sym(a), sym(b)
    return SV(TSym, spf(name, S, S, S)(a.t, b.t))


def sp_add(a, b):
    return _comm("Add", a, b)


def sp_mul(a, b):
    return _comm("Mul", a, b)


def sp_bin(name, a, b):
    a, b = sym(a), sym(b)
    return SV(TSym, spf(name, S, S, S)(a.t, b.t))


def sp_un(name, a):
    return SV(TSym, spf(name, S, S)(sym(a).t))


def _sym_arith(op, a, b):
    if op == "+":
        return sp_add(a, b)
    if op == "*":
        return sp_mul(a, b)
    if op == "-":
        return sp_bin("Sub", a, b)
    if op == "/":
        return sp_bin("Div", a, b)
    if op == "**":
        return sp_bin("Pow", a, b)
    raise Unsupported(f"sympy operator {op}")


def _sym_compare(op, a, b):
    if op == "is":
        a, b = sym(a), sym(b)
        return SV(TBool, a.t == b.t)
    rel = {"<": "Lt", "<=": "Le", ">": "Gt", ">=": "Ge"}[op]
    return sp_bin(rel, a, b)


def _sym_unary(op, a):
    if op == "-":
        return sp_un("Neg", a)
    if op == "abs":
        return sp_un("Abs", a)
    raise Unsupported(op)


V.SYM_ARITH["Sym"] = _sym_arith
V.SYM_COMPARE["Sym"] = _sym_compare
V.SYM_UNARY["Sym"] = _sym_unary
V.SYM_ARITH["Value"] = _sym_arith


@external("sympy.Symbol")
def _Symbol(ctx, st, name, **kw):
    return SV(TSym, spf("Symbol", N, S)(lift(name, TName).t))


def symbol_of(name_sv):
    return SV(TSym, spf("Symbol", N, S)(lift(name_sv, TName).t))


core.RECORDS["IndexedBase"] = {"name": "Name", "shape": "Py"}
core.RECORDS_BY_DOTTED["sympy.IndexedBase"] = "IndexedBase"
core.RECORD_DEFAULTS["IndexedBase"] = {"shape": None}


def indexed(base_name, i):
    return SV(TSym, spf("Indexed", N, z3.IntSort(), S)(lift(base_name, TName).t, V.as_int(i).t))


V.SUBSCRIPT["IndexedBase"] = lambda rec, idx: indexed(rec.fields["name"], idx)


@external("sympy.exp")
def _exp(ctx, st, a):
    return sp_un("exp", a)


registry.EXTERNALS["sympy.S"] = I.ModuleRef("sympy.S")
I.CONSTANTS["sympy.S.NegativeOne"] = None  # filled below
I.CONSTANTS["sympy.S.Zero"] = None


def _init_constants():
    I.CONSTANTS["sympy.S.NegativeOne"] = sym(-1)
    I.CONSTANTS["sympy.S.Zero"] = sym(0)
    I.CONSTANTS["sympy.pi"] = SV(TSym, z3.Const("sp.pi", S))


_init_constants()


def sym_attr(name, ret, doc=""):
    def h(ctx, st, obj):
        f = core.uf("sp." + name, S, ret.sort())
        ctx.assumed_used.add(f"sympy:{name}")
        return SV(ret, f(obj.t))
    registry.EXTERNALS["Sym." + name] = h


sym_attr("is_zero", TBool)       # "is_zero is True"
sym_attr("is_nonzero", TBool)    # "is_nonzero is True"
sym_attr("is_Relational", TBool)
sym_attr("is_Number", TBool)
sym_attr("args", TSeq(TSym))
sym_attr("free_symbols", TSet(TSym))


def _sym_method(name, impl):
    registry.EXTERNALS["Sym." + name] = lambda ctx, st, obj: BoundMethod(obj, name, lambda c, s, *a, **k: impl(c, s, obj, *a, **k))


_sym_method("diff", lambda c, s, obj, x: sp_bin("diff", obj, x))
_sym_method("simplify", lambda c, s, obj: sp_un("simplify", obj))
_sym_method("has", lambda c, s, obj, x: SV(TBool, core.uf("sp.has", S, S, z3.BoolSort())(obj.t, sym(x).t)))


# sympy classes used in isinstance tests: an integer class tag on Sym
SP_CLASSES = ["Pow", "Mul", "Add", "Symbol", "Integer", "Float", "Piecewise", "Relational", "Boolean", "BooleanTrue", "BooleanFalse"]


def sp_cls(t):
    return core.uf("sp.cls", S, z3.IntSort())(t)


def _mk_isinstance(cname):
    def h(ctx, st, obj):
        if isinstance(obj, SV) and obj.ty == TSym:
            return SV(TBool, sp_cls(obj.t) == SP_CLASSES.index(cname))
        return False
    return h


for _c in SP_CLASSES:
    registry.EXTERNALS[f"isinstance:sympy.{_c}"] = _mk_isinstance(_c)


# Stmt constructors usable in specs ----------------------------------------------------


@registry.spec("Assign")
def _Assign(ctx, st, lhs, rhs, prefixed=False):
    return SV(TStmt, Stmt.Assign(sym(lhs).t, sym(rhs).t, lift(prefixed, TBool).t))


@registry.spec("Indexed")
def _Indexed(ctx, st, base, i):
    return indexed(base, i)


@registry.spec("Symbol")
def _SymbolSpec(ctx, st, name):
    return symbol_of(name)


@registry.spec("CommentLine")
def _CommentLine(ctx, st, text):
    return SV(TStmt, Stmt.CommentLine(lift(text, TName).t))


@registry.spec("Blank")
def _Blank(ctx, st):
    return SV(TStmt, Stmt.Blank)


@registry.spec("implies")
def _implies(ctx, st, a, b):
    return SV(TBool, z3.Implies(V.zbool(a), V.zbool(b)))


@registry.spec("ite")
def _ite(ctx, st, c, a, b):
    a, b = V._same(a, b) if (isinstance(a, SV) or isinstance(b, SV)) else (lift(a), lift(b))
    return SV(a.ty, z3.If(V.zbool(c), a.t, b.t))


@registry.spec("empty")
def _empty(ctx, st, tystr):
    ty = parse_ty(tystr)
    if ty.kind == "seq":
        return SV(ty, z3.Empty(ty.sort()))
    if ty.kind == "set":
        return SV(ty, z3.K(ty.args[0].sort(), z3.BoolVal(False)))
    if ty.kind == "dict":
        return core.dict_empty(ty)
    raise Unsupported("empty()")


@registry.spec("dict_set")
def _dict_set(ctx, st, d, k, v):
    return core.dict_set(d, lift(k, d.ty.args[0]), lift(v, d.ty.args[1]))


@registry.spec("exp")
def _exp_spec(ctx, st, a):
    return sp_un("exp", a)


@registry.spec("diff")
def _diff_spec(ctx, st, a, x):
    return sp_bin("diff", a, x)


@registry.spec("is_zero")
def _is_zero(ctx, st, a):
    return SV(TBool, core.uf("sp.is_zero", S, z3.BoolSort())(sym(a).t))


@registry.spec("Piecewise2")
def _pw(ctx, st, tv, cond, fv):
    return SV(TSym, spf("Piecewise2", S, S, S, S)(sym(tv).t, sym(cond).t, sym(fv).t))


# str.join / f-strings ---------------------------------------------------------------


@external("__join__")
def _join(ctx, st, sep, xs):
    if isinstance(xs, V.SymIter):
        xs = ctx.materialize(xs)
    if isinstance(xs, (list, tuple)):
        if sep == "\n":
            xs = lift(list(xs), TCode) if xs else SV(TCode, z3.Empty(TCode.sort()))
        else:
            xs = lift(list(xs), TSeq(TName)) if xs else SV(TSeq(TName), z3.Empty(TSeq(TName).sort()))
    if xs.ty == TCode and sep == "\n":
        return xs  # a str of lines is the sequence of its statements
    if xs.ty == TSeq(TName):
        f = core.uf("str.join", N, xs.ty.sort(), N)
        return SV(TName, f(core.name_lit(sep), xs.t))
    raise Unsupported(f"join of {xs.ty!r} with {sep!r}")


@external("__fstring__")
def _fstring(ctx, parts, node):
    skel = "".join("{}" if isinstance(p, SV) else (p.value if isinstance(p, EnumVal) else str(p)).replace("{", "{{").replace("}", "}}") for p in parts)
    holes = [p for p in parts if isinstance(p, SV)]
    f = core.uf(f"fmt[{skel}]", *[h.ty.sort() for h in holes], N)
    return SV(TName, f(*[h.t for h in holes]))


# sorted(...) : assumed contract ------------------------------------------------------


@external("__sorted__")
def _sorted(ctx, st, v, key, node):
    """ASSUMED: sorted(S, key=k) on a set S is a function of the *set* provided k is injective on S
    (obligation emitted); on a sequence it is a function of the sequence."""
    keyname = "id"
    if key is not None:
        if isinstance(key, V.Closure) and isinstance(key.node, __import__("ast").Lambda):
            import ast as _ast
            keyname = _ast.unparse(key.node.body)
        else:
            raise Unsupported("sorted with non-lambda key")
    if isinstance(v, SV) and v.ty.kind == "set":
        ety = v.ty.args[0]
        ctx.assumed_used.add("builtins.sorted")
        f = core.uf(f"sorted<{ety!r}>[{keyname}]", v.ty.sort(), TSeq(ety).sort())
        res = SV(TSeq(ety), f(v.t))
        inj = registry.SPECS.get(f"key_injective[{ety!r}][{keyname}]")
        if inj is not None and ctx.mode == "code":
            ctx.oblige(f"sorted@{getattr(node, 'lineno', 0)}.key_injective", st, inj(ctx, st, v), "call-requires")
        return res
    if isinstance(v, SV) and v.ty.kind == "seq":
        ety = v.ty.args[0]
        fname = f"sorted_seq<{ety!r}>[{keyname}]"
        f = core.uf(fname, v.ty.sort(), v.ty.sort())
        # ASSUMED: sorted() of a sequence has as many elements as the sequence
        core.TERM_AXIOMS.setdefault(fname, lambda app: [z3.Length(app) == z3.Length(app.arg(0))])
        return SV(v.ty, f(v.t))
    raise Unsupported("sorted() argument")


# ----------------------------------------------------------------------------- gotranx classes

A = "gotranx.atoms."
class_model(
    "Atom",
    fields={
        "name": "Name", "value": "Value", "components": "Seq[Name]", "description": "Descr", "symbol": "Sym",
        "unit_str": "UnitStr", "unit": "Unit", "expr": "Sym", "comment": "CommentObj", "state": "Atom",
    },
    classes={
        A + "Atom": [], A + "Parameter": [A + "Atom"], A + "State": [A + "Atom"],
        A + "TimeDependentState": [A + "State"], A + "Assignment": [A + "Atom"],
        A + "Intermediate": [A + "Assignment"], A + "StateDerivative": [A + "Assignment"],
    },
)
V.NONE_TEST["Value"] = lambda sv: SV(TBool, core.uf("Value.is_none", TValue.sort(), z3.BoolSort())(sv.t))
_VALUE_NONE = z3.Const("Value.none", TValue.sort())
from pyvc import verify as _verify_mod  # noqa: E402
_verify_mod.GLOBAL_AXIOMS.append(lambda: [core.uf("Value.is_none", TValue.sort(), z3.BoolSort())(_VALUE_NONE)])
core.COERCIONS[("NoneType", repr(TValue))] = lambda v: SV(TValue, _VALUE_NONE)
registry.EXTERNALS["Value.dependencies"] = lambda ctx, st, obj: SV(
    TSet(TName), core.uf("Value.dependencies", TValue.sort(), TSet(TName).sort())(obj.t))


def cls_tag(cname):
    return registry.CLASS_MODELS["Atom"].tags[A + cname]


@registry.spec("is_sd")
def _is_sd(ctx, st, a):
    return SV(TBool, registry.tag_term("Atom", a.t) == cls_tag("StateDerivative"))


@registry.spec("is_intermediate")
def _is_int(ctx, st, a):
    return SV(TBool, registry.tag_term("Atom", a.t) == cls_tag("Intermediate"))


@registry.spec("is_assignment")
def _is_asg(ctx, st, a):
    t = registry.tag_term("Atom", a.t)
    return SV(TBool, z3.Or(t == cls_tag("StateDerivative"), t == cls_tag("Intermediate"), t == cls_tag("Assignment")))


def load_enums():
    """enum members are read mechanically from the class bodies in /repo"""
    for dotted, short in [
        ("gotranx.codegen.base.RHSArgument", "RHSArgument"),
        ("gotranx.codegen.base.SchemeArgument", "SchemeArgument"),
        ("gotranx.codegen.base.Shape", "Shape"),
        ("gotranx.schemes.Scheme", "Scheme"),
        ("gotranx.codegen.python.Format", "PythonFormat"),
        ("gotranx.codegen.c.Format", "CFormat"),
        ("gotranx.cli.gotran2py.Backend", "Backend"),
    ]:
        try:
            core.ENUMS[short] = extract.enum_members(dotted)
            core.ENUMS_BY_DOTTED[dotted] = short
        except extract.ExtractError:
            pass
    for alias, target in [("gotranx.codegen.PythonFormat", "PythonFormat"), ("gotranx.codegen.CFormat", "CFormat"),
                          ("gotranx.codegen.RHSArgument", "RHSArgument"), ("gotranx.codegen.SchemeArgument", "SchemeArgument")]:
        if target in core.ENUMS:
            core.ENUMS_BY_DOTTED[alias] = target


load_enums()


def enum_values(short):
    return [EnumVal(short, m, v) for m, v in core.ENUMS[short]]


# constructor class facts (ASSUMED, instantiated on the terms that occur in a query) ---------------
def _rel_axiom(app):
    return [sp_cls(app) == SP_CLASSES.index("Relational")]


for _r in ("Gt", "Lt", "Ge", "Le", "Eq", "Ne"):
    core.TERM_AXIOMS["sp." + _r] = _rel_axiom
core.TERM_AXIOMS["sp.Pow"] = lambda app: [sp_cls(app) == SP_CLASSES.index("Pow")]
core.TERM_AXIOMS["sp.Symbol"] = lambda app: [sp_cls(app) == SP_CLASSES.index("Symbol")]


@external("collections.defaultdict")
def _defaultdict(ctx, st, factory=None):
    def make(decl):
        ty = parse_ty(decl)  # declared as Dict[K,Set[E]]
        return I.DefaultDict(ty.args[0], ty.args[1].args[0])
    return I.PendingTyped("defaultdict(set)", make)


@external("typing.cast")
def _cast(ctx, st, ty, v):
    return v


@external("types.FunctionType")
def _FunctionType(ctx, st, code, globals_=None, name=None, argdefs=None, closure=None, **kw):
    """ASSUMED: types.FunctionType(code, ...) is a new function object running `code`"""
    from pyvc.values import FuncRef
    f = code.fields["_func"]
    return FuncRef(f.dotted, co_name=code.fields.get("co_name"), fresh=True)


# ----------------------------------------------------------------------------- str.endswith / str.startswith on symbolic names
def _affix(kind):
    f = core.uf(f"str.{kind}", TName.sort(), TName.sort(), z3.BoolSort())

    def attr(ctx, st, obj):
        def impl(c, s_, suffix):
            if isinstance(suffix, (tuple, list)):
                return SV(TBool, z3.Or(*[f(obj.t, lift(x, TName).t) for x in suffix]))
            return SV(TBool, f(obj.t, lift(suffix, TName).t))
        return V.BoundMethod(obj, kind, impl)
    registry.EXTERNALS[f"Name.{kind}"] = attr
    registry.SPECS[kind] = lambda ctx, st, a, b: (getattr(a, kind)(b) if isinstance(a, str) and isinstance(b, str)
                                                 else SV(TBool, f(lift(a, TName).t, lift(b, TName).t)))

    def axiom(app):
        a, b = app.children()
        la, lb = core.lit_value(a), core.lit_value(b)
        if la is not None and lb is not None:
            return [app == getattr(la, kind)(lb)]  # both operands are literals: CPython's own answer
        return []
    core.TERM_AXIOMS[f"str.{kind}"] = axiom


for _k in ("endswith", "startswith"):
    _affix(_k)


# any other sympy assumption / class flag `expr.is_<something>`: ASSUMED to be a function of the expression (read as "is True")
def _sym_flag(ctx, st, obj, attr):
    if attr.startswith("is_"):
        ctx.assumed_used.add(f"sympy attribute .{attr} is a function of the expression")
        return SV(TBool, core.uf("sp." + attr, S, z3.BoolSort())(obj.t))
    return None


registry.SORT_ATTR_FALLBACK["Sym"] = _sym_flag
