"""Contracts verified against the real bodies in gotranx/ode.py (C04, C08, C09, C10, C12, C13)."""
from __future__ import annotations

import z3

from pyvc import core, registry, values as V
from pyvc import interp as I
from pyvc.core import SV, TBool, TInt, TName, TSeq, TSet, lift, Record, parse_ty
from pyvc.registry import contract, external, CONTRACTS
from pyvc.verify import defspec
from pyvc.values import Unsupported, BoundMethod, ExcVal, PyRaise
from .models import TAtom, TODE
from . import c_ode_iface  # noqa: F401

O = "gotranx.ode.ODE."
M = "gotranx.ode."

# ----------------------------------------------------------------------------- graphlib (ASSUMED)

AddCall = core.declare_datatype("AddCall", [("AddCall", [("node", TName), ("preds", TSeq(TName))])])
TAdd = core.Ty("dt", "AddCall")
core.RECORDS["TopoSorter"] = {"adds": "Seq[AddCall]"}


@external("graphlib.TopologicalSorter")
def _TopologicalSorter(ctx, st, graph=None):
    ctx.assumed_used.add("graphlib.TopologicalSorter: static_order() is a function of the sequence of add() calls")
    if graph is None:
        return Record("TopoSorter", {"adds": SV(TSeq(TAdd), z3.Empty(TSeq(TAdd).sort()))})
    if isinstance(graph, SV) and graph.ty.kind == "dict" and graph.ty.args[1].kind == "set":
        # TopologicalSorter(graph) adds every key with its predecessors *in the iteration order of the value*: for a set that order is
        # arbitrary (hash dependent), so the add() sequence is some unconstrained function of the graph - nothing more is known
        f = core.uf(f"adds_of_set_graph<{graph.ty!r}>", graph.ty.sort(), TSeq(TAdd).sort())
        return Record("TopoSorter", {"adds": SV(TSeq(TAdd), f(graph.t))})
    raise Unsupported("TopologicalSorter(graph) for this kind of graph")


def _sorter_add(ctx, st, rec, args):
    node = lift(args[0], TName)
    preds = SV(TSeq(TName), z3.Empty(TSeq(TName).sort()))
    for a in args[1:]:
        if isinstance(a, I.StarArgs):
            it = a.it
            if isinstance(it, V.SetIter):
                seq = it.order  # arbitrary, fresh iteration order of the unordered collection
            elif isinstance(it, V.SeqIter):
                seq = it.seq
            else:
                seq = ctx.materialize(it)
            preds = SV(preds.ty, z3.Concat(preds.t, seq.t))
        else:
            preds = SV(preds.ty, z3.Concat(preds.t, z3.Unit(lift(a, TName).t)))
    call = AddCall.AddCall(node.t, preds.t)
    return Record("TopoSorter", {"adds": SV(TSeq(TAdd), z3.Concat(rec.fields["adds"].t, z3.Unit(call)))})


I.RECORD_MUTATORS[("TopoSorter", "add")] = _sorter_add


def topo(adds: SV) -> SV:
    return SV(TSeq(TName), core.uf("graphlib.static_order", adds.ty.sort(), TSeq(TName).sort())(adds.t))


def cyclic(adds: SV) -> SV:
    return SV(TBool, core.uf("graphlib.cyclic", adds.ty.sort(), z3.BoolSort())(adds.t))


def _static_order(ctx, st, rec):
    def impl(c, s):
        adds = rec.fields["adds"]
        c.maybe_raise(cyclic(adds), ExcVal("CycleError"), s)
        return topo(adds)
    return BoundMethod(rec, "static_order", impl)


registry.EXTERNALS["TopoSorter.static_order"] = _static_order
registry.SPECS["topo"] = lambda ctx, st, adds: topo(adds)
registry.SPECS["cyclic"] = lambda ctx, st, adds: cyclic(adds)
registry.SPECS["AddCall"] = lambda ctx, st, n, p: SV(TAdd, AddCall.AddCall(lift(n, TName).t, lift(p, TSeq(TName)).t))

# ----------------------------------------------------------------------------- spec vocabulary

for fld in ("states", "parameters", "state_derivatives", "intermediates", "assignments"):
    defspec(f"union_{fld}", {"CS": "Seq[Component]", "j": "Int"}, "Set[Atom]", f"""
def union_{fld}(CS, j):
    if j <= 0:
        return empty("Set[Atom]")
    return union_{fld}(CS, j - 1) | CS[j - 1].{fld}
""")

defspec("names_unique", {"S": "Set[Atom]"}, "Bool")  # the name is injective on S (part of WF)
registry.SPECS["key_injective[Atom][x.name]"] = registry.SPECS["names_unique"]

defspec("adds_spec", {"A": "Seq[Atom]", "j": "Int"}, "Seq[AddCall]", """
def adds_spec(A, j):
    if j <= 0:
        return empty("Seq[AddCall]")
    return adds_spec(A, j - 1) + [AddCall(A[j - 1].name, sorted(A[j - 1].value.dependencies))]
""")

defspec("names_set", {"A": "Seq[Atom]", "j": "Int"}, "Set[Name]", """
def names_set(A, j):
    if j <= 0:
        return empty("Set[Name]")
    return names_set(A, j - 1) | {A[j - 1].name}
""")

defspec("has_none", {"A": "Seq[Atom]", "j": "Int"}, "Bool", """
def has_none(A, j):
    if j <= 0:
        return False
    return has_none(A, j - 1) or A[j - 1].value is None
""")

defspec("filter_in", {"NS": "Seq[Name]", "KEEP": "Set[Name]", "j": "Int"}, "Seq[Name]", """
def filter_in(NS, KEEP, j):
    if j <= 0:
        return empty("Seq[Name]")
    if NS[j - 1] in KEEP:
        return filter_in(NS, KEEP, j - 1) + [NS[j - 1]]
    return filter_in(NS, KEEP, j - 1)
""")

defspec("filter_used", {"A": "Seq[Atom]", "D": "Dict[Name,Set[Name]]", "j": "Int"}, "Seq[Atom]", """
def filter_used(A, D, j):
    if j <= 0:
        return empty("Seq[Atom]")
    if A[j - 1].name in D:
        return filter_used(A, D, j - 1) + [A[j - 1]]
    return filter_used(A, D, j - 1)
""")

defspec("lookup_seq", {"ode": "ODE", "NS": "Seq[Name]", "j": "Int"}, "Seq[Atom]", """
def lookup_seq(ode, NS, j):
    if j <= 0:
        return empty("Seq[Atom]")
    return lookup_seq(ode, NS, j - 1) + [ode._lookup[NS[j - 1]]]
""")

# ----------------------------------------------------------------------------- sort_assignments

contract(
    M + "sort_assignments",
    params={"assignments": "Seq[Atom]", "assignments_only": "Bool"}, ret="Seq[Name]",
    where={"N": "len(assignments)", "ADDS": "adds_spec(assignments, len(assignments))"},
    raises={"GotranxError": "maybe", "CycleError": "cyclic(ADDS)"},
    ensures={
        "order_is_function_of_the_input": "result == ite(assignments_only, filter_in(topo(ADDS), names_set(assignments, N), len(topo(ADDS))), topo(ADDS))",
        "no_none_value": "not has_none(assignments, N)",
        "acyclic": "not cyclic(ADDS)",
    },
    loops={0: {"invariant": {"adds": "sorter.adds == adds_spec(assignments, k)",
                             "names": "assignment_names == names_set(assignments, k)",
                             "none": "not has_none(assignments, k)"},
               "types": {"assignment_names": "Set[Name]"}}},
    comps={0: "filter_in(static_order, assignment_names, j)"},
    properties=("C09", "C08", "C12"),
    # another shape of the same function: a dict name -> dependencies handed to TopologicalSorter(graph)
    alternatives=[dict(
        loops={0: {"invariant": {"graph": "graph == graph_spec(assignments, k)", "none": "not has_none(assignments, k)"},
                   "types": {"graph": "Dict[Name,Set[Name]]"}}},
        comps={0: "filter_in(static_order, dict_keyset(graph), j)"})],
)

defspec("graph_spec", {"A": "Seq[Atom]", "j": "Int"}, "Dict[Name,Set[Name]]", """
def graph_spec(A, j):
    if j <= 0:
        return empty("Dict[Name,Set[Name]]")
    return dict_set(graph_spec(A, j - 1), A[j - 1].name, A[j - 1].value.dependencies)
""")


@registry.spec("dict_keyset")
def _dict_keyset(ctx, st, d):
    return SV(TSet(d.ty.args[0]), d.ty.sort().dom(d.t))

# ----------------------------------------------------------------------------- accessors

WFN = {"states": "names_unique(union_states(self.components, len(self.components)))",
       "parameters": "names_unique(union_parameters(self.components, len(self.components)))",
       "state_derivatives": "names_unique(union_state_derivatives(self.components, len(self.components)))",
       "intermediates": "names_unique(union_intermediates(self.components, len(self.components)))"}

@registry.spec("WF")
def _WF(ctx, st, ode):
    """well-formedness invariant of an ODE that code generation relies on (established - or not - by
    make_ode / ODE.__init__: property C08)"""
    s2 = I.State({"self": ode}, st.pc, st.decisions, st.assumed)
    return SV(TBool, z3.And(*[V.zbool(ctx.ev_contract_expr(e, s2)) for e in WFN.values()]))


for fld in ("states", "parameters", "state_derivatives", "intermediates"):
    c = CONTRACTS[O + fld]
    c.requires = [WFN[fld]]
    c.ensures["sorted_union"] = f"result == sorted(union_{fld}(self.components, len(self.components)), key=lambda x: x.name)"
    c.loops = {0: {"invariant": {"acc": f"{fld} == union_{fld}(self.components, k)"}, "types": {fld: "Set[Atom]"}}}
    c.properties = ("C09", "C10", "C04")

CONTRACTS[O + "sorted_state_derivatives"].comps = {0: "filter_sd(SA, j)"}
CONTRACTS[O + "sorted_state_derivatives"].properties = ("C04",)
CONTRACTS[O + "sorted_states"].comps = {0: "map_state(SD, j)"}
CONTRACTS[O + "sorted_states"].properties = ("C04",)

c = CONTRACTS[O + "sorted_assignments"]
c.requires = ["WF(self)"]
CONTRACTS[O + "sorted_state_derivatives"].requires = ["WF(self)"]
CONTRACTS[O + "sorted_states"].requires = ["WF(self)"]
c.where = {"ALL": "self.intermediates + self.state_derivatives",
           "NAMES": "sort_assignments(ALL, assignments_only)",
           "FULL": "lookup_seq(self, NAMES, len(NAMES))"}
c.ensures["sorted_all_then_unused_intermediates_removed"] = (
    "result == ite(remove_unused, filter_kept(FULL, self.dependents(), len(FULL)), FULL)")
c.comps = {0: "lookup_seq(self, names, j)", 1: "filter_kept(assignments, deps, j)"}
c.uses = [("C12.filter_kept_preserves_sd", {"A": "FULL", "D": "self.dependents()", "j": "len(FULL)"})]
c.properties = ("C12", "C09", "C04")

# C12: rhs/schemes number the output slots along sorted_assignments(remove_unused=R) while state_index and the
# initial values number them along sorted_assignments(remove_unused=False): the derivative subsequence must agree.
c.ensures["derivative_order_independent_of_remove_unused"] = (
    "implies(assignments_only and returns(self.sorted_assignments(assignments_only, False)), filter_sd(result, len(result)) == "
    "filter_sd(self.sorted_assignments(assignments_only, False), len(self.sorted_assignments(assignments_only, False))))")

# ----------------------------------------------------------------------------- dependents (pointwise, ghost a/d/i)
c = CONTRACTS[O + "dependents"]
c.ghost = {"a": "Atom", "d": "Name", "i": "Int"}
c.locals = {"dependencies": "Dict[Name,Set[Name]]"}
c.raises = {"GotranxError": "maybe"}
_COV = "(d in dependencies and a.name in dependencies[d])"
_MONO = "implies(d in dependencies__pre and a.name in dependencies__pre[d], " + _COV + ")"
c.ensures["every_dependency_of_every_assignment_is_a_key"] = (
    "implies(0 <= i and i < len(self.components) and a in self.components[i].assignments and d in a.value.dependencies, "
    "d in result and a.name in result[d])")
c.loops = {
    0: {"invariant": {"covers": "implies(0 <= i and i < k and a in self.components[i].assignments and d in a.value.dependencies, " + _COV + ")"}},
    1: {"invariant": {"mono": _MONO,
                      "covers": "implies(a in component.assignments and POS(a) < k and d in a.value.dependencies, " + _COV + ")"}},
    2: {"invariant": {"mono": _MONO,
                      "mono_cur": "implies(d in dependencies__pre and assignment.name in dependencies__pre[d], d in dependencies and assignment.name in dependencies[d])",
                      "covers": "implies(d in assignment.value.dependencies and POS(d) < k, d in dependencies and assignment.name in dependencies[d])"}},
}
c.properties = ("C12", "C13")

defspec("filter_kept", {"A": "Seq[Atom]", "D": "Dict[Name,Set[Name]]", "j": "Int"}, "Seq[Atom]", """
def filter_kept(A, D, j):
    if j <= 0:
        return empty("Seq[Atom]")
    if (not is_intermediate(A[j - 1])) or (A[j - 1].name in D):
        return filter_kept(A, D, j - 1) + [A[j - 1]]
    return filter_kept(A, D, j - 1)
""")

# ----------------------------------------------------------------------------- missing_variables
defspec("index_names", {"NS": "Seq[Name]", "j": "Int"}, "Dict[Name,Int]", """
def index_names(NS, j):
    if j <= 0:
        return empty("Dict[Name,Int]")
    return dict_set(index_names(NS, j - 1), NS[j - 1], j - 1)
""")

c = CONTRACTS[O + "missing_variables"]
c.ghost = {"v": "Name"}
c.internal["index_over_sorted_names"] = "result == index_names(sorted(variable_names), len(sorted(variable_names)))"
c.comps = {1: "index_names(sorted(variable_names), j)"}
c.properties = ("C13", "C09")
c.note = ("the set `variable_names` is a comprehension over the keys of dependents(); its membership is characterised "
          "by the auto-generated comprehension definition (used-but-undefined names); the result is a function of that set")
c.raises = {"GotranxError": "maybe"}

# ----------------------------------------------------------------------------- ODE.__eq__ (C10)
contract(
    O + "__eq__", params={"self": "ODE", "__o": "ODE"}, ret="Bool",
    ensures={"independent_of_component_order":
             "result == (__o.comments == self.comments and "
             "sorted(__o.components, key=lambda c: c.name) == sorted(self.components, key=lambda c: c.name) and "
             "__o.name == self.name)"},
    properties=("C10",),
    note="components are compared after sorting by name: the order of first occurrence in the text is not part of the model "
         "(sorted() of a sequence is assumed to be invariant under permutation for an injective key)",
)

# other known shapes of sorted_assignments (filter first, sort afterwards): the top-level clauses are unchanged, so the
# C12 clause `derivative_order_independent_of_remove_unused` is checked - and fails - on them
_sa = CONTRACTS[O + "sorted_assignments"]
_sa.alternatives = [
    dict(where={"ALL": "self.intermediates + self.state_derivatives"},
         ensures={"lookup_of_sorted_names": "result == lookup_seq(self, sort_assignments(ite(remove_unused, filter_kept(ALL, self.dependents(), len(ALL)), ALL), assignments_only), "
                                            "len(sort_assignments(ite(remove_unused, filter_kept(ALL, self.dependents(), len(ALL)), ALL), assignments_only)))",
                  "derivative_order_independent_of_remove_unused": _sa.ensures["derivative_order_independent_of_remove_unused"]},
         comps={0: "filter_kept(ALL, deps, j)", 1: "lookup_seq(self, names, j)"}, uses=[]),
    dict(where={"INPUT": "ite(remove_unused, filter_used(self.intermediates, self.dependents(), len(self.intermediates)), self.intermediates) + self.state_derivatives"},
         ensures={"lookup_of_sorted_names": "result == lookup_seq(self, sort_assignments(INPUT, assignments_only), len(sort_assignments(INPUT, assignments_only)))",
                  "derivative_order_independent_of_remove_unused": _sa.ensures["derivative_order_independent_of_remove_unused"]},
         comps={0: "filter_used(intermediates, deps, j)", 1: "lookup_seq(self, names, j)"}, uses=[]),
]
