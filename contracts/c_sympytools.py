"""Contracts for gotranx/sympytools.py: states_matrix, rhs_matrix, jacobi_matrix (C20)."""
from __future__ import annotations

import z3

from pyvc import core, registry, values as V
from pyvc.core import SV, TBool, TInt, TReal, TName, TSeq, TDict, lift, parse_ty
from pyvc.registry import contract, external, class_model
from pyvc.values import BoundMethod, Unsupported
from pyvc.verify import defspec
from .models import TSym, S, TAtom
from . import c_ode_iface, c_den  # noqa: F401

T = "gotranx.sympytools."
TMat = core.TU("Mat")
M = TMat.sort()
TSub = TDict(TSym, TSym)

class_model("Mat", fields={}, classes={})
MAT_OF = core.uf("sympy.Matrix", TSeq(TSym).sort(), M)
DEPTH = core.uf("subst_depth", M, TSub.sort(), z3.IntSort())     # passes of xreplace needed to expand every key of the map
XREPL = core.uf("Mat.xreplace", M, TSub.sort(), M)
JAC = core.uf("Mat.jacobian", M, M, M)
DENM = core.uf("denmat", M, c_den.E, core.TU("RealVec").sort())


@external("sympy.Matrix")
def _Matrix(ctx, st, rows):
    ctx.assumed_used.add("sympy.Matrix / xreplace / has / jacobian (assumed: see contracts/c_sympytools.py)")
    return SV(TMat, MAT_OF(lift(rows, TSeq(TSym)).t))


registry.EXTERNALS["Mat.xreplace"] = lambda ctx, st, obj: BoundMethod(obj, "xreplace", lambda c, s, m: SV(TMat, XREPL(obj.t, lift(m, TSub).t)))
registry.EXTERNALS["Mat.jacobian"] = lambda ctx, st, obj: BoundMethod(obj, "jacobian", lambda c, s, x: SV(TMat, JAC(obj.t, x.t)))


@registry.spec("needs_pass")
def _needs_pass(ctx, st, m, sub):
    """ASSUMED: some key of `sub` occurs in `m`  <=>  its substitution depth is positive"""
    return SV(TBool, DEPTH(m.t, lift(sub, TSub).t) > 0)


@registry.spec("depth")
def _depth(ctx, st, m, sub):
    return SV(TInt, DEPTH(m.t, lift(sub, TSub).t))


@registry.spec("denmat")
def _denmat(ctx, st, m, env):
    return SV(core.TU("RealVec"), DENM(m.t, env.t))


@registry.spec("Matrix")
def _MatrixSpec(ctx, st, rows):
    return SV(TMat, MAT_OF(lift(rows, TSeq(TSym)).t))


def _xreplace_axioms(app):
    """ASSUMED (sympy xreplace on an acyclic substitution map): one pass lowers the substitution depth by one and
    preserves the value at every environment consistent with the map"""
    m, sub = app.children()
    d = DEPTH(m, sub)
    return [z3.Implies(d > 0, DEPTH(app, sub) == d - 1), z3.Implies(d <= 0, DEPTH(app, sub) == d), d >= 0]


core.TERM_AXIOMS["Mat.xreplace"] = _xreplace_axioms

defspec("map_symbol", {"S": "Seq[Atom]", "j": "Int"}, "Seq[Sym]", """
def map_symbol(S, j):
    if j <= 0:
        return empty("Seq[Sym]")
    return map_symbol(S, j - 1) + [S[j - 1].symbol]
""")
defspec("map_expr", {"S": "Seq[Atom]", "j": "Int"}, "Seq[Sym]", """
def map_expr(S, j):
    if j <= 0:
        return empty("Seq[Sym]")
    return map_expr(S, j - 1) + [S[j - 1].expr]
""")
defspec("subst_map", {"S": "Seq[Atom]", "j": "Int"}, "Dict[Sym,Sym]", """
def subst_map(S, j):
    if j <= 0:
        return empty("Dict[Sym,Sym]")
    return dict_set(subst_map(S, j - 1), S[j - 1].symbol, S[j - 1].expr)
""")

RAISES = {"GotranxError": "maybe", "CycleError": "maybe", "KeyError": "maybe"}

contract(
    T + "states_matrix", params={"ode": "ODE"}, ret="Mat", requires=["WF(ode)"], raises=RAISES,
    where={"SS": "ode.sorted_states()"},
    ensures={"same_order_as_state_index": "result == Matrix(map_symbol(SS, len(SS)))"},
    comps={0: "map_symbol(SS, j)"}, properties=("C20", "C04"),
)

@registry.spec("acyclic")
def _acyclic(ctx, st, ode):
    """ASSUMED consequence of WF (no cyclic definitions, C08): expanding the derivatives needs a finite number of
    passes, at most one per distinct intermediate symbol"""
    from pyvc import interp as I
    s2 = I.State({"ode": ode}, st.pc, st.decisions, st.assumed)
    return ctx.ev_contract_expr(
        "0 <= depth(Matrix(map_expr(ode.sorted_state_derivatives(), len(ode.sorted_state_derivatives()))), "
        "subst_map(ode.intermediates + ode.state_derivatives, len(ode.intermediates + ode.state_derivatives))) and "
        "depth(Matrix(map_expr(ode.sorted_state_derivatives(), len(ode.sorted_state_derivatives()))), "
        "subst_map(ode.intermediates + ode.state_derivatives, len(ode.intermediates + ode.state_derivatives))) <= "
        "dict_len(subst_map(ode.intermediates + ode.state_derivatives, len(ode.intermediates + ode.state_derivatives)))", s2)


contract(
    T + "rhs_matrix", params={"ode": "ODE", "max_tries": "Int"}, ret="Mat", raises=RAISES,
    requires=["WF(ode)", "acyclic(ode)"],
    where={"SD": "ode.sorted_state_derivatives()", "RHS0": "Matrix(map_expr(SD, len(SD)))",
           "SUB": "subst_map(ode.intermediates + ode.state_derivatives, len(ode.intermediates + ode.state_derivatives))"},
    ensures={"every_intermediate_expanded": "depth(result, SUB) == 0",
             "rows_follow_sorted_state_derivatives": "result_passes(result, RHS0, SUB)"},
    comps={0: "subst_map(ode.intermediates + ode.state_derivatives, j)", 1: "map_expr(SD, j)"},
    abstractions={"any([rhs.has(k) for k in intermediates.keys()])": "needs_pass(rhs, intermediates)"},
    loops={0: {"invariant": {"progress": "depth(rhs, intermediates) + num_tries == depth(RHS0, SUB) and num_tries >= 0 and depth(rhs, intermediates) >= 0",
                             "same_rows": "result_passes(rhs, RHS0, SUB)"},
               "variant": "depth(rhs, intermediates)"}},
    properties=("C20",),
    note="no RuntimeError clause: for an acyclic model the function returns (any dependency depth)",
)

PASSES = core.uf("obtained_by_xreplace_passes", M, M, TSub.sort(), z3.BoolSort())


@registry.spec("result_passes")
def _result_passes(ctx, st, m, m0, sub):
    """m is m0 after some number of xreplace(sub) passes (each pass preserves the value: assumed)"""
    return SV(TBool, PASSES(m.t, m0.t, lift(sub, TSub).t))


def _passes_axioms(app):
    m, m0, sub = app.children()
    out = [z3.Implies(m == m0, app)]
    if z3.is_app(m) and m.decl().name() == "Mat.xreplace":
        inner, s2 = m.children()
        out.append(z3.Implies(z3.And(PASSES(inner, m0, sub), s2 == sub), app))
    return out


core.TERM_AXIOMS["obtained_by_xreplace_passes"] = _passes_axioms

contract(
    T + "jacobi_matrix", params={"ode": "ODE"}, ret="Mat", requires=["WF(ode)", "acyclic(ode)"],
    raises=RAISES,
    ensures={"jacobian_of_rhs_wrt_states": "result == jacobian_of(rhs_matrix(ode, 20), states_matrix(ode))"},
    properties=("C20",),
)


@registry.spec("jacobian_of")
def _jacobian_of(ctx, st, a, b):
    return SV(TMat, JAC(a.t, b.t))
