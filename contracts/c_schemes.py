"""Contracts for gotranx/schemes.py (C05, C06, C07; slot part of C04; remove_unused forwarding of C12)."""
from __future__ import annotations

import z3

from pyvc import core, registry
from pyvc.core import SV, TBool, lift
from pyvc.registry import contract
from pyvc.verify import defspec
from .models import TStmt, Stmt, sym
from . import c_ode_iface  # noqa: F401


def make_callable(kind, name):
    """value of a parameter that is a callable with an (assumed) contract"""
    if kind == "printer":
        # printer_func protocol: printer(lhs, rhs, use_variable_prefix=False) -> str ; abstract value Assign(...)
        def printer(ctx, st, lhs, rhs, use_variable_prefix=False):
            return SV(TStmt, Stmt.Assign(sym(lhs).t, sym(rhs).t, lift(use_variable_prefix, TBool).t))
        return printer
    raise KeyError(kind)


registry.make_callable = make_callable

# --- spec: what one state derivative contributes ------------------------------------------------

defspec("euler_stmt", {"x": "Atom", "dt": "Sym", "vname": "Name", "slot": "Int"}, "Stmt", """
def euler_stmt(x, dt, vname, slot):
    return Assign(Indexed(vname, slot), x.state.symbol + dt * x.symbol, False)
""")

defspec("euler_emit", {"SA": "Seq[Atom]", "dt": "Sym", "vname": "Name", "j": "Int"}, "Seq[Stmt]", """
def euler_emit(SA, dt, vname, j):
    if j <= 0:
        return empty("Seq[Stmt]")
    x = SA[j - 1]
    head = euler_emit(SA, dt, vname, j - 1) + [Assign(x.symbol, x.expr, True)]
    if is_sd(x):
        return head + [euler_stmt(x, dt, vname, count_sd(SA, j - 1))]
    return head
""")

S = "gotranx.schemes."

contract(
    S + "explicit_euler",
    params={"ode": "ODE", "dt": "Sym", "name": "Name", "printer": "Fn:printer", "remove_unused": "Bool"},
    ret="Seq[Stmt]", requires=["WF(ode)"],
    where={"SA": "ode.sorted_assignments(True, remove_unused)"},
    raises={"GotranxError": "maybe", "CycleError": "maybe", "KeyError": "maybe"},
    ensures={"result_is_euler_emit": "result == euler_emit(SA, dt, name, len(SA))"},
    loops={0: {"invariant": {"eqs": "eqs == euler_emit(SA, dt, name, k)", "slot": "i == count_sd(SA, k)"},
               "types": {"eqs": "Seq[Stmt]"}}},
    properties=("C05", "C04", "C12"),
)

# --- sympytools.Conditional (interface; verified in c_sympytools.py) ------------------------------
T = "gotranx.sympytools."
contract(
    T + "Conditional",
    params={"cond": "Sym", "true_value": "Sym", "false_value": "Sym"},
    ret="Sym",
    raises={"TypeError": "not (sp_is_relational(cond) or sp_is_boolean(cond))"},
    ensures={"piecewise": "result == ite(sp_is_true(cond), true_value, ite(sp_is_false(cond), false_value, Piecewise2(true_value, cond, false_value)))"},
)


def _cls_pred(name, classes):
    from .models import sp_cls, SP_CLASSES, TSym

    @registry.spec(name)
    def f(ctx, st, e):
        return SV(TBool, z3.Or(*[sp_cls(sym(e).t) == SP_CLASSES.index(c) for c in classes]))


_cls_pred("sp_is_relational", ["Relational"])
_cls_pred("sp_is_boolean", ["Boolean", "BooleanTrue", "BooleanFalse"])
_cls_pred("sp_is_true", ["BooleanTrue"])
_cls_pred("sp_is_false", ["BooleanFalse"])

contract(
    S + "fraction_numerator_is_nonzero", params={"expr": "Sym"}, ret="Bool",
)  # strengthened (denotational postcondition) and verified in c_schemes_den.py


@registry.spec("frac_nonzero")
def _frac_nonzero(ctx, st, g):
    return ctx.call_contract(registry.CONTRACTS[S + "fraction_numerator_is_nonzero"], [g], {}, st)


@registry.spec("Conditional")
def _Conditional(ctx, st, c, a, b):
    return ctx.call_contract(registry.CONTRACTS[T + "Conditional"], [c, a, b], {}, st)


# --- Rush-Larsen spec ------------------------------------------------------------------------------
defspec("rl_term", {"x": "Atom", "dt": "Sym", "delta": "Real"}, "Sym", """
def rl_term(x, dt, delta):
    lin = Symbol(x.name + "_linearized")
    RL = x.symbol / lin * (exp(lin * dt) - 1)
    if frac_nonzero(diff(x.expr, x.state.symbol)):
        return RL
    return Conditional(abs(lin) > delta, RL, dt * x.symbol)
""")

defspec("grl_stmts", {"x": "Atom", "dt": "Sym", "vname": "Name", "slot": "Int", "delta": "Real"}, "Seq[Stmt]", """
def grl_stmts(x, dt, vname, slot, delta):
    g = diff(x.expr, x.state.symbol)
    if is_zero(g):
        return [euler_stmt(x, dt, vname, slot)]
    lin = Symbol(x.name + "_linearized")
    return [Assign(lin, g, True), Assign(Indexed(vname, slot), x.state.symbol + rl_term(x, dt, delta), False)]
""")

defspec("grl_emit", {"SA": "Seq[Atom]", "dt": "Sym", "vname": "Name", "delta": "Real", "j": "Int"}, "Seq[Stmt]", """
def grl_emit(SA, dt, vname, delta, j):
    if j <= 0:
        return empty("Seq[Stmt]")
    x = SA[j - 1]
    head = grl_emit(SA, dt, vname, delta, j - 1) + [Assign(x.symbol, x.expr, True)]
    if is_sd(x):
        return head + grl_stmts(x, dt, vname, count_sd(SA, j - 1), delta)
    return head
""")

defspec("hybrid_emit", {"SA": "Seq[Atom]", "dt": "Sym", "vname": "Name", "delta": "Real", "stiff": "Set[Name]", "j": "Int"}, "Seq[Stmt]", """
def hybrid_emit(SA, dt, vname, delta, stiff, j):
    if j <= 0:
        return empty("Seq[Stmt]")
    x = SA[j - 1]
    head = hybrid_emit(SA, dt, vname, delta, stiff, j - 1) + [Assign(x.symbol, x.expr, True)]
    if is_sd(x):
        if x.state.name in stiff:
            return head + grl_stmts(x, dt, vname, count_sd(SA, j - 1), delta)
        return head + [euler_stmt(x, dt, vname, count_sd(SA, j - 1))]
    return head
""")

contract(
    S + "generalized_rush_larsen",
    params={"ode": "ODE", "dt": "Sym", "name": "Name", "printer": "Fn:printer", "remove_unused": "Bool", "delta": "Real"},
    ret="Seq[Stmt]", requires=["WF(ode)"],
    where={"SA": "ode.sorted_assignments(True, remove_unused)"},
    raises={"GotranxError": "maybe", "CycleError": "maybe", "KeyError": "maybe"},
    ensures={"result_is_grl_emit": "result == grl_emit(SA, dt, name, delta, len(SA))"},
    loops={0: {"invariant": {"eqs": "eqs == grl_emit(SA, dt, name, delta, k)", "slot": "i == count_sd(SA, k)"},
               "types": {"eqs": "Seq[Stmt]"}}},
    properties=("C06", "C04", "C12"),
)

defspec("stiff_set", {"stiff_states": "Opt[Seq[Name]]"}, "Set[Name]")

contract(
    S + "hybrid_rush_larsen",
    params={"ode": "ODE", "dt": "Sym", "name": "Name", "printer": "Fn:printer", "remove_unused": "Bool", "delta": "Real",
            "stiff_states": "Opt[Seq[Name]]"},
    ret="Seq[Stmt]", requires=["WF(ode)"],
    where={"SA": "ode.sorted_assignments(True, remove_unused)",
           "STIFF": "ite(stiff_states is None, empty('Set[Name]'), set(stiff_states))"},
    raises={"GotranxError": "maybe", "CycleError": "maybe", "KeyError": "maybe"},
    ensures={"result_is_hybrid_emit": "result == hybrid_emit(SA, dt, name, delta, STIFF, len(SA))"},
    loops={0: {"invariant": {"eqs": "eqs == hybrid_emit(SA, dt, name, delta, STIFF, k)", "slot": "i == count_sd(SA, k)"},
               "types": {"eqs": "Seq[Stmt]", "found_stiff_states_set": "Set[Name]"}}},
    properties=("C07", "C06", "C04", "C12"),
)
