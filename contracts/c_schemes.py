"""Contracts for gotranx/schemes.py (C05, C06, C07; slot part of C04; remove_unused forwarding of C12)."""
from __future__ import annotations

import z3

from pyvc import core, registry
from pyvc.core import SV, TBool, lift
from pyvc.registry import contract
from pyvc.verify import defspec
from .models import TStmt, Stmt, sym
from . import c_ode_iface  # noqa: F401


def make_callable(kind, name):
    """value of a parameter that is a callable with an (assumed) contract"""
    if kind == "printer":
        # printer_func protocol: printer(lhs, rhs, use_variable_prefix=False) -> str ; abstract value Assign(...)
        def printer(ctx, st, lhs, rhs, use_variable_prefix=False):
            return SV(TStmt, Stmt.Assign(sym(lhs).t, sym(rhs).t, lift(use_variable_prefix, TBool).t))
        return printer
    raise KeyError(kind)


registry.make_callable = make_callable

# --- spec: what one state derivative contributes ------------------------------------------------

defspec("euler_stmt", {"x": "Atom", "dt": "Sym", "vname": "Name", "slot": "Int"}, "Stmt", """
def euler_stmt(x, dt, vname, slot):
    return Assign(Indexed(vname, slot), x.state.symbol + dt * x.symbol, False)
""")

defspec("euler_emit", {"SA": "Seq[Atom]", "dt": "Sym", "vname": "Name", "j": "Int"}, "Seq[Stmt]", """
def euler_emit(SA, dt, vname, j):
    if j <= 0:
        return empty("Seq[Stmt]")
    x = SA[j - 1]
    head = euler_emit(SA, dt, vname, j - 1) + [Assign(x.symbol, x.expr, True)]
    if is_sd(x):
        return head + [euler_stmt(x, dt, vname, count_sd(SA, j - 1))]
    return head
""")

S = "gotranx.schemes."

contract(
    S + "explicit_euler",
    params={"ode": "ODE", "dt": "Sym", "name": "Name", "printer": "Fn:printer", "remove_unused": "Bool"},
    ret="Seq[Stmt]",
    where={"SA": "ode.sorted_assignments(True, remove_unused)"},
    raises={"GotranxError": "ode_has_none_value(ode)", "CycleError": "ode_cyclic(ode)"},
    ensures={"result_is_euler_emit": "result == euler_emit(SA, dt, name, len(SA))"},
    loops={0: {"invariant": {"eqs": "eqs == euler_emit(SA, dt, name, k)", "slot": "i == count_sd(SA, k)"},
               "types": {"eqs": "Seq[Stmt]"}}},
    properties=("C05", "C04", "C12"),
)
