"""Which functions, lemmas and bounded stand-ins decide which property."""
from . import lemmas as L

S = "gotranx.schemes."
B = "gotranx.codegen.base.CodeGenerator."
O = "gotranx.ode.ODE."
M = "gotranx.ode."
X = "gotranx.expressions."
T = "gotranx.sympytools."
U = "gotranx.cli.utils."
G = "gotranx.cli."
PP = "gotranx.codegen.python.GotranPythonCodePrinter."
OP = "gotranx.codegen.ode.BaseGotranODECodePrinter."
TP, TJ, TC = "gotranx.templates.python.", "gotranx.templates.jax.", "gotranx.templates.c."
PYG, CG = "gotranx.codegen.python.PythonCodeGenerator.", "gotranx.codegen.c.CCodeGenerator."

ACCESSORS = [O + "states", O + "parameters", O + "state_derivatives", O + "intermediates"]
SORTED = [M + "sort_assignments", O + "sorted_assignments", O + "sorted_state_derivatives", O + "sorted_states"]
UNPACK = [B + "_state_assignments", B + "_parameter_assignments", B + "_missing_variables_assignments", B + "__init__"]
INDEX = [B + "state_index", B + "parameter_index", B + "monitor_index", B + "missing_index",
         B + "initial_state_values", B + "initial_parameter_values"]
SCHEMES = [S + "explicit_euler", S + "generalized_rush_larsen", S + "hybrid_rush_larsen"]
EXPR = [X + "relational_to_piecewise", X + "binary_op", X + "unary_op", X + "build_expression.expr2symbols",
        T + "Conditional", T + "ContinuousConditional"]
PY_PRINT = [PP + n for n in ("_print_And", "_print_Or", "_print_Not", "_print_sign", "_print_Equality", "_print_Piecewise", "_print_Float", "_print_Mod")] \
    + ["frame:gotranx.codegen.python.GotranPythonCodePrinter"]
ODE_PRINT = [OP + n for n in ("_print_Relational", "_print_And", "_print_Or", "_print_Exp1", "_print_Piecewise")] \
    + ["frame:gotranx.codegen.ode.BaseGotranODECodePrinter", "gotranx.codegen.ode.print_ScalarParam", "gotranx.codegen.ode.print_assignment",
       "gotranx.codegen.ode.start_odeblock"]
PY_TMPL = [TP + n for n in ("state_index", "parameter_index", "monitor_index", "missing_index", "init_state_values",
                            "init_parameter_values", "method")]
C_TMPL = [TC + n for n in ("state_index", "parameter_index", "monitor_index", "missing_index", "method", "init_state_values", "init_parameter_values")]
J_TMPL = [TJ + n for n in ("method", "init_state_values", "init_parameter_values")]
ARGS = [PYG + "_rhs_arguments", PYG + "_scheme_arguments", CG + "_rhs_arguments", CG + "_scheme_arguments"]

PROPS = {
    "C01": dict(functions=EXPR + [B + "rhs"] + SORTED + UNPACK + PY_PRINT + [TP + "method"], lemmas=L.L1 + L.L2 + L.STAB + L.L3[:6]),
    "C02": dict(functions=[CG + "_rhs_arguments", CG + "_scheme_arguments", G + "gotran2c.get_code", B + "rhs", B + "monitor_values",
                           PP + "_print_Float", "gotranx.codegen.c.GotranCCodePrinter._print_Piecewise",
                           "gotranx.codegen.c.GotranCCodePrinter._print_Float", "gotranx.codegen.c.GotranCCodePrinter._print_Abs",
                           "gotranx.codegen.c.GotranCCodePrinter._print_Mod", "gotranx.codegen.c.bool_to_int",
                           "frame:gotranx.codegen.c.GotranCCodePrinter"] + C_TMPL, lemmas=[]),
    "C03": dict(functions=[B + "monitor_values", B + "missing_values", B + "rhs", B + "scheme"] + J_TMPL + [
                           PP + "_print_And", PP + "_print_Or", PP + "_print_Not", PP + "_print_sign",
                           "gotranx.codegen.jax.JaxPrinter._print_Assignment", "frame:gotranx.codegen.jax.JaxPrinter",
                           "frame:gotranx.codegen.python.GotranPythonCodePrinter"], lemmas=L.C13L),
    "C04": dict(functions=INDEX + [B + "rhs", B + "monitor_values", B + "scheme"] + SCHEMES + SORTED + ACCESSORS + UNPACK + ARGS
                + PY_TMPL + C_TMPL + J_TMPL + [T + "states_matrix"], lemmas=L.L1 + L.STAB + L.L3[:6]),
    "C05": dict(functions=[S + "explicit_euler", S + "get_scheme", B + "scheme", U + "add_schemes"] + UNPACK + SORTED, lemmas=L.L1 + L.STAB + L.L3[6:]),
    "C06": dict(functions=[S + "generalized_rush_larsen", S + "fraction_numerator_is_nonzero", T + "Conditional", S + "get_scheme",
                           B + "scheme", U + "add_schemes"] + SORTED, lemmas=L.STAB + L.C06L),
    "C07": dict(functions=[S + "hybrid_rush_larsen", S + "generalized_rush_larsen", S + "explicit_euler", S + "get_scheme",
                           U + "add_schemes", B + "scheme"] + SORTED, lemmas=[]),
    "C08": dict(functions=["gotranx.transformer.TreeToODE.ode", "gotranx.transformer._same_definition", M + "sort_assignments",
                           X + "build_expression.expr2symbols", M + "check_components", M + "ODE.__init__"]
                + ["gotranx.ode_component.BaseComponent." + n for n in ("is_complete", "states_with_derivatives", "states_without_derivatives", "find_state")]
                + ["gotranx.ode_component.Component._handle_assignments", "gotranx.atoms.Assignment.to_state_derivative",
                   "gotranx.atoms.Assignment.to_intermediate"], lemmas=L.C08L),
    "C09": dict(functions=[M + "sort_assignments", O + "sorted_assignments", O + "missing_variables", S + "get_scheme"] + ACCESSORS,
                lemmas=[]),
    "C10": dict(functions=["gotranx.transformer.TreeToODE.ode", O + "__eq__", O + "sorted_assignments", M + "sort_assignments"] + ACCESSORS, lemmas=[]),
    "C11": dict(functions=ODE_PRINT, lemmas=[], level="other",
                explanation="no obligation of this property is over all inputs: the .ode printer overrides are executed on bounded instances "
                            "(skeleton contracts), the class frame is syntactic, the rest is the bounded save/reload oracle"),
    "C12": dict(functions=[O + "sorted_assignments", O + "dependents", B + "__init__", B + "_state_assignments",
                           B + "_parameter_assignments", B + "rhs", B + "scheme", B + "missing_values"] + SCHEMES,
                lemmas=L.STAB + L.C12L + L.C13L),
    "C13": dict(functions=[O + "missing_variables", O + "dependents", B + "missing_index", B + "_missing_variables_assignments",
                           B + "missing_values", B + "rhs", B + "monitor_values", B + "scheme", TP + "missing_index", TC + "missing_index",
                           O + "__sub__", "gotranx.ode_component.BaseComponent.to_ode"],
                lemmas=L.C13L),
    "C14": dict(functions=PY_PRINT + [B + "_shape_info", TP + "method"], lemmas=[], level="other",
                explanation="only the text of the shape prologue (_shape_info) is proved for all inputs; elementwise printing is decided on "
                            "bounded instances of the printer overrides and by the bounded batch oracle"),
    "C16": dict(functions=["gotranx.atoms.remove_singularities", "gotranx.atoms.Singularity.is_infinite", "gotranx.atoms.Assignment.singularities", T + "Conditional"], lemmas=L.STAB + L.C16L),
    "C17": dict(functions=["gotranx.transformer.get_unit_and_comment_from_assignment", "gotranx.transformer.TreeToODE.ode"], lemmas=[]),
    "C18": dict(functions=[G + "ode2py", G + "ode2c", G + "convert", G + "gotran2py.main", G + "gotran2c.main",
                           G + "gotran2py.get_code", G + "gotran2c.get_code", U + "add_schemes", U + "validate_scheme"], lemmas=[]),
    "C19": dict(functions=[B + "is_reserved_name", "gotranx.codegen.jax.JaxCodeGenerator.is_reserved_name", B + "_check_reserved_names",
                           B + "__init__", B + "_shape_info#names", TP + "method", TJ + "method", TC + "method", "gotranx.codegen.c.bool_to_int"] + ARGS + SCHEMES, lemmas=L.C19L),
    "C20": dict(functions=[T + "states_matrix", T + "rhs_matrix", T + "jacobi_matrix", O + "sorted_states",
                           O + "sorted_state_derivatives"], lemmas=L.L1),
}
