"""Which functions, lemmas and bounded stand-ins decide which property."""
from . import lemmas as L

S = "gotranx.schemes."
B = "gotranx.codegen.base.CodeGenerator."

PROPS = {
    "C05": dict(
        functions=[S + "explicit_euler", B + "scheme", B + "_state_assignments", B + "_parameter_assignments", B + "__init__"],
        lemmas=L.L1,
    ),
}
