"""Which functions, lemmas and bounded stand-ins decide which property."""
from . import lemmas as L

S = "gotranx.schemes."
B = "gotranx.codegen.base.CodeGenerator."
O = "gotranx.ode.ODE."
M = "gotranx.ode."
X = "gotranx.expressions."
T = "gotranx.sympytools."
U = "gotranx.cli.utils."

ACCESSORS = [O + "states", O + "parameters", O + "state_derivatives", O + "intermediates"]
SORTED = [M + "sort_assignments", O + "sorted_assignments", O + "sorted_state_derivatives", O + "sorted_states"]
UNPACK = [B + "_state_assignments", B + "_parameter_assignments", B + "_missing_variables_assignments", B + "__init__"]
INDEX = [B + "state_index", B + "parameter_index", B + "monitor_index", B + "missing_index",
         B + "initial_state_values", B + "initial_parameter_values"]
SCHEMES = [S + "explicit_euler", S + "generalized_rush_larsen", S + "hybrid_rush_larsen"]

PROPS = {
    "C01": dict(
        functions=[X + "relational_to_piecewise", X + "binary_op", X + "unary_op", X + "build_expression.expr2symbols",
                   T + "Conditional", T + "ContinuousConditional", B + "rhs"] + SORTED + UNPACK,
        lemmas=L.L1,
        explanation="reference meaning T of the expression grammar proved against build_expression; emission of rhs proved against rhs_emit",
    ),
    "C04": dict(functions=INDEX + [B + "rhs", B + "monitor_values", B + "scheme"] + SCHEMES + SORTED + ACCESSORS + UNPACK,
                lemmas=L.L1 + L.STAB),
    "C05": dict(functions=[S + "explicit_euler", S + "get_scheme", B + "scheme", U + "add_schemes"] + UNPACK, lemmas=L.L1),
    "C06": dict(functions=[S + "generalized_rush_larsen", T + "Conditional", S + "get_scheme", B + "scheme", U + "add_schemes"],
                lemmas=[]),
    "C07": dict(functions=[S + "hybrid_rush_larsen", S + "generalized_rush_larsen", S + "explicit_euler", S + "get_scheme",
                           U + "add_schemes", B + "scheme"], lemmas=[]),
    "C09": dict(functions=[M + "sort_assignments", O + "sorted_assignments", O + "missing_variables", S + "get_scheme"] + ACCESSORS,
                lemmas=[]),
    "C12": dict(functions=[O + "sorted_assignments", O + "dependents", B + "__init__", B + "_state_assignments",
                           B + "_parameter_assignments", B + "rhs", B + "scheme"] + SCHEMES,
                lemmas=L.STAB + L.C12L),
    "C13": dict(functions=[O + "missing_variables", O + "dependents", B + "missing_index", B + "_missing_variables_assignments",
                           B + "rhs", B + "monitor_values", B + "scheme"], lemmas=[]),
    "C16": dict(functions=["gotranx.atoms.remove_singularities", T + "Conditional"], lemmas=L.STAB + L.C16L),
    "C20": dict(functions=[T + "states_matrix", T + "rhs_matrix", T + "jacobi_matrix", O + "sorted_states",
                           O + "sorted_state_derivatives"], lemmas=L.L1),
}
