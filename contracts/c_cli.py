"""Contracts for schemes.get_scheme and gotranx/cli (C05 aliases, C06/C07 option forwarding, C09 history, C18)."""
from __future__ import annotations

import z3

from pyvc import core, registry, values as V
from pyvc import interp as I
from pyvc.core import SV, TBool, TInt, TReal, TName, lift, EnumVal
from pyvc.registry import contract, external, CONTRACTS
from pyvc.values import FuncRef, Unsupported
from .models import enum_values
from . import c_base  # noqa: F401

S = "gotranx.schemes."
EULER = ["forward_euler", "forward_explicit_euler", "euler", "explicit_euler"]
GRL = ["forward_generalized_rush_larsen", "generalized_rush_larsen"]
HYB = ["forward_rush_larsen", "rush_larsen", "hybrid_rush_larsen"]


@registry.spec("scheme_target")
def _scheme_target(ctx, st, name):
    if name in EULER:
        return S + "explicit_euler"
    if name in GRL:
        return S + "generalized_rush_larsen"
    if name in HYB:
        return S + "hybrid_rush_larsen"
    return None


@registry.spec("func_dotted")
def _func_dotted(ctx, st, f):
    return f.dotted if isinstance(f, FuncRef) else None


@registry.spec("func_name")
def _func_name(ctx, st, f):
    return (f.co_name or f.dotted.rsplit(".", 1)[1]) if isinstance(f, FuncRef) else None


@registry.spec("no_global_effect")
def _no_global_effect(ctx, st):
    return len(ctx.global_effects) == 0


contract(
    S + "get_scheme", params={"scheme": "PyStr"}, ret="PyFunc",
    enum_params={"scheme": EULER + GRL + HYB + ["rk4", ""]},
    raises={"ValueError": "scheme_target(scheme) is None"},
    ensures={"alias_maps_to_scheme_function": "func_dotted(result) == scheme_target(scheme)",
             "emitted_name_is_the_requested_name": "func_name(result) == scheme",
             "does_not_modify_module_level_functions": "no_global_effect()"},
    properties=("C05", "C06", "C07", "C09"),
    ret_py=lambda ctx, st, env: FuncRef(_scheme_target(ctx, st, env["scheme"]), co_name=env["scheme"], fresh=True),
)

U = "gotranx.cli.utils."
_SCH = enum_values("Scheme")
_by = {e.member: e for e in _SCH}


@registry.spec("expected_schemes")
def _expected_schemes(ctx, st, codegen, scheme, delta, stiff_states):
    """one codegen.scheme(get_scheme(s.value), <options of that scheme>) per requested member, in order:
    delta is forwarded to the Rush-Larsen schemes, stiff_states to the hybrid scheme"""
    out = []
    for s in (scheme or []):
        v = s.value
        kw = {}
        if "rush_larsen" in v:
            kw["delta"] = delta
        if v == "hybrid_rush_larsen":
            kw["stiff_states"] = stiff_states
        target = _scheme_target(ctx, st, v)
        f = FuncRef(target, co_name=v, fresh=True)
        out.append(ctx.call_contract(CONTRACTS[c_base.B + "scheme"], [codegen, f], dict(kw), st))
    return out


contract(
    U + "add_schemes",
    params={"codegen": "CG", "scheme": "PyList", "delta": "Real", "stiff_states": "Opt[Seq[Name]]"}, ret="PyList",
    requires=["WF(codegen.ode)"],
    enum_params={"scheme": [None, []] + [[m] for m in _SCH] + [[_by["explicit_euler"], _by["hybrid_rush_larsen"]],
                                                               [_by["generalized_rush_larsen"], _by["generalized_rush_larsen"]]]},
    raises={"GotranxError": "maybe", "CycleError": "maybe", "KeyError": "maybe"},
    ensures={"one_scheme_per_member_with_its_options": "result == expected_schemes(codegen, scheme, delta, stiff_states)"},
    properties=("C05", "C06", "C07", "C18"),
    note="exhaustive over single members; two 2-element lists stand for longer lists (bounded in the list length)",
)

contract(
    U + "validate_scheme", params={"scheme": "PyList"}, ret="PyList",
    enum_params={"scheme": [[], ["explicit_euler"], [_by["hybrid_rush_larsen"], "generalized_rush_larsen"], ["nonsense"]]},
    raises={"ValueError": "any(not is_scheme_name(s) for s in scheme)"},
    ensures={"members": "result == [as_scheme(s) for s in scheme]"},
    properties=("C18",),
)


@registry.spec("is_scheme_name")
def _is_scheme_name(ctx, st, s):
    return isinstance(s, EnumVal) or any(s == e.value for e in _SCH)


@registry.spec("as_scheme")
def _as_scheme(ctx, st, s):
    if isinstance(s, EnumVal):
        return s
    return [e for e in _SCH if e.value == s][0]

# ----------------------------------------------------------------------------------------------- C18: command line
from pyvc.core import Record  # noqa: E402
from pyvc.values import BoundMethod, py_eq, zbool  # noqa: E402

PATHW = core.uf("Path.with_suffix", TName.sort(), TName.sort(), TName.sort())


def mkpath(p):
    return Record("Path", {"p": lift(p, TName)})


core.RECORDS["Path"] = {"p": "Name"}


@external("pathlib.Path")
def _Path(ctx, st, x):
    ctx.assumed_used.add("pathlib.Path: with_suffix is a function of (path, suffix); write_text is the only write")
    if isinstance(x, Record) and x.cls == "Path":
        return x
    return mkpath(x)


def _with_suffix(ctx, st, rec):
    def impl(c, s, suffix=None):
        return Record("Path", {"p": SV(TName, PATHW(rec.fields["p"].t, lift(suffix, TName).t))})
    return BoundMethod(rec, "with_suffix", impl)


def _write_text(ctx, st, rec):
    def impl(c, s, text):
        s.env["__trace__"] = s.env.get("__trace__", ()) + (("write_text", {"path": rec.fields["p"], "text": text}),)
        return None
    return BoundMethod(rec, "write_text", impl)


registry.EXTERNALS["Path.with_suffix"] = _with_suffix
registry.EXTERNALS["Path.write_text"] = _write_text
registry.EXTERNALS["Path.suffix"] = lambda ctx, st, rec: SV(TName, core.uf("Path.suffix", TName.sort(), TName.sort())(rec.fields["p"].t))
registry.EXTERNALS["Path.exists"] = lambda ctx, st, rec: BoundMethod(rec, "exists", lambda c, s: SV(TBool, core.uf("Path.exists", TName.sort(), z3.BoolSort())(rec.fields["p"].t)))


@registry.spec("TRACE")
def _TRACE(ctx, st):
    return st.env.get("__trace__", ())


def _same_value(a, b):
    r = py_eq(a, b)
    if isinstance(r, SV):
        return r.t
    return z3.BoolVal(bool(r))


@registry.spec("trace_is")
def _trace_is(ctx, st, expected):
    """the ghost trace of external/contract calls equals `expected`: a list of (name, {arg: value})"""
    tr = st.env.get("__trace__", ())
    if len(tr) != len(expected):
        return False
    parts = []
    for (n1, a1), (n2, a2) in zip(tr, expected):
        if n1 != n2 and not n1.endswith("." + n2):
            return False
        for k, v in a2.items():
            if k not in a1:
                return False
            parts.append(_same_value(a1[k], v))
    return SV(TBool, z3.And(*parts)) if parts else True


@registry.spec("no_write")
def _no_write(ctx, st):
    return all(n != "write_text" for n, _ in st.env.get("__trace__", ()))


@registry.spec("out_path")
def _out_path(ctx, st, fname, outname, suffix):
    base = fname.fields["p"] if outname is None else lift(outname, TName)
    return SV(TName, PATHW(base.t, lift(suffix, TName).t))


G = "gotranx.cli."
contract("gotranx.load.load_ode", params={"path": "Rec:Path"}, ret="ODE", raises={"ODEFileNotFound": "maybe", "GotranxError": "maybe", "Exception": "maybe"},
         traced=True, assumed=True, pure=False, ensures={"wf": "WF(result)"},
         note="load_ode is outside this contract set (lark + transformer + make_ode): assumed to return a WF model or raise")

_PYF = enum_values("PythonFormat")
_CF = enum_values("CFormat")
_BK = enum_values("Backend")
_schemes2 = [None, [], [_by["explicit_euler"], _by["hybrid_rush_larsen"]]]
_outname = core.fresh(TName, "outname")
_stiff = [None, [], ["V"]]

contract(G + "gotran2py.get_code",
         params={"ode": "ODE", "scheme": "PyList", "format": "Enum:PythonFormat", "remove_unused": "Bool", "missing_values": "any",
                 "delta": "Real", "stiff_states": "any", "backend": "Enum:Backend", "shape": "any"},
         ret="Text", raises={"Exception": "maybe"}, traced=True, assumed=True, pure=False,
         note="interface used by gotran2py.main; the body is verified under the name gotran2py.get_code@body")
contract(G + "gotran2c.get_code",
         params={"ode": "ODE", "scheme": "PyList", "format": "Enum:CFormat", "remove_unused": "Bool", "missing_values": "any",
                 "delta": "Real", "stiff_states": "any"},
         ret="Text", raises={"Exception": "maybe"}, traced=True, assumed=True, pure=False)

contract(
    G + "gotran2py.main",
    params={"fname": "Rec:Path", "outname": "any", "format": "Enum:PythonFormat", "scheme": "PyList", "remove_unused": "Bool",
            "verbose": "Bool", "stiff_states": "any", "delta": "Real", "suffix": "Name", "backend": "Enum:Backend"},
    ret="PyNone", raises={"Exception": "maybe", "ODEFileNotFound": "maybe", "GotranxError": "maybe"},
    enum_params={"outname": [None, _outname], "format": _PYF[:2], "scheme": _schemes2, "stiff_states": _stiff, "backend": _BK},
    ensures={"loads_generates_then_writes_exactly_the_generated_text":
             "trace_is([('load_ode', {'path': fname}), "
             "('gotran2py.get_code', {'scheme': scheme, 'format': format, 'remove_unused': remove_unused, 'stiff_states': stiff_states, "
             "'delta': delta, 'backend': backend}), "
             "('write_text', {'path': out_path(fname, outname, suffix), 'text': code})])"},
    on_raise={"no_output_file_on_failure": "no_write()"},
    properties=("C18",),
)
contract(
    G + "gotran2c.main",
    params={"fname": "Rec:Path", "suffix": "Name", "outname": "any", "scheme": "PyList", "remove_unused": "Bool",
            "format": "Enum:CFormat", "verbose": "Bool", "missing_values": "any", "delta": "Real", "stiff_states": "any"},
    ret="PyNone", raises={"Exception": "maybe", "ODEFileNotFound": "maybe", "GotranxError": "maybe"},
    enum_params={"outname": [None, _outname], "format": _CF, "scheme": _schemes2, "stiff_states": _stiff, "missing_values": [None]},
    ensures={"loads_generates_then_writes_exactly_the_generated_text":
             "trace_is([('load_ode', {'path': fname}), "
             "('gotran2c.get_code', {'scheme': scheme, 'format': format, 'remove_unused': remove_unused, 'stiff_states': stiff_states, "
             "'delta': delta, 'missing_values': missing_values}), "
             "('write_text', {'path': out_path(fname, outname, suffix), 'text': code})])"},
    on_raise={"no_output_file_on_failure": "no_write()"},
    properties=("C18",),
)

CONTRACTS[U + "validate_scheme"].ret_py = lambda ctx, st, env: [_as_scheme(ctx, st, s) for s in env["scheme"]]
CONTRACTS[G + "gotran2py.main"].traced = True
CONTRACTS[G + "gotran2c.main"].traced = True

_fname = mkpath(core.fresh(TName, "fname").t if False else core.fresh(TName, "fname"))
_CONFIGS = [
    {},
    {"verbose": True, "delta": 0.5, "stiff_states": ["m"], "scheme": ["hybrid_rush_larsen"],
     "python": {"format": "none", "backend": "jax"}, "c": {"to": ".c", "format": "none"}},
    # legal values that happen to be falsy: they override the command line like any other value
    {"verbose": False, "delta": 0.0, "stiff_states": [], "scheme": []},
]
_CMD_COMMON = dict(
    ret="PyNone", raises={"Exception": "maybe", "ValueError": "maybe", "ODEFileNotFound": "maybe", "GotranxError": "maybe"},
    abstractions={"utils.read_config(config)": "CONFIG"},
)
_CMD_ENUM = {"fname": [None, _fname], "outname": [None, _outname], "version": [None], "license": [None], "config": [None],
             "scheme": [[], [_by["generalized_rush_larsen"]]], "stiff_states": [[], ["V"]], "CONFIG": _CONFIGS}

contract(
    G + "ode2py",
    params={"fname": "any", "outname": "any", "remove_unused": "Bool", "version": "any", "license": "any", "config": "any",
            "verbose": "Bool", "scheme": "PyList", "stiff_states": "any", "delta": "Real", "format": "Enum:PythonFormat",
            "backend": "Enum:Backend", "CONFIG": "any"},
    enum_params=dict(_CMD_ENUM, format=_PYF[:2], backend=_BK),
    ensures={"every_option_is_forwarded_config_file_overrides_the_command_line":
             "trace_is([] if fname is None else [('gotran2py.main', {'fname': fname, 'outname': outname, "
             "'scheme': [as_scheme(s) for s in CONFIG.get('scheme', scheme)], 'remove_unused': remove_unused, "
             "'verbose': CONFIG.get('verbose', verbose), 'stiff_states': CONFIG.get('stiff_states', stiff_states), "
             "'delta': CONFIG.get('delta', delta), 'format': PythonFormat(CONFIG.get('python', {}).get('format', format)), "
             "'backend': Backend(CONFIG.get('python', {}).get('backend', backend))})])"},
    properties=("C18",), **_CMD_COMMON,
)
contract(
    G + "ode2c",
    params={"fname": "any", "to": "Name", "outname": "any", "remove_unused": "Bool", "version": "any", "license": "any",
            "config": "any", "verbose": "Bool", "scheme": "PyList", "stiff_states": "any", "delta": "Real",
            "format": "Enum:CFormat", "CONFIG": "any"},
    enum_params=dict(_CMD_ENUM, format=_CF),
    ensures={"every_option_is_forwarded_config_file_overrides_the_command_line":
             "trace_is([] if fname is None else [('gotran2c.main', {'fname': fname, 'outname': outname, "
             "'suffix': CONFIG.get('c', {}).get('to', to), "
             "'scheme': [as_scheme(s) for s in CONFIG.get('scheme', scheme)], 'remove_unused': remove_unused, "
             "'verbose': CONFIG.get('verbose', verbose), 'stiff_states': CONFIG.get('stiff_states', stiff_states), "
             "'delta': CONFIG.get('delta', delta), 'format': CFormat(CONFIG.get('c', {}).get('format', format))})])"},
    properties=("C18",), **_CMD_COMMON,
)
registry.SPECS["PythonFormat"] = lambda ctx, st, v: ctx.construct(I.ClassRef("gotranx.codegen.python.Format"), [v], {}, st)
registry.SPECS["CFormat"] = lambda ctx, st, v: ctx.construct(I.ClassRef("gotranx.codegen.c.Format"), [v], {}, st)
registry.SPECS["Backend"] = lambda ctx, st, v: ctx.construct(I.ClassRef("gotranx.cli.gotran2py.Backend"), [v], {}, st)
for _q in (G + "gotran2py.main", G + "gotran2c.main"):
    CONTRACTS[_q].internal.update(CONTRACTS[_q].ensures)
    CONTRACTS[_q].ensures.clear()

# ---- Path.suffix of a literal path is computed; convert / cellml2ode ---------------------------------------
import pathlib  # noqa: E402


def _suffix(ctx, st, rec):
    p = rec.fields["p"]
    for lit_text, term in core._LITS.items():
        if term.eq(p.t):
            return pathlib.PurePosixPath(lit_text).suffix
    return SV(TName, core.uf("Path.suffix", TName.sort(), TName.sort())(p.t))


registry.EXTERNALS["Path.suffix"] = _suffix

contract(G + "cellml2ode.main", params={"fname": "Rec:Path", "outname": "any", "verbose": "Bool"}, ret="PyNone",
         raises={"Exception": "maybe", "AssertionError": "maybe"}, traced=True, assumed=True, pure=False,
         note="interface; the body is a thin wrapper around myokit (C15), checked by the bounded oracle")

_C_SET, _PY_SET = {".c", ".h", "c"}, {".py", "python", "py"}


@registry.spec("convert_expected")
def _convert_expected(ctx, st, fname, to, outname, remove_unused, jax, verbose, scheme, stiff_states, delta):
    if fname is None:
        return []
    if to == "":
        if outname is None:
            return []
        to = pathlib.PurePosixPath(outname).suffix
    common = {"fname": fname, "outname": outname, "scheme": scheme, "remove_unused": remove_unused,
              "verbose": verbose, "stiff_states": stiff_states, "delta": delta}
    out = []
    if to in _C_SET:
        out.append(("gotran2c.main", dict(common, suffix=".c" if to == "c" else to)))  # the suffix is always a valid file suffix
    if to in _PY_SET:
        bk = ctx.ev_contract_expr("ite(jax, 'jax', 'numpy')", I.State({"jax": jax}, st.pc, st.decisions, st.assumed))
        out.append(("gotran2py.main", dict(common, backend=bk, suffix=".py")))
    if to in {".ode"}:
        out.append(("cellml2ode.main", {"fname": fname, "outname": outname, "verbose": verbose}))
    return out


contract(
    G + "convert",
    params={"fname": "any", "to": "PyStr", "outname": "any", "remove_unused": "Bool", "jax": "Bool", "version": "any",
            "license": "any", "verbose": "Bool", "scheme": "PyList", "stiff_states": "any", "delta": "Real"},
    ret="PyNone", raises={"Exception": "maybe", "ValueError": "maybe", "ODEFileNotFound": "maybe", "GotranxError": "maybe", "AssertionError": "maybe"},
    enum_params={"fname": [None, _fname], "to": ["", ".c", ".h", "c", ".py", "python", "py", ".ode", ".f90"],
                 "outname": [None, "out.py", "model.h"], "version": [None], "license": [None],
                 "scheme": [None, [_by["generalized_rush_larsen"]]], "stiff_states": [None, ["V"]]},
    ensures={"dispatches_on_target_and_forwards_every_option":
             "trace_is(convert_expected(fname, to, outname, remove_unused, jax, verbose, scheme, stiff_states, delta))"},
    properties=("C18",),
)

# ---- get_code bodies -------------------------------------------------------------------------------------
from .models import TText, TCode  # noqa: E402
from pyvc.core import TSeq  # noqa: E402

_prev_join = registry.EXTERNALS["__join__"]


def _join2(ctx, st, sep, xs):
    if isinstance(xs, (list, tuple)) and any(isinstance(x, SV) and x.ty == TText for x in xs):
        # a module is read as the *set* of its top-level parts: the order of independent definitions carries no meaning
        from pyvc.core import TSet
        st_ = z3.K(TText.sort(), z3.BoolVal(False))
        for x in xs:
            st_ = z3.Store(st_, lift(x, TText).t, z3.BoolVal(True))
        return SV(TText, core.uf("Text.module", TName.sort(), TSet(TText).sort(), TText.sort())(core.name_lit(sep), st_))
    return _prev_join(ctx, st, sep, xs)


registry.EXTERNALS["__join__"] = _join2

for _cls, _bk in (("gotranx.codegen.python.PythonCodeGenerator", "numpy"), ("gotranx.codegen.jax.JaxCodeGenerator", "jax")):
    contract(_cls + ".__init__", params={"ode": "ODE", "format": "Enum:PythonFormat", "remove_unused": "Bool", "shape": "Name"},
             ret="CG", assumed=True, raises={"GotranxError": "maybe"},
             ensures={"fields": "result.ode == ode and result.remove_unused == remove_unused and result._shape == shape"},
             note="constructor of the backend generator: CodeGenerator.__init__ (verified) plus printer/formatter selection (assumed)")
    registry.CLASS_OF[_cls] = "CG"
contract("gotranx.codegen.c.CCodeGenerator.__init__", params={"ode": "ODE", "format": "Enum:CFormat", "remove_unused": "Bool"},
         ret="CG", assumed=True, raises={"GotranxError": "maybe"},
         ensures={"fields": "result.ode == ode and result.remove_unused == remove_unused and result._shape == 'dynamic'"})
registry.CLASS_OF["gotranx.codegen.c.CCodeGenerator"] = "CG"
contract(c_base.B + "imports", params={"self": "CG"}, ret="Text", assumed=True)


class Formatter:
    def __init__(self, fmt):
        self.fmt = fmt


def _get_formatter(ctx, st, format=None):
    ctx.assumed_used.add("get_formatter(format): black / ruff / clang-format are assumed to preserve meaning; Format.none is the identity")
    return Formatter(format)


registry.EXTERNALS["gotranx.codegen.python.get_formatter"] = _get_formatter
registry.EXTERNALS["gotranx.codegen.c.get_formatter"] = _get_formatter
_orig_call2 = I.Interp.call


def _call2(self, f, args, kwargs, st, node=None):
    if isinstance(f, Formatter):
        (code,) = args
        return formatted(f.fmt, code)
    return _orig_call2(self, f, args, kwargs, st, node)


I.Interp.call = _call2


def formatted(fmt, code):
    return SV(TText, core.uf("apply_formatter", TName.sort(), TText.sort(), TText.sort())(lift(fmt.value, TName).t, lift(code, TText).t))


CONTRACTS[U + "add_schemes"].ret_py = lambda ctx, st, env: _expected_schemes(ctx, st, env["codegen"], env["scheme"], env["delta"], env["stiff_states"])


@registry.spec("expected_module")
def _expected_module(ctx, st, gen_cls, ode, scheme, format, remove_unused, missing_values, delta, stiff_states, shape, header=()):
    """the module text the API produces: the parts in their documented order, every option reaching the generator"""
    none_fmt = [e for e in (_PYF if "python" in gen_cls or "jax" in gen_cls else _CF) if e.member == "none"][0]
    kw = {"format": none_fmt, "remove_unused": remove_unused}
    if shape is not None:
        kw["shape"] = shape
    cg = ctx.call_contract(CONTRACTS[gen_cls + ".__init__"], [ode], kw, st)

    def m(name, *a, **k):
        return ctx.call_contract(CONTRACTS[c_base.B + name], [cg] + list(a), k, st)

    mv = m("missing_values", missing_values) if missing_values is not None else ""
    parts = [m("imports")] + list(header) + [
        m("parameter_index"), m("state_index"), m("monitor_index"), m("missing_index"),
        m("initial_parameter_values"), m("initial_state_values"), m("rhs"), m("monitor_values"), mv,
    ] + _expected_schemes(ctx, st, cg, scheme, delta, stiff_states)
    code = m("_format", _join2(ctx, st, "\n", parts))
    if format != none_fmt:
        code = formatted(format, code)
    return code


_mvals = core.fresh(core.parse_ty("Dict[Name,Int]"), "missing_values")
_SHAPES = [e.value for e in enum_values("Shape")]
contract(
    G + "gotran2py.get_code@body", params={}, assumed=True)  # placeholder so that the name is documented
del CONTRACTS[G + "gotran2py.get_code@body"]

_gc = CONTRACTS[G + "gotran2py.get_code"]
_gc.assumed = False
_gc.requires = ["WF(ode)"]
_gc.raises = {"Exception": "maybe", "GotranxError": "maybe", "CycleError": "maybe", "KeyError": "maybe", "ValueError": "maybe", "TypeError": "maybe"}
_gc.params = {"ode": "ODE", "scheme": "PyList", "format": "Enum:PythonFormat", "remove_unused": "Bool", "missing_values": "any",
              "delta": "Real", "stiff_states": "Opt[Seq[Name]]", "backend": "Enum:Backend", "shape": "PyStr"}
_gc.enum_params = {"scheme": [None, [_by["explicit_euler"], _by["hybrid_rush_larsen"]]], "format": _PYF[:1] + _PYF[-1:],
                   "missing_values": [None, _mvals], "backend": _BK, "shape": [_SHAPES[0], _SHAPES[-1]]}
_gc.internal["module_has_every_part_with_every_option_forwarded"] = (
    "result == expected_module('gotranx.codegen.python.PythonCodeGenerator' if backend == 'numpy' else 'gotranx.codegen.jax.JaxCodeGenerator', "
    "ode, scheme, format, remove_unused, missing_values, delta, stiff_states, shape)")
_gc.properties = ("C18", "C12", "C05")
_gc.enum_cover = True

core.COERCIONS[(repr(TName), repr(TText))] = lambda v: SV(TText, core.uf("Text.of_name", TName.sort(), TText.sort())(v.t))

_gcc = CONTRACTS[G + "gotran2c.get_code"]
_gcc.assumed = False
_gcc.requires = ["WF(ode)"]
_gcc.raises = dict(_gc.raises)
_gcc.params = {"ode": "ODE", "scheme": "PyList", "format": "Enum:CFormat", "remove_unused": "Bool", "missing_values": "any",
               "delta": "Real", "stiff_states": "Opt[Seq[Name]]"}
_gcc.enum_params = {"scheme": [None, [_by["explicit_euler"], _by["hybrid_rush_larsen"]]], "format": _CF, "missing_values": [None, _mvals]}
_gcc.enum_cover = True
_gcc.internal["module_has_every_part_with_every_option_forwarded"] = (
    "result == expected_module('gotranx.codegen.c.CCodeGenerator', ode, scheme, format, remove_unused, missing_values, delta, "
    "stiff_states, None, [f'int NUM_STATES = {len(ode.states)};', f'int NUM_PARAMS = {len(ode.parameters)};', "
    "f'int NUM_MONITORED = {len(ode.state_derivatives) + len(ode.intermediates)};'])")
_gcc.properties = ("C18", "C02", "C04")

# the option spaces are products of independent choices: a covering set of variants (every value of every option at
# least twice, in two different alignments) instead of the full product keeps the quick tier fast
for _q in (G + "ode2py", G + "ode2c", G + "convert", G + "gotran2py.main", G + "gotran2c.main"):
    CONTRACTS[_q].enum_cover = True
