"""Contracts for schemes.get_scheme and gotranx/cli (C05 aliases, C06/C07 option forwarding, C09 history, C18)."""
from __future__ import annotations

import z3

from pyvc import core, registry, values as V
from pyvc import interp as I
from pyvc.core import SV, TBool, TInt, TReal, TName, lift, EnumVal
from pyvc.registry import contract, external, CONTRACTS
from pyvc.values import FuncRef, Unsupported
from .models import enum_values
from . import c_base  # noqa: F401

S = "gotranx.schemes."
EULER = ["forward_euler", "forward_explicit_euler", "euler", "explicit_euler"]
GRL = ["forward_generalized_rush_larsen", "generalized_rush_larsen"]
HYB = ["forward_rush_larsen", "rush_larsen", "hybrid_rush_larsen"]


@registry.spec("scheme_target")
def _scheme_target(ctx, st, name):
    if name in EULER:
        return S + "explicit_euler"
    if name in GRL:
        return S + "generalized_rush_larsen"
    if name in HYB:
        return S + "hybrid_rush_larsen"
    return None


@registry.spec("func_dotted")
def _func_dotted(ctx, st, f):
    return f.dotted if isinstance(f, FuncRef) else None


@registry.spec("func_name")
def _func_name(ctx, st, f):
    return (f.co_name or f.dotted.rsplit(".", 1)[1]) if isinstance(f, FuncRef) else None


@registry.spec("no_global_effect")
def _no_global_effect(ctx, st):
    return len(ctx.global_effects) == 0


contract(
    S + "get_scheme", params={"scheme": "PyStr"}, ret="PyFunc",
    enum_params={"scheme": EULER + GRL + HYB + ["rk4", ""]},
    raises={"ValueError": "scheme_target(scheme) is None"},
    ensures={"alias_maps_to_scheme_function": "func_dotted(result) == scheme_target(scheme)",
             "emitted_name_is_the_requested_name": "func_name(result) == scheme",
             "does_not_modify_module_level_functions": "no_global_effect()"},
    properties=("C05", "C06", "C07", "C09"),
    ret_py=lambda ctx, st, env: FuncRef(_scheme_target(ctx, st, env["scheme"]), co_name=env["scheme"], fresh=True),
)

U = "gotranx.cli.utils."
_SCH = enum_values("Scheme")
_by = {e.member: e for e in _SCH}


@registry.spec("expected_schemes")
def _expected_schemes(ctx, st, codegen, scheme, delta, stiff_states):
    """one codegen.scheme(get_scheme(s.value), <options of that scheme>) per requested member, in order:
    delta is forwarded to the Rush-Larsen schemes, stiff_states to the hybrid scheme"""
    out = []
    for s in (scheme or []):
        v = s.value
        kw = {}
        if "rush_larsen" in v:
            kw["delta"] = delta
        if v == "hybrid_rush_larsen":
            kw["stiff_states"] = stiff_states
        target = _scheme_target(ctx, st, v)
        f = FuncRef(target, co_name=v, fresh=True)
        out.append(ctx.call_contract(CONTRACTS[c_base.B + "scheme"], [codegen, f], dict(kw), st))
    return out


contract(
    U + "add_schemes",
    params={"codegen": "CG", "scheme": "PyList", "delta": "Real", "stiff_states": "Opt[Seq[Name]]"}, ret="PyList",
    requires=["WF(codegen.ode)"],
    enum_params={"scheme": [None, []] + [[m] for m in _SCH] + [[_by["explicit_euler"], _by["hybrid_rush_larsen"]],
                                                               [_by["generalized_rush_larsen"], _by["generalized_rush_larsen"]]]},
    raises={"GotranxError": "maybe", "CycleError": "maybe", "KeyError": "maybe"},
    ensures={"one_scheme_per_member_with_its_options": "result == expected_schemes(codegen, scheme, delta, stiff_states)"},
    properties=("C05", "C06", "C07", "C18"),
    note="exhaustive over single members; two 2-element lists stand for longer lists (bounded in the list length)",
)

contract(
    U + "validate_scheme", params={"scheme": "PyList"}, ret="PyList",
    enum_params={"scheme": [[], ["explicit_euler"], [_by["hybrid_rush_larsen"], "generalized_rush_larsen"], ["nonsense"]]},
    raises={"ValueError": "any(not is_scheme_name(s) for s in scheme)"},
    ensures={"members": "result == [as_scheme(s) for s in scheme]"},
    properties=("C18",),
)


@registry.spec("is_scheme_name")
def _is_scheme_name(ctx, st, s):
    return isinstance(s, EnumVal) or any(s == e.value for e in _SCH)


@registry.spec("as_scheme")
def _as_scheme(ctx, st, s):
    if isinstance(s, EnumVal):
        return s
    return [e for e in _SCH if e.value == s][0]
