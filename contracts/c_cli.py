"""Contracts for schemes.get_scheme and gotranx/cli (C05 aliases, C06/C07 option forwarding, C09 history, C18)."""
from __future__ import annotations

import z3

from pyvc import core, registry, values as V
from pyvc import interp as I
from pyvc.core import SV, TBool, TInt, TReal, TName, lift, EnumVal
from pyvc.registry import contract, external, CONTRACTS
from pyvc.values import FuncRef, Unsupported
from .models import enum_values
from . import c_base  # noqa: F401

S = "gotranx.schemes."
EULER = ["forward_euler", "forward_explicit_euler", "euler", "explicit_euler"]
GRL = ["forward_generalized_rush_larsen", "generalized_rush_larsen"]
HYB = ["forward_rush_larsen", "rush_larsen", "hybrid_rush_larsen"]


@registry.spec("scheme_target")
def _scheme_target(ctx, st, name):
    if name in EULER:
        return S + "explicit_euler"
    if name in GRL:
        return S + "generalized_rush_larsen"
    if name in HYB:
        return S + "hybrid_rush_larsen"
    return None


@registry.spec("func_dotted")
def _func_dotted(ctx, st, f):
    return f.dotted if isinstance(f, FuncRef) else None


@registry.spec("func_name")
def _func_name(ctx, st, f):
    return (f.co_name or f.dotted.rsplit(".", 1)[1]) if isinstance(f, FuncRef) else None


@registry.spec("no_global_effect")
def _no_global_effect(ctx, st):
    return len(ctx.global_effects) == 0


contract(
    S + "get_scheme", params={"scheme": "PyStr"}, ret="PyFunc",
    enum_params={"scheme": EULER + GRL + HYB + ["rk4", ""]},
    raises={"ValueError": "scheme_target(scheme) is None"},
    ensures={"alias_maps_to_scheme_function": "func_dotted(result) == scheme_target(scheme)",
             "emitted_name_is_the_requested_name": "func_name(result) == scheme",
             "does_not_modify_module_level_functions": "no_global_effect()"},
    properties=("C05", "C06", "C07", "C09"),
    ret_py=lambda ctx, st, env: FuncRef(_scheme_target(ctx, st, env["scheme"]), co_name=env["scheme"], fresh=True),
)

U = "gotranx.cli.utils."
_SCH = enum_values("Scheme")
_by = {e.member: e for e in _SCH}


@registry.spec("expected_schemes")
def _expected_schemes(ctx, st, codegen, scheme, delta, stiff_states):
    """one codegen.scheme(get_scheme(s.value), <options of that scheme>) per requested member, in order:
    delta is forwarded to the Rush-Larsen schemes, stiff_states to the hybrid scheme"""
    out = []
    for s in (scheme or []):
        v = s.value
        kw = {}
        if "rush_larsen" in v:
            kw["delta"] = delta
        if v == "hybrid_rush_larsen":
            kw["stiff_states"] = stiff_states
        target = _scheme_target(ctx, st, v)
        f = FuncRef(target, co_name=v, fresh=True)
        out.append(ctx.call_contract(CONTRACTS[c_base.B + "scheme"], [codegen, f], dict(kw), st))
    return out


contract(
    U + "add_schemes",
    params={"codegen": "CG", "scheme": "PyList", "delta": "Real", "stiff_states": "Opt[Seq[Name]]"}, ret="PyList",
    requires=["WF(codegen.ode)"],
    enum_params={"scheme": [None, []] + [[m] for m in _SCH] + [[_by["explicit_euler"], _by["hybrid_rush_larsen"]],
                                                               [_by["generalized_rush_larsen"], _by["generalized_rush_larsen"]]]},
    raises={"GotranxError": "maybe", "CycleError": "maybe", "KeyError": "maybe"},
    ensures={"one_scheme_per_member_with_its_options": "result == expected_schemes(codegen, scheme, delta, stiff_states)"},
    properties=("C05", "C06", "C07", "C18"),
    note="exhaustive over single members; two 2-element lists stand for longer lists (bounded in the list length)",
)

contract(
    U + "validate_scheme", params={"scheme": "PyList"}, ret="PyList",
    enum_params={"scheme": [[], ["explicit_euler"], [_by["hybrid_rush_larsen"], "generalized_rush_larsen"], ["nonsense"]]},
    raises={"ValueError": "any(not is_scheme_name(s) for s in scheme)"},
    ensures={"members": "result == [as_scheme(s) for s in scheme]"},
    properties=("C18",),
)


@registry.spec("is_scheme_name")
def _is_scheme_name(ctx, st, s):
    return isinstance(s, EnumVal) or any(s == e.value for e in _SCH)


@registry.spec("as_scheme")
def _as_scheme(ctx, st, s):
    if isinstance(s, EnumVal):
        return s
    return [e for e in _SCH if e.value == s][0]

# ----------------------------------------------------------------------------------------------- C18: command line
from pyvc.core import Record  # noqa: E402
from pyvc.values import BoundMethod, py_eq, zbool  # noqa: E402

PATHW = core.uf("Path.with_suffix", TName.sort(), TName.sort(), TName.sort())


def mkpath(p):
    return Record("Path", {"p": lift(p, TName)})


core.RECORDS["Path"] = {"p": "Name"}


@external("pathlib.Path")
def _Path(ctx, st, x):
    ctx.assumed_used.add("pathlib.Path: with_suffix is a function of (path, suffix); write_text is the only write")
    if isinstance(x, Record) and x.cls == "Path":
        return x
    return mkpath(x)


def _with_suffix(ctx, st, rec):
    def impl(c, s, suffix=None):
        return Record("Path", {"p": SV(TName, PATHW(rec.fields["p"].t, lift(suffix, TName).t))})
    return BoundMethod(rec, "with_suffix", impl)


def _write_text(ctx, st, rec):
    def impl(c, s, text):
        s.env["__trace__"] = s.env.get("__trace__", ()) + (("write_text", {"path": rec.fields["p"], "text": text}),)
        return None
    return BoundMethod(rec, "write_text", impl)


registry.EXTERNALS["Path.with_suffix"] = _with_suffix
registry.EXTERNALS["Path.write_text"] = _write_text
registry.EXTERNALS["Path.suffix"] = lambda ctx, st, rec: SV(TName, core.uf("Path.suffix", TName.sort(), TName.sort())(rec.fields["p"].t))
registry.EXTERNALS["Path.exists"] = lambda ctx, st, rec: BoundMethod(rec, "exists", lambda c, s: SV(TBool, core.uf("Path.exists", TName.sort(), z3.BoolSort())(rec.fields["p"].t)))


@registry.spec("TRACE")
def _TRACE(ctx, st):
    return st.env.get("__trace__", ())


def _same_value(a, b):
    r = py_eq(a, b)
    if isinstance(r, SV):
        return r.t
    return z3.BoolVal(bool(r))


@registry.spec("trace_is")
def _trace_is(ctx, st, expected):
    """the ghost trace of external/contract calls equals `expected`: a list of (name, {arg: value})"""
    tr = st.env.get("__trace__", ())
    if len(tr) != len(expected):
        return False
    parts = []
    for (n1, a1), (n2, a2) in zip(tr, expected):
        if n1 != n2 and not n1.endswith("." + n2):
            return False
        for k, v in a2.items():
            if k not in a1:
                return False
            parts.append(_same_value(a1[k], v))
    return SV(TBool, z3.And(*parts)) if parts else True


@registry.spec("no_write")
def _no_write(ctx, st):
    return all(n != "write_text" for n, _ in st.env.get("__trace__", ()))


@registry.spec("out_path")
def _out_path(ctx, st, fname, outname, suffix):
    base = fname.fields["p"] if outname is None else lift(outname, TName)
    return SV(TName, PATHW(base.t, lift(suffix, TName).t))


G = "gotranx.cli."
contract("gotranx.load.load_ode", params={"path": "Rec:Path"}, ret="ODE", raises={"ODEFileNotFound": "maybe", "GotranxError": "maybe", "Exception": "maybe"},
         traced=True, assumed=True, pure=False, ensures={"wf": "WF(result)"},
         note="load_ode is outside this contract set (lark + transformer + make_ode): assumed to return a WF model or raise")

_PYF = enum_values("PythonFormat")
_CF = enum_values("CFormat")
_BK = enum_values("Backend")
_schemes2 = [None, [], [_by["explicit_euler"], _by["hybrid_rush_larsen"]]]
_outname = core.fresh(TName, "outname")
_stiff = [None, [], ["V"]]

contract(G + "gotran2py.get_code",
         params={"ode": "ODE", "scheme": "PyList", "format": "Enum:PythonFormat", "remove_unused": "Bool", "missing_values": "any",
                 "delta": "Real", "stiff_states": "any", "backend": "Enum:Backend", "shape": "any"},
         ret="Text", raises={"Exception": "maybe"}, traced=True, assumed=True, pure=False,
         note="interface used by gotran2py.main; the body is verified under the name gotran2py.get_code@body")
contract(G + "gotran2c.get_code",
         params={"ode": "ODE", "scheme": "PyList", "format": "Enum:CFormat", "remove_unused": "Bool", "missing_values": "any",
                 "delta": "Real", "stiff_states": "any"},
         ret="Text", raises={"Exception": "maybe"}, traced=True, assumed=True, pure=False)

contract(
    G + "gotran2py.main",
    params={"fname": "Rec:Path", "outname": "any", "format": "Enum:PythonFormat", "scheme": "PyList", "remove_unused": "Bool",
            "verbose": "Bool", "stiff_states": "any", "delta": "Real", "suffix": "Name", "backend": "Enum:Backend"},
    ret="PyNone", raises={"Exception": "maybe", "ODEFileNotFound": "maybe", "GotranxError": "maybe"},
    enum_params={"outname": [None, _outname], "format": _PYF[:2], "scheme": _schemes2, "stiff_states": _stiff, "backend": _BK},
    ensures={"loads_generates_then_writes_exactly_the_generated_text":
             "trace_is([('load_ode', {'path': fname}), "
             "('gotran2py.get_code', {'scheme': scheme, 'format': format, 'remove_unused': remove_unused, 'stiff_states': stiff_states, "
             "'delta': delta, 'backend': backend}), "
             "('write_text', {'path': out_path(fname, outname, suffix), 'text': code})])"},
    on_raise={"no_output_file_on_failure": "no_write()"},
    properties=("C18",),
)
contract(
    G + "gotran2c.main",
    params={"fname": "Rec:Path", "suffix": "Name", "outname": "any", "scheme": "PyList", "remove_unused": "Bool",
            "format": "Enum:CFormat", "verbose": "Bool", "missing_values": "any", "delta": "Real", "stiff_states": "any"},
    ret="PyNone", raises={"Exception": "maybe", "ODEFileNotFound": "maybe", "GotranxError": "maybe"},
    enum_params={"outname": [None, _outname], "format": _CF, "scheme": _schemes2, "stiff_states": _stiff, "missing_values": [None]},
    ensures={"loads_generates_then_writes_exactly_the_generated_text":
             "trace_is([('load_ode', {'path': fname}), "
             "('gotran2c.get_code', {'scheme': scheme, 'format': format, 'remove_unused': remove_unused, 'stiff_states': stiff_states, "
             "'delta': delta, 'missing_values': missing_values}), "
             "('write_text', {'path': out_path(fname, outname, suffix), 'text': code})])"},
    on_raise={"no_output_file_on_failure": "no_write()"},
    properties=("C18",),
)

CONTRACTS[U + "validate_scheme"].ret_py = lambda ctx, st, env: [_as_scheme(ctx, st, s) for s in env["scheme"]]
CONTRACTS[G + "gotran2py.main"].traced = True
CONTRACTS[G + "gotran2c.main"].traced = True

_fname = mkpath(core.fresh(TName, "fname").t if False else core.fresh(TName, "fname"))
_CONFIGS = [
    {},
    {"verbose": True, "delta": 0.5, "stiff_states": ["m"], "scheme": ["hybrid_rush_larsen"],
     "python": {"format": "none", "backend": "jax"}, "c": {"to": ".c", "format": "none"}},
]
_CMD_COMMON = dict(
    ret="PyNone", raises={"Exception": "maybe", "ValueError": "maybe", "ODEFileNotFound": "maybe", "GotranxError": "maybe"},
    abstractions={"utils.read_config(config)": "CONFIG"},
)
_CMD_ENUM = {"fname": [None, _fname], "outname": [None, _outname], "version": [None], "license": [None], "config": [None],
             "scheme": [[], [_by["generalized_rush_larsen"]]], "stiff_states": [[], ["V"]], "CONFIG": _CONFIGS}

contract(
    G + "ode2py",
    params={"fname": "any", "outname": "any", "remove_unused": "Bool", "version": "any", "license": "any", "config": "any",
            "verbose": "Bool", "scheme": "PyList", "stiff_states": "any", "delta": "Real", "format": "Enum:PythonFormat",
            "backend": "Enum:Backend", "CONFIG": "any"},
    enum_params=dict(_CMD_ENUM, format=_PYF[:2], backend=_BK),
    ensures={"every_option_is_forwarded_config_file_overrides_the_command_line":
             "trace_is([] if fname is None else [('gotran2py.main', {'fname': fname, 'outname': outname, "
             "'scheme': [as_scheme(s) for s in CONFIG.get('scheme', scheme)], 'remove_unused': remove_unused, "
             "'verbose': CONFIG.get('verbose', verbose), 'stiff_states': CONFIG.get('stiff_states', stiff_states), "
             "'delta': CONFIG.get('delta', delta), 'format': PythonFormat(CONFIG.get('python', {}).get('format', format)), "
             "'backend': Backend(CONFIG.get('python', {}).get('backend', backend))})])"},
    properties=("C18",), **_CMD_COMMON,
)
contract(
    G + "ode2c",
    params={"fname": "any", "to": "Name", "outname": "any", "remove_unused": "Bool", "version": "any", "license": "any",
            "config": "any", "verbose": "Bool", "scheme": "PyList", "stiff_states": "any", "delta": "Real",
            "format": "Enum:CFormat", "CONFIG": "any"},
    enum_params=dict(_CMD_ENUM, format=_CF),
    ensures={"every_option_is_forwarded_config_file_overrides_the_command_line":
             "trace_is([] if fname is None else [('gotran2c.main', {'fname': fname, 'outname': outname, "
             "'suffix': CONFIG.get('c', {}).get('to', to), "
             "'scheme': [as_scheme(s) for s in CONFIG.get('scheme', scheme)], 'remove_unused': remove_unused, "
             "'verbose': CONFIG.get('verbose', verbose), 'stiff_states': CONFIG.get('stiff_states', stiff_states), "
             "'delta': CONFIG.get('delta', delta), 'format': CFormat(CONFIG.get('c', {}).get('format', format))})])"},
    properties=("C18",), **_CMD_COMMON,
)
registry.SPECS["PythonFormat"] = lambda ctx, st, v: ctx.construct(I.ClassRef("gotranx.codegen.python.Format"), [v], {}, st)
registry.SPECS["CFormat"] = lambda ctx, st, v: ctx.construct(I.ClassRef("gotranx.codegen.c.Format"), [v], {}, st)
registry.SPECS["Backend"] = lambda ctx, st, v: ctx.construct(I.ClassRef("gotranx.cli.gotran2py.Backend"), [v], {}, st)
for _q in (G + "gotran2py.main", G + "gotran2c.main"):
    CONTRACTS[_q].internal.update(CONTRACTS[_q].ensures)
    CONTRACTS[_q].ensures.clear()
