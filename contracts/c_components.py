"""Contracts for the derivative / state pairing of C08 (gotranx.ode_component, gotranx.ode.check_components):
every state has a derivative in its component (check_components -> is_complete -> states_with_derivatives) and every
derivative a declared state of its component (Component._handle_assignments -> find_state).

Existential statements ("some derivative has this state") are given with a *witness* that the contract computes from the
arbitrary iteration order of the loop (`witness=`): proved for that term in the body, a fresh constant at call sites."""
from __future__ import annotations

import z3

from pyvc import core, registry
from pyvc.core import SV, TBool, TName, lift
from pyvc.registry import contract, method, CONTRACTS, CLASS_MODELS
from pyvc.verify import defspec
from .models import TAtom
from . import c_ode_iface, c_ode  # noqa: F401

C = "gotranx.ode_component."
BC = C + "BaseComponent."
A = "gotranx.atoms."
M = "gotranx.ode."

# attrs classes whose generated constructor is modelled (ASSUMED, see interp.construct): unit and symbol may be replaced by
# Atom.__attrs_post_init__
for cls in ("Intermediate", "StateDerivative"):
    registry.ATTRS_CLASSES[A + cls] = ("Atom", ("unit", "symbol"))

# ----------------------------------------------------------------------------- the regular expression (ASSUMED reading)
IS_DERIV = core.uf("is_derivative_name", TName.sort(), z3.BoolSort())
DERIV_STATE = core.uf("derivative_state_name", TName.sort(), TName.sort())


@registry.spec("is_derivative_name")
def _is_derivative_name(ctx, st, n):
    """ASSUMED reading of STATE_DERIV_EXPR = ^d(?P<state>\\w+)_dt$ : whether the name has the form d<state>_dt"""
    return SV(TBool, IS_DERIV(lift(n, TName).t))


@registry.spec("derivative_state_name")
def _derivative_state_name(ctx, st, n):
    """... and the <state> group of a name of that form"""
    return SV(TName, DERIV_STATE(lift(n, TName).t))


@registry.spec("derivative_groups")
def _derivative_groups(ctx, st, n):
    return {"state": _derivative_state_name(ctx, st, n)}


# ----------------------------------------------------------------------------- spec vocabulary
defspec("last_with_state", {"O": "Seq[Atom]", "s": "Atom", "j": "Int"}, "Int", """
def last_with_state(O, s, j):
    if j <= 0:
        return -1
    if O[j - 1].state == s:
        return j - 1
    return last_with_state(O, s, j - 1)
""")

# ----------------------------------------------------------------------------- find_state
contract(
    BC + "find_state", params={"self": "Component", "state_name": "Name"}, ret="Atom", ghost={"s": "Atom"},
    raises={"StateNotFoundInComponent": "maybe"},
    on_raise={"no_state_of_the_component_has_that_name": "implies(s in self.states, s.name != state_name)"},
    ensures={"a_state_of_the_component_with_that_name": "result in self.states and result.name == state_name"},
    loops={0: {"invariant": {"none_so_far": "implies(s in self.states and POS(s) < k, s.name != state_name)"}}},
    properties=("C08",),
)
method("Component", "find_state", BC + "find_state")

# ----------------------------------------------------------------------------- states_with_derivatives / is_complete
_W = "ORDER[last_with_state(ORDER, s, k)]"
contract(
    BC + "states_with_derivatives", params={"self": "Component"}, ret="Set[Atom]",
    ghost={"s": "Atom", "sd": "Atom"},
    witness={"w": ("Atom", "ORDER0[last_with_state(ORDER0, s, len(ORDER0))]")},
    ensures={
        "contains_the_state_of_every_derivative": "implies(sd in self.state_derivatives, sd.state in result)",
        "only_states_of_derivatives": "implies(s in result, w in self.state_derivatives and w.state == s)",
    },
    loops={0: {"invariant": {
        "sup": "implies(sd in self.state_derivatives and POS(sd) < k, sd.state in states)",
        "sub": "implies(s in states, 0 <= last_with_state(ORDER, s, k) and last_with_state(ORDER, s, k) < k and "
               f"{_W} in self.state_derivatives and {_W}.state == s)",
    }, "types": {"states": "Set[Atom]"}}},
    properties=("C08",),
)
contract(
    BC + "is_complete", params={"self": "Component"}, ret="Bool",
    ensures={"every_state_is_the_state_of_a_derivative": "result == (self.states_with_derivatives == self.states)"},
    properties=("C08",),
)
contract(
    BC + "states_without_derivatives", params={"self": "Component"}, ret="Set[Atom]", ghost={"s": "Atom"},
    ensures={"difference": "(s in result) == (s in self.states and s not in self.states_with_derivatives)"},
    properties=("C08",),
)
method("Component", "is_complete", BC + "is_complete")
CLASS_MODELS["Component"].properties["states_with_derivatives"] = BC + "states_with_derivatives"
CLASS_MODELS["Component"].properties["states_without_derivatives"] = BC + "states_without_derivatives"

# ----------------------------------------------------------------------------- check_components
contract(
    M + "check_components", params={"components": "Seq[Component]"}, ret=None, ghost={"i": "Int"},
    raises={"ComponentNotCompleteError": "maybe"},
    ensures={"every_component_is_complete":
             "implies(0 <= i and i < len(components), components[i].states_with_derivatives == components[i].states)"},
    loops={0: {"invariant": {"complete_so_far":
                             "implies(0 <= i and i < k, components[i].states_with_derivatives == components[i].states)"}}},
    properties=("C08",),
    note="a normal return means: in every component the set of states that some derivative refers to equals the set of declared states",
)

# ----------------------------------------------------------------------------- Assignment.to_state_derivative / to_intermediate
contract(
    A + "Assignment.to_state_derivative", params={"self": "Atom", "state": "Atom"}, ret="Atom",
    ensures={"a_derivative_of_that_state_with_the_same_definition":
             "is_sd(result) and result.state == state and result.name == self.name and result.value == self.value "
             "and result.expr == self.expr and result.components == self.components"},
    properties=("C08",),
)
contract(
    A + "Assignment.to_intermediate", params={"self": "Atom"}, ret="Atom",
    ensures={"an_intermediate_with_the_same_definition":
             "is_intermediate(result) and result.name == self.name and result.value == self.value "
             "and result.expr == self.expr and result.components == self.components"},
    properties=("C08",),
)
method("Atom", "to_state_derivative", A + "Assignment.to_state_derivative")
method("Atom", "to_intermediate", A + "Assignment.to_intermediate")

# ----------------------------------------------------------------------------- Component._handle_assignments
_DN = "derivative_state_name(a.name)"
_CONV = f"a.to_state_derivative(self.find_state({_DN}))"
_PLAIN_DERIV = "(not is_intermediate(a)) and (not is_sd(a)) and is_derivative_name(a.name)"
_PLAIN_OTHER = "(not is_intermediate(a)) and (not is_sd(a)) and (not is_derivative_name(a.name))"


def _cover(sd, im, bound):
    return {
        "classified_intermediate_kept": f"implies(a in self.assignments and {bound} and is_intermediate(a), a in {im})",
        "classified_derivative_kept": f"implies(a in self.assignments and {bound} and is_sd(a), a in {sd})",
        "derivative_by_name_has_a_state_of_the_component":
            f"implies(a in self.assignments and {bound} and {_PLAIN_DERIV}, returns(self.find_state({_DN})) and {_CONV} in {sd})",
        "other_assignment_becomes_intermediate":
            f"implies(a in self.assignments and {bound} and {_PLAIN_OTHER}, a.to_intermediate() in {im})",
    }


contract(
    C + "Component._handle_assignments", params={"self": "Component"}, ret=None, ghost={"a": "Atom"},
    raises={"StateNotFoundInComponent": "maybe"},
    abstractions={"STATE_DERIV_EXPR.match(assignment.name)": "is_derivative_name(assignment.name)",
                  "state_name.groupdict()": "derivative_groups(assignment.name)"},
    ensures=_cover("final(self).state_derivatives", "final(self).intermediates", "True"),
    loops={0: {"invariant": _cover("state_derivatives", "intermediates", "POS(a) < k"),
               "types": {"state_derivatives": "Set[Atom]", "intermediates": "Set[Atom]"}}},
    properties=("C08",),
    note="a normal return means that for every assignment named d<X>_dt the call find_state(<X>) returned, i.e. (contract of "
         "find_state) a state of this component is named <X>; an orphan derivative leaves by StateNotFoundInComponent",
)


# ----------------------------------------------------------------------------- ODE.__init__ / make_ode: completeness is checked on every path to a model
from pyvc import interp as I  # noqa: E402

core.RECORDS["AllAtoms"] = {"symbol_names": "Seq[Name]", "symbol_values": "Dict[Name,Set[Value]]", "symbols": "Dict[Name,Sym]",
                            "lookup": "Dict[Name,Atom]"}
core.RECORDS_BY_DOTTED["gotranx.ode.AllAtoms"] = "AllAtoms"
contract(M + "gather_atoms", params={"components": "Seq[Component]"}, ret="Rec:AllAtoms", assumed=True,
         note="ASSUMED total (four nested loops that only read attributes and fill containers); nothing is assumed about the tables it returns")

HASDUP = core.uf("some_name_has_two_values", core.parse_ty("Dict[Name,Set[Value]]").sort(), z3.BoolSort())


@registry.spec("some_name_has_two_values")
def _some_name_has_two_values(ctx, st, d):
    return SV(TBool, HASDUP(lift(d, core.parse_ty("Dict[Name,Set[Value]]")).t))


@registry.spec("opaque")
def _opaque(ctx, st, *a):
    return None


_COMPLETE = "implies(0 <= i and i < len(components), components[i].states_with_derivatives == components[i].states)"
contract(
    M + "ODE.__init__", params={"self": "PyObj", "components": "Seq[Component]", "t": "?Sym", "name": "Name", "comments": "?Comments"},
    ret="PyNone", enum_params={"self": [I.ObjUnderConstruction("ODE")]}, ghost={"i": "Int"},
    raises={"ComponentNotCompleteError": "maybe", "DuplicateSymbolError": "maybe"},
    abstractions={"any((x > 1 for x in map(len, symbol_values.values())))": "some_name_has_two_values(symbol_values)",
                  "set((k for k, v in symbol_values.items() if len(v) > 1))": "opaque()",
                  "atoms.Comment('')": "opaque()",
                  "' '.join((comment.text for comment in comments))": "opaque()"},
    ensures={"every_component_is_complete": _COMPLETE,
             "keeps_the_components": "self.components == components"},
    properties=("C08",),
    note="a model object exists only if check_components returned normally on its components",
)
contract(M + "resolve_expressions", params={"components": "Seq[Component]", "symbols": "Dict[Name,Sym]"}, ret="Seq[Component]",
         raises={"GotranxError": "maybe"}, assumed=True,
         note="ASSUMED interface only (may raise MissingSymbolError etc.): what it returns is checked again by ODE.__init__")

# the constructor as seen from a call site (its clauses are the proved postconditions of ODE.__init__ above)
contract(M + "ODE", params={"components": "Seq[Component]", "t": "Opt[Sym]", "name": "Name", "comments": "Opt[Comments]"}, ret="ODE", ghost={"i": "Int"},
         raises={"ComponentNotCompleteError": "maybe", "DuplicateSymbolError": "maybe"}, assumed=True,
         ensures={"keeps_the_components": "result.components == components",
                  "every_component_is_complete": "implies(0 <= i and i < len(components), components[i].states_with_derivatives == components[i].states)"},
         note="call-site view of the constructor; both clauses are proved for ODE.__init__ (contract gotranx.ode.ODE.__init__)")

defspec("without_component", {"CS": "Seq[Component]", "other": "Component", "j": "Int"}, "Seq[Component]", """
def without_component(CS, other, j):
    if j <= 0:
        return empty("Seq[Component]")
    if CS[j - 1] != other:
        return without_component(CS, other, j - 1) + [CS[j - 1]]
    return without_component(CS, other, j - 1)
""")
contract(
    M + "ODE.__sub__", params={"self": "ODE", "other": "Component"}, ret="ODE",
    raises={"ComponentNotCompleteError": "maybe", "DuplicateSymbolError": "maybe"},
    ensures={"the_other_components_in_their_order": "result.components == without_component(self.components, other, len(self.components))"},
    comps={0: "without_component(self.components, other, j)"},
    properties=("C13",),
    note="model - C keeps exactly the components different from C; together with C.to_ode() (components == (C,)) the two parts are complementary",
)

contract(
    BC + "to_ode", params={"self": "Component"}, ret="ODE",
    raises={"ComponentNotCompleteError": "maybe", "DuplicateSymbolError": "maybe"},
    ensures={"a_model_of_this_component_alone": "len(result.components) == 1 and result.components[0] == self"},
    properties=("C13",),
)
