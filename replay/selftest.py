#!/venv/bin/python
"""Self-tests of the oracles: deliberately wrong library behaviour is monkeypatched INSIDE THIS PROCESS (the fork()ed pool workers
inherit it; nothing under /repo is touched) and the oracle must report the expected signature.

    /venv/bin/python /verif/replay/selftest.py [name ...] [--seconds S] [--seed N]

names: sort-reduced     C04 / C05 / C12 (+ C06 / C07): ODE.sorted_assignments sorts only the reduced assignment set when remove_unused=True
       deriv-ref-front  C12 / C04: with remove_unused=True derivatives that an intermediate mentions by name are emitted first
       jax-missing      C03: the jax template returns the requested missing values in emission order instead of slot order
       jacobian         C20: jacobi_matrix returns one entry 0.1 % off
       cli-falsy        C18: the CLI ignores falsy configuration values (`config_data.get(k) or cli_value`)
Exit code 0 iff every expected signature fired."""
from __future__ import annotations

import argparse
import importlib
import json
import os
import sys
import time

sys.dont_write_bytecode = True
HERE = os.path.dirname(os.path.abspath(__file__))
sys.path.insert(0, HERE)
if os.environ.get("PYTHONHASHSEED") != "0":
    os.environ["PYTHONHASHSEED"] = "0"
    os.environ["PYTHONDONTWRITEBYTECODE"] = "1"
    os.execv(sys.executable, [sys.executable] + sys.argv)

import common as cm  # noqa: E402


def patch_sort_reduced():
    """the regression of item 4: with remove_unused=True the *reduced* assignment set is sorted (a topological sorter then first
    sees the names in another order, so independent derivatives come out in another order than state_index assumes)"""
    import gotranx.ode as go
    from gotranx import atoms

    orig = go.ODE.sorted_assignments

    def sorted_assignments(self, assignments_only=True, remove_unused=False):
        if not remove_unused:
            return orig(self, assignments_only=assignments_only, remove_unused=False)
        deps = self.dependents()
        reduced = [a for a in self.intermediates + self.state_derivatives if not isinstance(a, atoms.Intermediate) or a.name in deps]
        names = go.sort_assignments(assignments=reduced, assignments_only=assignments_only)
        return tuple(self[n] for n in names)

    go.ODE.sorted_assignments = sorted_assignments
    return "gotranx.ode.ODE.sorted_assignments: remove_unused=True sorts the reduced assignment set"


def patch_deriv_ref_front():
    """item 5: with remove_unused=True the derivatives that some intermediate mentions by name (i_cap = Cm*dV_dt) are emitted first
    (where their own dependencies allow it), so they leave their state_index slots; only models in which an intermediate mentions a
    d<state>_dt name are affected"""
    import gotranx.ode as go
    from gotranx import atoms

    orig = go.ODE.sorted_assignments

    def sorted_assignments(self, assignments_only=True, remove_unused=False):
        out = orig(self, assignments_only=assignments_only, remove_unused=remove_unused)
        if not remove_unused:
            return out
        dnames = {d.name for d in self.state_derivatives}
        mentioned = set()
        for a in self.intermediates:
            mentioned |= set(a.value.dependencies) & dnames
        res = list(out)
        for a in [x for x in out if isinstance(x, atoms.StateDerivative) and x.name in mentioned]:
            deps = set(a.value.dependencies)
            i = res.index(a)
            if not any(b.name in deps for b in res[:i]):
                res.remove(a)
                res.insert(0, a)
        return tuple(res)

    go.ODE.sorted_assignments = sorted_assignments
    return "gotranx.ode.ODE.sorted_assignments: remove_unused=True moves derivatives mentioned by an intermediate to the front"


def patch_jax_missing():
    """item 7: the jax method template returns the values in the order in which they were assigned (emission order)"""
    import re

    from gotranx.templates import jax as tj

    orig = tj.method

    def method(name, args, states, parameters, values, num_return_values, **kw):
        code = orig(name=name, args=args, states=states, parameters=parameters, values=values, num_return_values=num_return_values, **kw)
        if name != "missing_values":
            return code
        emitted = re.findall(r"^\s*(_values_\d+) = ", values, re.M)
        ret = "return numpy.array([" + "".join(f"{v}, " for v in emitted) + "])"
        return re.sub(r"return numpy\.array\(\[.*?\]\)", ret, code, flags=re.S)

    tj.method = method
    return "gotranx.templates.jax.method: missing_values returns the values in emission order"


def patch_jacobian():
    import gotranx.sympytools as st

    orig = st.jacobi_matrix

    def jacobi_matrix(ode):
        J = orig(ode)
        J = J.copy()
        J[0, 0] = J[0, 0] * 1.001 + 1e-3
        return J

    st.jacobi_matrix = jacobi_matrix
    return "gotranx.sympytools.jacobi_matrix: entry [0, 0] is 0.1 % + 1e-3 off"


def patch_cli_falsy():
    """item 6 cannot be monkeypatched in a child interpreter; the CLI is run through a sitecustomize directory on PYTHONPATH that
    wraps gotranx.cli.utils.read_config so that falsy values are dropped (== `config_data.get(k) or cli_value`)"""
    d = os.path.join(cm.TMPROOT, f"selftest_site_{os.getpid()}")
    os.makedirs(d, exist_ok=True)
    with open(os.path.join(d, "sitecustomize.py"), "w") as f:
        f.write(
            "import sys\n"
            "if 'gotranx' in ' '.join(sys.argv) or any(a == '-m' for a in sys.orig_argv):\n"
            "    try:\n"
            "        import gotranx.cli.utils as u\n"
            "        _orig = u.read_config\n"
            "        def read_config(path):\n"
            "            return {k: v for k, v in _orig(path).items() if v or isinstance(v, dict)}\n"
            "        u.read_config = read_config\n"
            "    except Exception:\n"
            "        pass\n"
        )
    os.environ["PYTHONPATH"] = d + os.pathsep + os.environ.get("PYTHONPATH", "")
    os.environ["SELFTEST_SITE"] = d
    return "CLI child: read_config drops falsy values (sitecustomize on PYTHONPATH; the API side of the oracle runs in this process and is not affected)"


PATCHES = {
    "sort-reduced": (patch_sort_reduced, {"C04": ["result-slot-permuted:rhs:remove_unused"], "C05": ["euler-mismatch:remove_unused"], "C12": ["slot-layout-differs"], "C06": [":remove_unused"], "C07": [":remove_unused"]}),
    "deriv-ref-front": (patch_deriv_ref_front, {"C12": ["slot-layout-differs"], "C04": ["result-slot-permuted:rhs:remove_unused"]}),
    "jax-missing": (patch_jax_missing, {"C03": ["C03:value-mismatch:missing_values"]}),
    "jacobian": (patch_jacobian, {"C20": ["C20:jacobian-differs"]}),
    "cli-falsy": (patch_cli_falsy, {"C18": ["config-delta-not-honoured", "config-stiff_states-not-honoured", "config-scheme-not-honoured", "config-verbose-not-honoured"]}),
}


def main():
    ap = argparse.ArgumentParser()
    ap.add_argument("names", nargs="*", default=[])
    ap.add_argument("--seconds", type=float, default=25.0)
    ap.add_argument("--seed", type=int, default=0)
    ap.add_argument("--only", default=None, help="comma separated property ids")
    ap.add_argument("--keep", default=None, help="directory in which {property, failure} files of the caught failures are written (for run.py --replay)")
    a = ap.parse_args()
    names = a.names or list(PATCHES)
    if len(names) != 1:  # one patch per process
        import subprocess

        rc = 0
        for n in names:
            rc |= subprocess.call([sys.executable, os.path.abspath(__file__), n, "--seconds", str(a.seconds), "--seed", str(a.seed)] + (["--only", a.only] if a.only else []) + (["--keep", a.keep] if a.keep else []))
        return rc
    name = names[0]
    fn, expect = PATCHES[name]
    what = fn()
    print(f"== self-test {name}: {what}")
    ok = True
    for prop, wanted in expect.items():
        if a.only and prop not in a.only.split(","):
            continue
        mod = importlib.import_module(f"oracles.{prop.lower()}")
        res = mod.run("quick", a.seed, None, time.time() + a.seconds)
        sigs = sorted({f["signature"] for f in res["failures"]})
        hit = [w for w in wanted if any(w in s for s in sigs)]
        good = len(hit) == len(wanted) if name == "cli-falsy" else bool(hit)
        ok &= good
        print(f"   {prop}: {'CAUGHT' if good else 'MISSED'} expected one of {wanted}; cases={res['cases']} signatures={json.dumps(sigs)}")
        for w in hit:  # the stored input of the new case must replay (same patched process -> still fails)
            f = [f for f in res["failures"] if w in f["signature"]][0]
            rp = mod.replay(json.loads(json.dumps(f, default=str)))
            ok &= bool(rp.get("still_fails"))
            print(f"      replay of {f['signature']}: still_fails={rp.get('still_fails')} ({str(rp.get('detail'))[:140]})")
            if a.keep:
                os.makedirs(a.keep, exist_ok=True)
                with open(os.path.join(a.keep, f"{name}_{prop}_{abs(hash(f['signature'])) % 10**6}.json"), "w") as fh:
                    json.dump({"property": prop, "failure": f}, fh, default=str)
        for e in res["errors"][:2]:
            print("      harness error:", e[:300])
    if os.environ.get("SELFTEST_SITE"):
        import shutil

        shutil.rmtree(os.environ["SELFTEST_SITE"], ignore_errors=True)
    return 0 if ok else 1


if __name__ == "__main__":
    sys.exit(main())
