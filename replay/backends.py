"""Uniform access to the three generated back ends (numpy, jax, C) for the oracles.

build(ode, backend, schemes, **get_code_kwargs) -> Built with by-name accessors.  Every
gotranx / compiler / runtime exception is wrapped in `Stage` carrying the stage name so the
oracles can classify it (`codegen`, `compile`, `import`, `call`)."""
from __future__ import annotations

import re

import numpy as np

import common as cm


class Stage(Exception):
    def __init__(self, stage: str, exc: BaseException, detail: str = ""):
        super().__init__(f"{stage}: {type(exc).__name__}: {cm.short(exc)} {detail}")
        self.stage, self.exc, self.detail = stage, exc, detail

    @property
    def kind(self):
        return f"{self.stage}-raises:{cm.exc_site(self.exc) if self.stage == 'codegen' else type(self.exc).__name__}"


class CompileError(Exception):
    pass


def c_index_table(code: str, fn: str) -> dict:
    """names listed in the C `<fn>_index` function, by parsing the generated text (the C ABI offers
    no enumeration); used only to know which names to query"""
    m = re.search(r"int " + fn + r"_index\(const char name\[\]\)\s*\{(.*?)\n\}", code, re.S)
    out = {}
    if m:
        for nm, idx in re.findall(r'strcmp\(name, "([^"]+)"\) == 0\) \{\s*return (\d+);', m.group(1)):
            out.setdefault(nm, int(idx))
    return out


class Built:
    def __init__(self, ode, backend="numpy", schemes=(), **kw):
        self.backend, self.schemes, self.kw = backend, tuple(schemes), kw
        self.lib = None
        self.missing = dict(ode.missing_variables)
        aliases = kw.pop("aliases", ())
        try:
            self.code = cm.c_code(ode, schemes, **kw) if backend == "c" else cm.py_code(ode, schemes, backend=backend, **kw)
            if aliases:
                self.code += "\n" + alias_code(ode, backend, aliases, remove_unused=kw.get("remove_unused", False))
        except Exception as e:  # noqa: BLE001
            raise Stage("codegen", e) from None
        if backend == "c":
            self.lib = cm.CLib(self.code)
            if not self.lib.ok():
                err = self.lib.stderr
                self.lib.close()
                self.lib = None
                raise Stage("compile", CompileError(first_error(err)), err[:600])
            self.state = c_index_table(self.code, "state")
            self.parameter = c_index_table(self.code, "parameter")
            self.monitor = c_index_table(self.code, "monitor")
        else:
            try:
                self.ns = cm.exec_py(self.code)
            except Exception as e:  # noqa: BLE001
                raise Stage("import", e) from None
            self.state, self.parameter, self.monitor = dict(self.ns["state"]), dict(self.ns["parameter"]), dict(self.ns["monitor"])
        self.n_states, self.n_params, self.n_mon = len(self.state), len(self.parameter), len(self.monitor)

    # ---- index functions (the generated ones, not the tables) ------------------------
    def index(self, which: str, name: str) -> int:
        if self.backend == "c":
            return self.lib.index(f"{which}_index", name)
        return int(self.ns[f"{which}_index"](name))

    def arrays(self, pt):
        s, p = np.zeros(self.n_states), np.zeros(self.n_params)
        for k, v in pt["states"].items():
            if k in self.state:
                s[self.index("state", k)] = v
        for k, v in pt["params"].items():
            if k in self.parameter:
                p[self.index("parameter", k)] = v
        return s, p

    # ---- raw calls -----------------------------------------------------------------------
    def raw(self, fn, s, t, p, dt=None, n_out=None, order=None, missing=None, jit=True):
        """call generated function `fn`; order: formal order letters (default: tsp / stdp)"""
        is_scheme = dt is not None
        order = order or ("stdp" if is_scheme else "tsp")
        try:
            if self.backend == "c":
                n_out = n_out if n_out is not None else self.n_states
                out = self.lib.call(fn, order, n_out, s=s, t=t, p=p, d=dt, extra=missing)
                return out
            vals = {"s": s, "t": t, "p": p, "d": dt}
            args = [vals[c] for c in order]
            if missing is not None:
                args.append(np.asarray(missing, dtype=float))
            with cm.quiet():
                if self.backend == "jax":
                    import jax

                    if jit:
                        return np.asarray(self.ns[fn](*args), dtype=float)
                    with jax.disable_jit():
                        return np.asarray(self.ns[fn](*args), dtype=float)
                return np.asarray(self.ns[fn](*args), dtype=float)
        except Exception as e:  # noqa: BLE001
            raise Stage("call", e, fn) from None

    def has(self, fn):
        return self.lib.has(fn) if self.backend == "c" else fn in self.ns

    # ---- by-name accessors -----------------------------------------------------------------
    def _by_state(self, arr):
        return {n: float(arr[self.index("state", n)]) for n in self.state}

    def rhs(self, pt, missing=None, **k):
        s, p = self.arrays(pt)
        return self._by_state(self.raw("rhs", s, pt["t"], p, missing=missing, **k))

    def scheme(self, fn, pt, dt, missing=None, **k):
        s, p = self.arrays(pt)
        return self._by_state(self.raw(fn, s, pt["t"], p, dt=dt, missing=missing, **k))

    def monitor_values(self, pt, missing=None, **k):
        s, p = self.arrays(pt)
        arr = self.raw("monitor_values", s, pt["t"], p, n_out=self.n_mon, missing=missing, **k)
        return {n: float(arr[self.index("monitor", n)]) for n in self.monitor}

    def init_states(self):
        try:
            if self.backend == "c":
                arr = self.lib.init("init_state_values", self.n_states)
            else:
                with cm.quiet():
                    arr = np.asarray(self.ns["init_state_values"](), dtype=float)
        except Exception as e:  # noqa: BLE001
            raise Stage("call", e, "init_state_values") from None
        return self._by_state(arr)

    def init_params(self):
        try:
            if self.backend == "c":
                arr = self.lib.init("init_parameter_values", self.n_params)
            else:
                with cm.quiet():
                    arr = np.asarray(self.ns["init_parameter_values"](), dtype=float)
        except Exception as e:  # noqa: BLE001
            raise Stage("call", e, "init_parameter_values") from None
        return {n: float(arr[self.index("parameter", n)]) for n in self.parameter}

    def close(self):
        if self.lib is not None:
            self.lib.close()
            self.lib = None

    def __enter__(self):
        return self

    def __exit__(self, *a):
        self.close()


def first_error(stderr: str) -> str:
    for ln in stderr.splitlines():
        m = re.search(r"error: (.*)", ln)
        if m:
            return re.sub(r"[‘’'`\"]", "", m.group(1)).strip()[:80]
    return "compile failed"


def build(ode, backend="numpy", schemes=(), **kw) -> Built:
    return Built(ode, backend, schemes, **kw)


def generator(ode, backend, remove_unused=False):
    from gotranx.codegen.c import CCodeGenerator
    from gotranx.codegen.jax import JaxCodeGenerator
    from gotranx.codegen.python import PythonCodeGenerator

    if backend == "c":
        return CCodeGenerator(ode, format=cm.CFormat.none, remove_unused=remove_unused)
    cls = JaxCodeGenerator if backend == "jax" else PythonCodeGenerator
    return cls(ode, format=cm.PyFormat.none, remove_unused=remove_unused)


def alias_code(ode, backend, aliases, remove_unused=False, **skw) -> str:
    """scheme functions obtained through gotranx.schemes.get_scheme(alias), each emitted right after
    its get_scheme call"""
    import warnings

    from gotranx.schemes import get_scheme

    gen = generator(ode, backend, remove_unused)
    out = []
    with cm.quiet(), warnings.catch_warnings():
        warnings.simplefilter("ignore")
        for a in aliases:
            out.append(gen.scheme(get_scheme(a), **skw))
    return "\n".join(out)
