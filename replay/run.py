#!/venv/bin/python
"""Bounded oracle harness: run.py --property CXX --tier quick|thorough --seed N --out F.json
[--focus SIGPREFIX] [--max-seconds N]   |   run.py --replay F.json"""
from __future__ import annotations

import argparse
import importlib
import json
import os
import sys
import time

sys.dont_write_bytecode = True  # leave nothing but --out behind
HERE = os.path.dirname(os.path.abspath(__file__))
sys.path.insert(0, HERE)


def main(argv=None):
    # one fixed hash seed for the harness itself: sympy's behaviour (and hence some findings) depends on set
    # iteration order; oracles that study hash-seed dependence (C09, C18) start their own children
    if argv is None and os.environ.get("PYTHONHASHSEED") != "0":
        os.environ["PYTHONHASHSEED"] = "0"
        os.environ["PYTHONDONTWRITEBYTECODE"] = "1"
        os.execv(sys.executable, [sys.executable] + sys.argv)
    ap = argparse.ArgumentParser()
    ap.add_argument("--property")
    ap.add_argument("--tier", choices=["quick", "thorough"], default="quick")
    ap.add_argument("--seed", type=int, default=0)
    ap.add_argument("--out")
    ap.add_argument("--focus", default=None)
    ap.add_argument("--max-seconds", type=float, default=None)
    ap.add_argument("--replay")
    a = ap.parse_args(argv)
    t0 = time.time()
    if a.replay:
        d = json.load(open(a.replay))
        prop = d.get("property") or d["failure"]["signature"].split(":")[0]
        try:
            mod = importlib.import_module(f"oracles.{prop.lower()}")
            res = mod.replay(d["failure"])
        except Exception as e:  # noqa: BLE001
            res = {"still_fails": False, "detail": f"harness error: {type(e).__name__}: {e}"}
        print(json.dumps({"still_fails": bool(res.get("still_fails")), "detail": str(res.get("detail", ""))}))
        return 0
    if not a.property or not a.out:
        ap.error("--property and --out are required (or --replay)")
    prop = a.property.upper()
    budget = a.max_seconds if a.max_seconds else (60.0 if a.tier == "quick" else 600.0)
    # leave head-room for interpreter start, pool shutdown and writing the report
    deadline = t0 + max(3.0, budget * 0.85 - 4.0)
    out = {"property": prop, "tier": a.tier, "seed": a.seed}
    try:
        mod = importlib.import_module(f"oracles.{prop.lower()}")
        res = mod.run(a.tier, a.seed, a.focus, deadline)
    except Exception as e:  # noqa: BLE001
        import traceback

        res = {"cases": 0, "distinct_nontrivial": 0, "rule": "", "samples": [], "failures": [],
               "errors": [f"harness crashed: {type(e).__name__}: {e} :: {traceback.format_exc()[-1500:]}"]}
    out.update(res)
    out["wall_s"] = round(time.time() - t0, 2)
    if a.focus:
        out["focus"] = a.focus
    tmp = a.out + ".tmp"
    with open(tmp, "w") as f:
        json.dump(out, f, indent=1, default=str)
    os.replace(tmp, a.out)
    return 0


if __name__ == "__main__":
    sys.exit(main())
