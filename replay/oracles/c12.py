"""C12: remove_unused=True never changes results, layout or lengths and never reads a removed name."""
from __future__ import annotations

import numpy as np

import backends as be
import common as cm
import modelgen as mg

ID = "C12"
USES_SHRINK = True
CASE_TIMEOUT = 60
SCHEMES = ["explicit_euler", "generalized_rush_larsen", "hybrid_rush_larsen"]
RULE = """Models from modelgen.gen_model with unused parameters, unused intermediates, chains of unused intermediates, states that no
expression reads, 1-5 states, 0-5 parameters, 0-8 intermediates, in random dependency shapes and random line order.  For each model
and back end (numpy always, C every 2nd model, jax every 6th) two modules are generated with identical options except remove_unused
(False / True), containing rhs, monitor_values, missing_values (requesting up to 2 intermediates, a state and a - preferably unused - parameter), explicit_euler, generalized_rush_larsen and
hybrid_rush_larsen (first state stiff).  One case = one (model, back end, function, point): the two modules must have identical
state / parameter / monitor index tables and init arrays, every function of the remove_unused module must run (no NameError) and
return an array of the same length with the same entries, compared BY NAME: for rhs and the schemes entry state_index(X) of the
remove_unused module (its own index function) against entry state_index(X) of the plain module, monitor_values by monitor_index, missing_values by
requested slot (rtol 1e-12, atol 1e-12 x (1 + magnitude)).  A differing result that is a permutation of the expected one is reported as
C12:<be>:slot-layout-differs (the derivatives are computed but do not sit in their state_index slots).  Half of the models have the shape
"derivatives independent of each other + unused intermediates that mention states / parameters in various orders", a third has intermediates -
preferably unused monitors like i_cap = Cm*dV_dt - that mention a d<state>_dt name: all derivatives must still be computed and sit in their
slots.  Models whose remove_unused=False module cannot be generated are skipped.
Non-trivial: the model has at least one unused name (parameter, intermediate or unread state); distinct by sha1(text, back end,
function, point)."""


def cases(tier, seed, focus):
    n = 220 if tier == "quick" else 2500
    for i in range(n):
        k = seed * 100003 + i
        bes = ["numpy"] + (["c"] if i % 2 == 0 else []) + (["jax"] if i % 6 == 5 else [])
        yield {"mseed": k, "opts": {"n_states": [2, 5] if i % 4 else [1, 5], "n_inter": [1, 8], "n_params": [1, 5], "shuffle": 0.5, "own": 0.3,
                                    "own_forms": [f for f in mg.OWN_FORMS if f not in ("floor", "Mod")], "force": list(mg.feature_cycle(k, 1)),
                                    "indep": 0.5 if i % 4 else 0.0, "deriv_ref": 0.35},
               "npts": 2, "backends": bes, "tags": ["C12"]}


def check(case):
    res = cm.new_result()
    try:
        c = cm.materialize(case)
        ref = mg.RefModel(c["ode"])
    except Exception as e:  # noqa: BLE001
        res["errors"].append(f"reference cannot read generated model: {cm.exc_name(e)}: {cm.short(e)}")
        return res
    text = c["ode"]
    shr = not case.get("_noshrink")
    res["sample"] = {"ode": text, "points": c["points"][:1]}
    try:
        ode = cm.load(text)
    except Exception as e:  # noqa: BLE001
        cm.note(res, f"skipped:loader-rejects:{cm.exc_name(e)}")
        return res
    used = ref.used_names()
    has_unused = any(n not in used for n in list(ref.params) + ref.inter_names + list(ref.states))
    req = [k for k in (c.get("missing") or {}) if k in ref.assigns or k in ref.states or k in ref.params]
    unused_p = [p for p in ref.params if p not in used] or list(ref.params)
    req = {k: i for i, k in enumerate(req)} or {k: i for i, k in enumerate(ref.inter_names[-2:] + ref.state_names[:1] + unused_p[:1])}
    stiff = [ref.state_names[0]]
    only = c.get("only")
    for bk in c.get("backends", ["numpy"]):
        def add(kind, what, inp, exp=None, act=None, detail=""):
            f = cm.fail(f"C12:{bk}:{kind}", what, dict(inp, backends=[bk], missing=req), exp, act, detail)
            if shr:
                f["_shrink"] = {"base": f"C12:{bk}:{kind}"}
            res["failures"].append(f)

        schemes = SCHEMES
        kw = {"missing_values": req, "stiff_states": stiff}
        try:
            a = be.build(ode, bk, schemes, **kw)
        except be.Stage:
            schemes, kw = [], {"missing_values": req}
            try:
                a = be.build(ode, bk, **kw)
            except be.Stage as e:
                cm.note(res, f"skipped:{bk}:{e.stage}-fails-without-remove_unused")
                continue
        with a:
            b = None
            for attempt in (0, 1):
                try:
                    b = be.build(ode, bk, schemes, remove_unused=True, **kw)
                    break
                except be.Stage as e:
                    res["evals"] += 1
                    allnames = set(ref.states) | set(ref.params) | set(ref.assigns)
                    k = f"generation-raises:{cm.exc_site(e.exc)}" if e.stage == "codegen" else f"{e.stage}-error:{cm.compile_key(e.exc, allnames) if e.stage == 'compile' else cm.msg_key(e.exc)}"
                    if attempt == 0:
                        add(k, f"module with remove_unused=True cannot be built ({e.stage}) although remove_unused=False can", {"ode": text, "points": []}, "module", cm.exc_name(e.exc), str(e) + " " + e.detail[:300])
                    if "missing_values" not in kw:
                        break
                    kw = {k2: v for k2, v in kw.items() if k2 != "missing_values"}  # retry without missing_values so that the other functions are still compared
            if b is None:
                continue
            if "missing_values" not in kw:
                a.close()
                try:
                    a = be.build(ode, bk, schemes, **kw)
                except be.Stage:
                    b.close()
                    continue
            with b:
                res["evals"] += 1
                inp0 = {"ode": text, "points": []}
                for which in ("state", "parameter", "monitor"):
                    if getattr(a, which) != getattr(b, which):
                        add(f"layout-changed:{which}", f"{which} index table differs with remove_unused", inp0, getattr(a, which), getattr(b, which))
                try:
                    for fn, n in (("init_state_values", a.n_states), ("init_parameter_values", a.n_params)):
                        if bk == "jax" and n == 0:
                            continue
                        va = a.lib.init(fn, n) if bk == "c" else np.asarray(a.ns[fn](), dtype=float)
                        vb = b.lib.init(fn, n) if bk == "c" else np.asarray(b.ns[fn](), dtype=float)
                        if va.shape != vb.shape or not np.array_equal(va, vb, equal_nan=True):
                            add(f"init-changed:{fn}", f"{fn} differs with remove_unused", inp0, cm.tolist(va), cm.tolist(vb))
                except Exception as e:  # noqa: BLE001
                    add(f"init-raises:{cm.exc_name(e)}", "init function raises with remove_unused", inp0, None, cm.short(e))
                fns = [("rhs", None, a.n_states), ("monitor_values", None, a.n_mon)] + ([("missing_values", None, len(req))] if "missing_values" in kw else []) + [(s, 0.05, a.n_states) for s in schemes]
                broken = set()
                for pt in c["points"]:
                    pt = cm.restrict_point(pt, ref)
                    s, p = a.arrays(pt)
                    s_b, p_b = b.arrays(pt)  # laid out by the remove_unused module's own index functions
                    for fn, dt, n in fns:
                        if fn in broken or (only and only != fn):
                            continue
                        try:
                            va = a.raw(fn, s, pt["t"], p, dt=dt, n_out=n)
                        except be.Stage:
                            continue
                        if not np.all(np.isfinite(va[:n])):
                            continue
                        res["evals"] += 1
                        inp = {"ode": text, "points": [pt], "only": fn}
                        if has_unused:
                            res["nontrivial"].append(cm.sha([text, bk, fn, pt]))
                        try:
                            vb = b.raw(fn, s_b, pt["t"], p_b, dt=dt, n_out=n)
                        except be.Stage as e:
                            broken.add(fn)
                            add(f"call-raises:{cm.exc_name(e.exc)}:{group(fn)}", f"{fn} of the remove_unused module raises", inp, "array", cm.exc_name(e.exc), str(e))
                            continue
                        if va.shape != vb.shape:
                            broken.add(fn)
                            add(f"length-changed:{group(fn)}", f"{fn} returns {vb.shape} instead of {va.shape} with remove_unused", inp, list(va.shape), list(vb.shape))
                            continue
                        # by name: slot of each module's own index function
                        try:
                            if fn == "monitor_values":
                                pa = {k: float(va[a.index("monitor", k)]) for k in a.monitor}
                                pb = {k: float(vb[b.index("monitor", k)]) for k in a.monitor}
                            elif fn == "missing_values":
                                pa = {k: float(va[i]) for k, i in req.items()}
                                pb = {k: float(vb[i]) for k, i in req.items()}
                            else:
                                pa = {k: float(va[a.index("state", k)]) for k in a.state}
                                pb = {k: float(vb[b.index("state", k)]) for k in a.state}
                        except Exception as e:  # noqa: BLE001 - an index function of the remove_unused module does not know a declared name
                            broken.add(fn)
                            add("layout-changed:index-raises", f"an index function of the remove_unused module raises for a declared name ({fn})", inp, "index", cm.exc_name(e), cm.short(e))
                            continue
                        bad = {k: pb[k] for k in pa if not (cm.vclose(pb[k], pa[k], 0.0, 1e-12) or (np.isnan(pa[k]) and np.isnan(pb[k])))}
                        if bad:
                            broken.add(fn)
                            perm = len(bad) >= 2 and all(cm.vclose(x, y, 0.0, 1e-12) for x, y in zip(sorted(bad.values()), sorted(pa[k] for k in bad)))
                            if perm and fn != "missing_values":
                                add("slot-layout-differs", f"{fn} of the remove_unused module computes the same values but not in the slots its index function reports (by name: {sorted(bad)[:4]})", inp,
                                    {k: pa[k] for k in bad}, bad, f"state table {b.state}; function {fn}; derivative references {ref.deriv_refs()}")
                            else:
                                add(f"values-changed:{group(fn)}", f"{fn} result differs with remove_unused (by name: {sorted(bad)[:4]})", inp, {k: pa[k] for k in bad}, bad,
                                    f"state table {b.state}; derivative references {ref.deriv_refs()}")
                    if shr and res["failures"]:
                        break
    return res


def group(fn):
    return fn if fn in ("rhs", "monitor_values", "missing_values") else "scheme"


run, replay = cm.make_api(globals())
