"""C05: explicit Euler (all aliases, all back ends) == states + dt*rhs of the same module."""
from __future__ import annotations

import numpy as np

import backends as be
import common as cm
import modelgen as mg

ID = "C05"
ALIASES = ["explicit_euler", "euler", "forward_euler", "forward_explicit_euler"]
DTS = [0.0, 1e-12, 1.0, -3.0, 1e6]
BACKENDS = ["numpy", "c", "jax"]
RULE = """Models from modelgen.gen_model (1-5 states, 0-5 parameters, 0-8 intermediates, 0-3 components, all grammar
features in rotation).  For each model and back end (numpy, C via gcc+ctypes, jax jitted) a module is generated that contains
rhs and the explicit Euler step under all four names accepted by gotranx.schemes.get_scheme (explicit_euler, euler,
forward_euler, forward_explicit_euler; the two enum members also through get_code(scheme=[...])).  One case = one (model, back end,
alias, point, dt) with dt in {0, 1e-12, 1, -3, 1e6}: the step must equal states + dt*rhs(t, states, parameters) computed with
the rhs of the same module (rtol 1e-9 of |states|+|dt*rhs|), must return the input states bit-for-bit when dt = 0, and must leave
the states/parameters arrays unmodified.  Models whose plain rhs cannot be generated / compiled / run on a back end, and points where the C / jax rhs is not
reproducible or differs from the NumPy rhs, are skipped (that belongs to C01/C02/C03).  The same checks are ALSO made on a module generated with remove_unused=True (dt in {0, 1, -3}), there BY NAME: entry state_index(X) (the module's own
index function) of the step must be X + dt * dX with dX = entry state_index(X) of the rhs of the plain module of that back end (signatures
end in :remove_unused).  A third of the models have the shape "derivatives independent of each other + unused intermediates that mention states /
parameters in various orders", a fifth has intermediates that mention a d<state>_dt name.  Value tolerance: rtol 1e-9 plus atol 1e-12 x (1 +
magnitude).  Non-trivial: rhs not identically zero at the point and dt != 0; distinct by sha1(text, back end, alias, point, dt, variant)."""
USES_SHRINK = True
CASE_TIMEOUT = 60


def cases(tier, seed, focus):
    n = 150 if tier == "quick" else 1500
    for i in range(n):
        k = seed * 100003 + i
        bes = ["numpy", "c"] + (["jax"] if i % (5 if tier == "quick" else 3) == 0 else [])
        yield {"mseed": k, "opts": {"force": list(mg.feature_cycle(k)), "indep": 0.35, "deriv_ref": 0.2}, "npts": 2, "backends": bes, "tags": ["C05"]}


def check(case):
    res = cm.new_result()
    try:
        c = cm.materialize(case)
        ref = mg.RefModel(c["ode"])
    except Exception as e:  # noqa: BLE001
        res["errors"].append(f"reference cannot read generated model: {cm.exc_name(e)}: {cm.short(e)}")
        return res
    text = c["ode"]
    shr = not case.get("_noshrink")
    res["sample"] = {"ode": text, "backends": c.get("backends", BACKENDS), "points": c["points"][:1]}
    try:
        ode = cm.load(text)
    except Exception as e:  # noqa: BLE001
        cm.note(res, f"skipped:loader-rejects:{cm.exc_name(e)}")
        return res
    aliases = c.get("aliases", ALIASES)
    dts = c.get("dts", DTS)
    try:
        npref = be.build(ode, "numpy")
    except be.Stage:
        npref = None
    for bk in c.get("backends", BACKENDS):
        if bk == "c" and ref.c_unsafe():
            # an integer-literal quotient in the text: the C value of the rate itself is wrong (listed finding of C02), nothing to learn here
            cm.note(res, "skipped:c:integer-quotient-territory(C02)")
            continue
        def add(kind, what, inp, exp=None, act=None, detail=""):
            f = cm.fail(f"C05:{bk}:{kind}", what, dict(inp, backends=[bk]), exp, act, detail)
            if shr:
                f["_shrink"] = {"base": f"C05:{bk}:{kind}"}
            res["failures"].append(f)

        try:
            with be.build(ode, bk) as plain:
                plain.rhs(c["points"][0]) if c["points"] else None
        except be.Stage as e:
            cm.note(res, f"skipped:{bk}:plain-module-{e.stage}-fails")
            continue
        variants = c.get("variants", ["", ":remove_unused"])
        for suffix in variants:
            ru = {"remove_unused": True} if suffix else {}
            try:
                mod = be.build(ode, bk, ["explicit_euler", "forward_explicit_euler"], aliases=[a for a in aliases if a not in ("explicit_euler", "forward_explicit_euler")], **ru)
            except be.Stage as e:
                if suffix:
                    cm.note(res, f"skipped:{bk}:remove_unused-module-{e.stage}-fails(C12)")
                    continue
                res["evals"] += 1
                add(e.kind, f"{bk} module with explicit Euler cannot be built although the plain module can", {"ode": text}, "module", cm.exc_name(e.exc), str(e))
                break
            with mod:
                check_module(mod, bk, suffix, c, ref, text, aliases, [d for d in dts if d in (0.0, 1.0, -3.0)] or dts[:1] if suffix and "dts" not in c else dts, npref, ode, res, add, shr)
            if shr and res["failures"]:
                break
    return res


def check_module(mod, bk, suffix, c, ref, text, aliases, dts, npref, ode, res, add, shr):
    plain = None
    try:
        if suffix:
            plain = be.build(ode, bk)
        for pt in c["points"]:
            pt = cm.restrict_point(pt, ref)
            try:
                s, p = mod.arrays(pt)
                f = mod.raw("rhs", s, pt["t"], p)[: mod.n_states]
                if plain is not None:  # by name: the derivative of X from the plain module, placed in the slot this module's state_index reports for X
                    fp = plain.rhs(pt)
                    f = np.array([fp[k] for k, _ in sorted(mod.state.items(), key=lambda kv: mod.index("state", kv[0]))], dtype=float)
            except (be.Stage, KeyError):
                cm.note(res, f"skipped:{bk}:rhs-call-fails")
                continue
            if not np.all(np.isfinite(f)):
                continue
            if bk != "numpy" or suffix:  # the rhs of this back end must be the model's rhs (deterministic, equal to NumPy's): otherwise C02/C03
                try:
                    base = plain if plain is not None else mod
                    sb, pb = base.arrays(pt)
                    again = base.raw("rhs", sb, pt["t"], pb)[: base.n_states]
                    first = base.raw("rhs", sb, pt["t"], pb)[: base.n_states]
                    npf = npref.rhs(pt) if npref is not None else None
                except be.Stage:
                    npf = None
                if not np.array_equal(again, first) or npf is None or not all(cm.vclose(first[base.index("state", k)], v, 0.0) for k, v in npf.items()):
                    cm.note(res, f"skipped:{bk}:rhs-differs-from-numpy(C02/C03)")
                    continue
            for al in aliases:
                for dt in dts:
                    res["evals"] += 1
                    inp = {"ode": text, "points": [pt], "aliases": [al], "dts": [dt], "variants": [suffix]}
                    if np.any(f != 0) and dt != 0:
                        res["nontrivial"].append(cm.sha([text, bk, al, pt, dt, suffix]))
                    if not mod.has(al):
                        add("alias-not-emitted" + suffix, f"no function named {al} in the module generated for get_scheme({al!r})", inp, al, None)
                        continue
                    s1, p1 = s.copy(), p.copy()
                    try:
                        got = mod.raw(al, s1, pt["t"], p1, dt=dt)[: mod.n_states]
                    except be.Stage as e:
                        add(f"call-raises:{cm.exc_name(e.exc)}" + suffix, f"{al} raises", inp, "values", cm.exc_name(e.exc), str(e))
                        continue
                    want = s + dt * f
                    tol = 1e-9 * (np.abs(s) + np.abs(dt * f)) + cm.ref_atol(0.0) * (1 + np.maximum(np.abs(s), np.abs(dt * f)))
                    if got.shape != want.shape or not np.all(np.abs(got - want) <= tol):
                        kind = "dt0-not-identity" if dt == 0 else "euler-mismatch"
                        add(kind + suffix, f"{al}(dt={dt})" + (" of the module generated with remove_unused=True" if suffix else "") + " != states + dt*rhs" + (" (by name)" if suffix else ""), inp, cm.tolist(want), cm.tolist(got),
                            f"state table {mod.state}" if suffix else "")
                    elif dt == 0 and not np.array_equal(got, s):
                        add("dt0-not-identity" + suffix, f"{al}(dt=0) does not return the input states exactly", inp, cm.tolist(s), cm.tolist(got))
                    if not (np.array_equal(s1, s) and np.array_equal(p1, p)):
                        add("inputs-modified" + suffix, f"{al} modifies its input arrays", inp, [cm.tolist(s), cm.tolist(p)], [cm.tolist(s1), cm.tolist(p1)])
                if shr and res["failures"]:
                    break
    finally:
        if plain is not None:
            plain.close()
    return res


run, replay = cm.make_api(globals())
