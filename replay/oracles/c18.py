"""C18: `python -m gotranx <cmd>` writes exactly what the API generates for the same options."""
from __future__ import annotations

import json
import os
import random
import re
import shutil
import stat
import subprocess
from pathlib import Path

import common as cm
import modelgen as mg

ID = "C18"
CASE_TIMEOUT = 150
RULE = """One case = one `python -m gotranx <cmd> ...` run (PYTHONHASHSEED=0) in a fresh temp cwd holding only the model file (and a
config / pyproject.toml when the case has one), compared with the API text computed in process (re-computed in a child
interpreter with PYTHONHASHSEED=0 before any mismatch is reported): gotran2py/gotran2c.get_code(load_ode(file), scheme, format,
remove_unused, delta, stiff_states, backend) with the options the user asked for (command line, overridden by config values as
docs/config.md states), resp. cellml_to_gotran(file).save for cellml2ode.  Checked: exit code 0, output file under the expected
name (model stem or -o name, with the .py/.h/.c/--to suffix) with exactly the API text, no other new file.  When the text
differs each requested option is reset to its default in turn; if the CLI text equals that API text the option is named in the
signature.  Invalid inputs (syntax error, missing derivative, undefined symbol, garbage, missing file; each checked to be
rejected by load_ode) must give a non-zero exit and no new file.  Sub-commands ode2py, ode2c, convert, cellml2ode; options
--scheme (all 5 members, repeated), -s/--stiff-states, --delta, --remove-unused, --format none|black|ruff / none|clang-format,
--backend, --jax, -o, --to, -v, --config file and pyproject.toml ([tool.gotranx] scheme/delta/stiff_states/verbose, .python
format/backend, .c to/format; also the legal but falsy values delta = 0.0, stiff_states = [], scheme = [], verbose = false while the command line
gives other values: the expected output is the API text for the configuration values, and with a `verbose` key in the configuration file DEBUG
log lines must appear iff that value is true).  clang-format is absent on this machine: ode2c/convert-to-C cases that need it run with a fake
`clang-format` (prefixes a marker line) first on PATH for both the CLI and the API; `ode2c --format none` is also run in the
real environment where it must not need clang-format.  Models: lorentz.ode, fitzhughnagumo.ode, a hand-written model with unused
names, modelgen models with 1-3 states (quick 3, thorough 12 per seed), noble_1962.cellml.  Quick: a covering set (~190 runs:
every option alone and combined with a scheme, on two models); thorough adds seeded random combinations of 2-5 options (~1200
runs).  Non-trivial: at least one non-default option or an invalid input; distinct by sha1(cmd, argv, model text, config)."""

LORENTZ = "/repo/tests/odefiles/lorentz.ode"
FITZ = "/repo/tests/odefiles/fitzhughnagumo.ode"
CELLML = "/repo/tests/cellml_files/noble_1962.cellml"
UNUSED = ("parameters(a=2.0, b=0.5, never=7.5)\nstates(x=1.5, y=2.0)\nu1 = x*2\nu2 = u1 + b\ni1 = a*x\ndx_dt = -i1 + y\ndy_dt = a - y*x\n")
INVALID = {"syntax": "states(x=1\ndx_dt = = 3\n", "missing-derivative": "states(x=1, y=2)\ndx_dt = -x\n", "undefined-symbol": "states(x=1)\ndx_dt = -k*x\n",
           "garbage": "this is not a model\n"}
SCHEMES = ["explicit_euler", "generalized_rush_larsen", "forward_explicit_euler", "forward_generalized_rush_larsen", "hybrid_rush_larsen"]
FAKE = '#!/bin/sh\necho "/* formatted by fake clang-format */"\nfor a in "$@"; do case "$a" in --*) ;; *) cat "$a";; esac; done\n'
DEFAULTS = {"scheme": [], "stiff": [], "delta": 1e-8, "remove_unused": False, "backend": "numpy"}

API_CHILD = r"""
import sys, json
sys.path.insert(0, %r)
from oracles import c18
reqs = json.load(open(sys.argv[1]))
json.dump([c18.api_text(r) for r in reqs], open(sys.argv[2], "w"))
""" % cm.HERE


# --------------------------------------------------------------------------------------
# case generation
# --------------------------------------------------------------------------------------
def models(seed, n):
    out = [{"name": "lorentz", "file": LORENTZ}, {"name": "fitzhughnagumo", "file": FITZ}, {"name": "unused", "ode": UNUSED}]
    k = 0
    while len(out) < 3 + n and k < 40 * n:
        ms = seed * 100003 + k
        k += 1
        m = mg.gen_model(ms, mg.GenOpts(n_states=(1, 3), n_params=(1, 3), n_inter=(1, 4), n_comps=(0, 1), depth=2, own=0.5,
                                        features=tuple(f for f in mg.ALL_FEATURES if f not in ("floor", "Mod", "Eq", "Not", "And3", "Or3", "nestcond", "relarith"))))
        try:  # only models the API handles with the Rush-Larsen schemes (what the API cannot do is not C18's subject)
            cm.py_code(cm.load(m.text), SCHEMES[1:2])
        except Exception:  # noqa: BLE001
            continue
        out.append({"name": f"gen{ms}", "ode": m.text})
    return out


def states_of(m):
    return mg.RefModel(m["ode"] if "ode" in m else open(m["file"]).read()).state_names


def atoms(cmd, st, flip=0):
    """single-option settings of a sub-command: (tag, opts, config); config atoms alternate between a pyproject.toml in the
    cwd and --config file (flip swaps the two)"""
    s1, s2 = st[0], st[-1]
    A = []
    modes = ("pyproject", "file") if not flip else ("file", "pyproject")
    if cmd in ("ode2py", "ode2c", "convert"):
        A += [("scheme", {"scheme": [s]}, None) for s in SCHEMES]
        A += [("scheme", {"scheme": ["explicit_euler", "generalized_rush_larsen"]}, None), ("scheme", {"scheme": ["hybrid_rush_larsen", "explicit_euler", "forward_generalized_rush_larsen"], "stiff": [s1]}, None),
              ("stiff-states", {"scheme": ["hybrid_rush_larsen"], "stiff": [s1]}, None), ("stiff-states", {"scheme": ["hybrid_rush_larsen"], "stiff": [s1, s2], "long": True}, None),
              ("delta", {"scheme": ["generalized_rush_larsen"], "delta": 0.001}, None), ("delta", {"scheme": ["hybrid_rush_larsen"], "stiff": [s2], "delta": 0.5}, None),
              ("remove-unused", {"remove_unused": True}, None), ("outname", {"outname": "out"}, None), ("verbose", {"verbose": True}, None)]
    if cmd == "ode2py":
        A += [("format", {"format": "black"}, None), ("format", {"format": "ruff"}, None), ("format", {"format": "DEFAULT"}, None), ("backend", {"backend": "jax"}, None), ("backend", {"backend": "numpy"}, None),
              ("outname", {"outname": "res.py"}, None)]
        for mode in ("M",):
            A += [("config-scheme", {}, {"mode": mode, "data": {"scheme": ["explicit_euler", "generalized_rush_larsen"]}}),
                  ("config-delta", {"scheme": ["generalized_rush_larsen"], "delta": 0.001}, {"mode": mode, "data": {"delta": 1e-5}}),
                  ("config-stiff_states", {"scheme": ["hybrid_rush_larsen"]}, {"mode": mode, "data": {"stiff_states": [s1]}}),
                  ("config-verbose", {}, {"mode": mode, "data": {"verbose": True}}),
                  ("config-python.format", {"format": "black"}, {"mode": mode, "data": {"python": {"format": "none"}}}),
                  ("config-python.format", {}, {"mode": mode, "data": {"python": {"format": "black"}}}),
                  ("config-python.backend", {}, {"mode": mode, "data": {"python": {"backend": "jax"}}}),
                  ("config-scheme", {"scheme": ["explicit_euler"], "delta": 0.25}, {"mode": mode, "data": {"scheme": ["hybrid_rush_larsen"], "stiff_states": [s2], "delta": 0.125, "verbose": True}})]
            A += falsy_atoms(mode, s1, s2)
    if cmd == "ode2c":
        A += [("to", {"to": ".c"}, None), ("to", {"to": ".h"}, None), ("format", {"format": "clang-format"}, None), ("format", {"format": "none"}, None), ("outname", {"outname": "res.h"}, None),
              ("to", {"to": ".c", "outname": "res"}, None)]
        for mode in ("M",):
            A += [("config-scheme", {}, {"mode": mode, "data": {"scheme": ["explicit_euler", "generalized_rush_larsen"]}}),
                  ("config-delta", {"scheme": ["generalized_rush_larsen"]}, {"mode": mode, "data": {"delta": 1e-5}}),
                  ("config-stiff_states", {"scheme": ["hybrid_rush_larsen"]}, {"mode": mode, "data": {"stiff_states": [s1]}}),
                  ("config-c.to", {}, {"mode": mode, "data": {"c": {"to": ".c"}}}), ("config-c.format", {}, {"mode": mode, "data": {"c": {"format": "none"}}}),
                  ("config-c.format", {"format": "none"}, {"mode": mode, "data": {"c": {"format": "clang-format"}}})]
            A += falsy_atoms(mode, s1, s2)
    if cmd == "convert":
        A += [("to", {"to": ".py"}, None), ("to", {"to": ".c"}, None), ("to", {"to": ".h"}, None), ("to", {"to": "py"}, None), ("to", {"to": "python"}, None), ("to", {"to": "c"}, None),
              ("jax", {"to": ".py", "jax": True}, None), ("jax", {"outname": "jaxmod.py", "jax": True}, None), ("outname", {"outname": "res.py"}, None), ("outname", {"outname": "res.c"}, None)]
    j = 0
    for i, (tag, o, cfg) in enumerate(A):
        if cfg:
            A[i] = (tag, o, dict(cfg, mode=modes[j % 2]))
            j += 1
    return A


def falsy_atoms(mode, s1, s2):
    """configuration values that are legal but falsy (0.0, [], false) must override the command line like any other value"""
    return [("config-delta", {"scheme": ["generalized_rush_larsen"], "delta": 0.001}, {"mode": mode, "data": {"delta": 0.0}}),
            ("config-stiff_states", {"scheme": ["hybrid_rush_larsen"], "stiff": [s1]}, {"mode": mode, "data": {"stiff_states": []}}),
            ("config-scheme", {"scheme": ["explicit_euler", "generalized_rush_larsen"]}, {"mode": mode, "data": {"scheme": []}}),
            ("config-verbose", {"verbose": True}, {"mode": mode, "data": {"verbose": False}}),
            ("config-delta", {"scheme": ["hybrid_rush_larsen", "generalized_rush_larsen"], "stiff": [s2], "delta": 0.25, "verbose": True}, {"mode": mode, "data": {"stiff_states": [], "delta": 0.0, "verbose": False}})]


def mk(cmd, model, opts, config=None, env="real", tag=None, invalid=None):
    o = dict(opts)
    if cmd == "ode2py" and "format" not in o:
        o["format"] = "none"  # keep black out of the way unless it is the subject
    if o.get("format") == "DEFAULT":
        del o["format"]
    if cmd == "convert" and "to" not in o and not Path(o.get("outname", "")).suffix:
        o["to"] = ".py"  # without --to and without a suffix on -o no language is requested at all
    lang_c = cmd == "ode2c" or (cmd == "convert" and (o.get("to") or Path(o.get("outname", "x.py")).suffix) in (".c", ".h", "c"))
    if lang_c:
        env = "fake"
    tags = [f"C18:{cmd}"] + ([f"C18:{cmd}:{tag}"] if tag else []) + ([f"C18:{cmd}:invalid-model"] if invalid else [])
    c = {"cmd": cmd, "model": model, "opts": o, "env": env, "tags": tags}
    if config:
        c["config"] = config
    if invalid:
        c["invalid"] = invalid
    return c


def cases(tier, seed, focus):
    quick = tier == "quick"
    rng = random.Random(f"C18/{seed}")
    ms = models(seed, 3 if quick else 12)
    out = []
    # ode2c --format none in the real environment (no clang-format anywhere): must be honoured
    real = [mk("ode2c", ms[0], {"format": "none"}, tag="format"), mk("ode2c", ms[1], {"format": "none", "scheme": ["explicit_euler"], "to": ".c"}, tag="format"),
            mk("ode2c", ms[2], {}, {"mode": "pyproject", "data": {"c": {"format": "none"}}}, tag="config-c.format")]
    for c in real:
        c["env"] = "real"
    out += real
    first, second = [], []
    for cmd in ("ode2py", "ode2c"):  # a pyproject.toml in a directory that is not a project root (no .git, no [tool.black])
        out.append(mk(cmd, ms[0], {}, {"mode": "pyproject-bare", "data": {"scheme": ["explicit_euler"], "delta": 1e-5}}, tag="pyproject-not-found"))
    for cmd in ("ode2py", "ode2c", "convert"):
        A = atoms(cmd, ["x", "y"])
        first.append(mk(cmd, ms[0], {}, tag="plain"))
        second.append(mk(cmd, ms[1], {}, tag="plain"))
        for i, (tag, _, _) in enumerate(A):
            for rep in range(2):  # alone on one model, combined with a scheme (or --remove-unused) on another
                m = ms[2 + rep] if tag == "remove-unused" else ms[(i + 2 * rep) % len(ms)]
                tag2, o2, cfg2 = atoms(cmd, states_of(m), flip=rep)[i]
                o2 = dict(o2)
                if rep == 1:
                    if "scheme" in o2 or (cfg2 and "scheme" in cfg2["data"]):
                        o2["remove_unused"] = True
                    else:
                        o2["scheme"] = [SCHEMES[i % 2]]
                    o2["long"] = True
                (second if rep else first).append(mk(cmd, m, o2, cfg2, tag=tag2))
    cel = {"name": "noble_1962", "file": CELLML}
    inv = []
    first += [mk("cellml2ode", cel, {}, tag="plain"), mk("cellml2ode", cel, {"outname": "out.ode"}, tag="outname"), mk("cellml2ode", cel, {"verbose": True}, tag="verbose"),
            mk("cellml2ode", cel, {}, {"mode": "file", "data": {"verbose": True}}, tag="config-verbose"), mk("cellml2ode", cel, {}, {"mode": "pyproject", "data": {"verbose": True, "scheme": ["explicit_euler"]}}, tag="config-verbose"),
            mk("convert", cel, {"to": ".ode"}, tag="to"), mk("convert", cel, {"to": ".ode", "outname": "conv.ode"}, tag="outname")]
    for cmd in ("ode2py", "ode2c", "convert"):
        for kind, text in INVALID.items():
            inv.append(mk(cmd, {"name": "bad", "ode": text}, {"format": "none"} if cmd != "convert" else {"to": ".py"}, invalid=kind))
        inv.append(mk(cmd, {"name": "nosuchfile", "missing": True}, {"format": "none"} if cmd != "convert" else {"to": ".c"}, invalid="missing-file"))
        inv.append(mk(cmd, {"name": "bad", "ode": INVALID["syntax"]}, {"format": "none", "outname": "out", "scheme": ["explicit_euler"]} if cmd != "convert" else {"outname": "out.py"}, invalid="syntax"))
    inv += [mk("cellml2ode", {"name": "bad", "cellml": "<model><not closed>"}, {}, invalid="bad-xml"), mk("cellml2ode", {"name": "nosuchfile", "missing": True, "cellml": ""}, {}, invalid="missing-file"),
            mk("cellml2ode", {"name": "bad", "cellml": open(CELLML).read()[:3000]}, {"outname": "o.ode"}, invalid="bad-xml")]
    # every option once (kinds interleaved by shuffling), then the invalid inputs, then every option a second time
    rng2 = random.Random(f"C18o/{seed}")
    for part in (first, inv, second):
        rng2.shuffle(part)
        out += part
    if not quick:
        for j in range(1000):
            cmd = rng.choice(["ode2py", "ode2py", "ode2c", "convert"])
            m = rng.choice(ms)
            st = states_of(m)
            A = atoms(cmd, st, flip=j % 2)
            o, cfg, tagl = {}, None, []
            for tag, oa, ca in rng.sample(A, rng.randint(2, 5)):
                for k, v in oa.items():
                    o.setdefault(k, v)
                if ca and cfg is None:
                    cfg = ca
                tagl.append(tag)
            if "stiff" in o and "hybrid_rush_larsen" not in o.get("scheme", []):
                o["scheme"] = list(o.get("scheme", [])) + ["hybrid_rush_larsen"]
            o["long"] = rng.random() < 0.5
            c = mk(cmd, m, o, cfg, tag=tagl[0])
            c["tags"] += [f"C18:{cmd}:{t}" for t in tagl[1:]]
            out.append(c)
    seen = set()
    for c in out:
        h = cm.sha({k: v for k, v in c.items() if k != "tags"})
        if h not in seen:
            seen.add(h)
            yield c


# --------------------------------------------------------------------------------------
# API side
# --------------------------------------------------------------------------------------
def api_text(req):
    """text the API produces for a request; {'exc': ...} when the API itself raises"""
    import gotranx
    from gotranx.cli import gotran2c, gotran2py

    try:
        with cm.quiet():
            if req["lang"] == "ode":
                from gotranx.myokit import cellml_to_gotran

                ode = cellml_to_gotran(Path(req["file"]))
                with cm.tempdir("c18s_") as d:
                    p = Path(d) / "expected.ode"
                    ode.save(p)
                    return p.read_text()
            ode = gotranx.load_ode(req["file"])
            kw = dict(scheme=[cm.SCHEME_OF[s] for s in req["scheme"]], remove_unused=req["remove_unused"], delta=req["delta"], stiff_states=list(req["stiff"]))
            if req["lang"] == "c":
                if req.get("fake_clang") and req["format"] == "clang-format":
                    use_fake(req["fake_clang"])
                return gotran2c.get_code(ode, format=cm.CFormat(req["format"]), **kw)
            return gotran2py.get_code(ode, format=cm.PyFormat(req["format"]), backend=gotran2py.Backend(req["backend"]), **kw)
    except Exception as e:  # noqa: BLE001
        return {"exc": cm.exc_site(e), "msg": cm.short(e)}


def use_fake(path):
    """make clang_format_docs (imported lazily by gotranx) use the fake binary of this case"""
    old = os.environ.get("PATH", "")
    os.environ["PATH"] = os.path.dirname(path) + os.pathsep + old
    try:
        import clang_format_docs
    finally:
        os.environ["PATH"] = old
    clang_format_docs.clang_format = path


def api_child(reqs, d, env):
    job, out = os.path.join(d, "_api_job.json"), os.path.join(d, "_api_out.json")
    with open(job, "w") as f:
        json.dump(reqs, f)
    r = subprocess.run([cm.PY, "-c", API_CHILD, job, out], capture_output=True, text=True, env=env, cwd=d, timeout=120)
    try:
        if r.returncode != 0:
            raise RuntimeError(f"API child failed rc={r.returncode}: {r.stderr[-300:]}")
        return json.load(open(out))
    finally:
        for p in (job, out):
            if os.path.exists(p):
                os.unlink(p)


def toml_of(data):
    def v(x):
        if isinstance(x, bool):
            return "true" if x else "false"
        if isinstance(x, list):
            return "[" + ", ".join(v(i) for i in x) + "]"
        return json.dumps(x)

    lines = ["[tool.gotranx]"] + [f"{k} = {v(x)}" for k, x in data.items() if not isinstance(x, dict)]
    for sec in ("python", "c"):
        if sec in data:
            lines += ["", f"[tool.gotranx.{sec}]"] + [f"{k} = {v(x)}" for k, x in data[sec].items()]
    return "\n".join(lines) + "\n"


def effective(case):
    """(lang, effective options, {option name: (key, fallback value)}, expected suffix)"""
    cmd, o = case["cmd"], case["opts"]
    if cmd == "cellml2ode" or (cmd == "convert" and o.get("to") == ".ode"):
        return "ode", {}, {}, ".ode"
    to = o.get("to")
    if cmd == "ode2py":
        to = ".py"
    elif cmd == "ode2c":
        to = to or ".h"
    elif not to:
        to = Path(o["outname"]).suffix
    lang = "c" if to in (".c", ".h", "c") else "py"
    eff = dict(DEFAULTS, format="clang-format" if lang == "c" else "black")
    fb = {}
    for k, name in (("scheme", "scheme"), ("stiff", "stiff-states"), ("delta", "delta"), ("remove_unused", "remove-unused"), ("format", "format"), ("backend", "backend")):
        if k in o and o[k] != eff[k]:
            fb[name] = (k, eff[k])
            eff[k] = o[k]
    if o.get("jax"):
        fb["jax"] = ("backend", "numpy")
        eff["backend"] = "jax"
    data = (case.get("config") or {}).get("data") or {}
    nocfg = dict(eff)
    if cmd in ("ode2py", "ode2c"):
        for kc, k in (("scheme", "scheme"), ("delta", "delta"), ("stiff_states", "stiff")):
            if kc in data and data[kc] != eff[k]:
                fb["config-" + kc] = (k, eff[k])
                eff[k] = data[kc]
        sec = data.get("python" if cmd == "ode2py" else "c") or {}
        for kc in ("format", "backend") if cmd == "ode2py" else ("format",):
            if kc in sec and sec[kc] != eff[kc]:
                fb[f"config-{'python' if cmd == 'ode2py' else 'c'}.{kc}"] = (kc, eff[kc])
                eff[kc] = sec[kc]
        if cmd == "ode2c" and "to" in sec:
            to = sec["to"]
    suffix = to if to.startswith(".") else {"c": ".c", "py": ".py", "python": ".py"}[to]
    if nocfg != eff and len([n for n in fb if n.startswith("config-")]) > 1:
        fb["config"] = nocfg  # every config value ignored
    return lang, eff, fb, suffix


def argv_of(case, modelfile, cfgfile):
    o = case["opts"]
    a = [case["cmd"], modelfile]
    for s in o.get("scheme", []):
        a += ["--scheme", s]
    for s in o.get("stiff", []):
        a += ["--stiff-states" if o.get("long") else "-s", s]
    if "delta" in o:
        a += ["--delta", repr(o["delta"])]
    if o.get("remove_unused"):
        a += ["--remove-unused"]
    if "format" in o:
        a += ["-f" if o.get("long") is False else "--format", o["format"]]
    if "backend" in o:
        a += ["--backend", o["backend"]]
    if o.get("jax"):
        a += ["--jax"]
    if "outname" in o:
        a += ["--outname" if o.get("long") else "-o", o["outname"]]
    if "to" in o:
        a += ["--to", o["to"]]
    if o.get("verbose"):
        a += ["--verbose" if o.get("long") else "-v"]
    if cfgfile:
        a += ["-c" if o.get("long") is False and case["cmd"] != "cellml2ode" else "--config", cfgfile]
    return a


# --------------------------------------------------------------------------------------
def check(case):
    res = cm.new_result()
    try:
        with cm.tempdir("c18_") as top:
            _check(case, res, top)
    except subprocess.TimeoutExpired as e:
        res["failures"].append(cm.fail(f"C18:{case['cmd']}:timeout", "the command line run does not finish within 60 s", stored(case), "exit", "timeout", cm.short(e)))
    except Exception as e:  # noqa: BLE001
        import traceback

        res["errors"].append(f"C18: harness exception {cm.exc_name(e)}: {cm.short(e)} :: {traceback.format_exc()[-500:]}")
    return res


def stored(case):
    c = {k: v for k, v in case.items() if k not in ("tags",) and not k.startswith("_")}
    m = dict(c["model"])
    if "file" in m and m["file"].endswith(".ode"):
        m = {"name": m["name"], "ode": open(m["file"]).read()}
    c["model"] = m
    return c


def _check(case, res, top):
    cmd, o, m = case["cmd"], case["opts"], case["model"]
    cwd = os.path.join(top, "cwd")
    os.mkdir(cwd)
    is_cellml = cmd == "cellml2ode" or o.get("to") == ".ode"
    ext = ".cellml" if is_cellml else ".ode"
    modelfile = m["name"] + ext
    mpath = os.path.join(cwd, modelfile)
    if not m.get("missing"):
        if "file" in m:
            shutil.copy(m["file"], mpath)
        else:
            with open(mpath, "w") as f:
                f.write(m["cellml"] if is_cellml else m["ode"])
    cfg = case.get("config")
    cfgfile = None
    if cfg:
        cfgfile = "pyproject.toml" if cfg["mode"].startswith("pyproject") else "settings.toml"
        with open(os.path.join(cwd, cfgfile), "w") as f:
            f.write(toml_of(cfg["data"]))
        if cfg["mode"].startswith("pyproject"):
            cfgfile = None
        if cfg["mode"] == "pyproject":  # make the scratch directory a project root (black's pyproject discovery needs a marker)
            os.mkdir(os.path.join(cwd, ".git"))
    env = dict(os.environ, PYTHONHASHSEED="0")
    fake = None
    if case.get("env") == "fake":
        bindir = os.path.join(top, "bin")
        os.mkdir(bindir)
        fake = os.path.join(bindir, "clang-format")
        with open(fake, "w") as f:
            f.write(FAKE)
        os.chmod(fake, os.stat(fake).st_mode | stat.S_IEXEC | stat.S_IXGRP | stat.S_IXOTH)
        env["PATH"] = bindir + os.pathsep + env.get("PATH", "")
    argv = argv_of(case, modelfile, cfgfile)
    inp = stored(case)
    inp["argv"] = ["python", "-m", "gotranx"] + argv
    res["sample"] = inp
    before = set(os.listdir(cwd))

    def run_cli(args):
        for n in set(os.listdir(cwd)) - before:
            p = os.path.join(cwd, n)
            shutil.rmtree(p) if os.path.isdir(p) else os.unlink(p)
        r = subprocess.run([cm.PY, "-m", "gotranx"] + args, capture_output=True, text=True, env=env, cwd=cwd, timeout=60)
        return r, sorted(set(os.listdir(cwd)) - before)

    def add(sig, what, exp, act, detail=""):
        res["failures"].append(cm.fail(sig, what, inp, exp, act, detail))

    lang, eff, fb, suffix = effective(case)
    # ---- invalid inputs ---------------------------------------------------------------
    if case.get("invalid"):
        kind = case["invalid"]
        if not m.get("missing"):  # only inputs the API rejects count as invalid
            req = {"lang": "ode", "file": mpath} if is_cellml else dict(eff, lang="py", file=mpath, format="none")
            if not isinstance(api_text(req), dict):
                cm.note(res, "skipped:invalid-model-accepted-by-api")
                return
        r, new = run_cli(argv)
        res["evals"] += 1
        res["nontrivial"].append(cm.sha([cmd, argv, m, cfg]))
        if r.returncode == 0:
            add(f"C18:{cmd}:invalid-model-exit-zero:{kind}", "exit code 0 for an invalid / missing model", "non-zero exit", 0, tail(r))
        if new:
            add(f"C18:{cmd}:invalid-model-writes-output:{kind}", "a file is written although the model is invalid / missing", [], new, tail(r))
        return
    # ---- expected text ------------------------------------------------------------------
    base = {"lang": lang, "file": mpath, "fake_clang": fake}

    def req_of(e):
        return dict(base, **e)

    want = api_text(req_of(eff))
    if isinstance(want, dict):
        # the API itself cannot do what is asked (e.g. clang-format missing): expected behaviour undefined
        cm.note(res, f"skipped:api-raises:{want['exc']}")
        return
    stem = Path(o["outname"]).with_suffix("").name if "outname" in o else m["name"]
    if lang == "ode" and "outname" in o:
        expname = o["outname"]
    else:
        expname = stem + suffix
    r, new = run_cli(argv)
    res["evals"] += 1
    if fb or o.get("outname") or o.get("to") or cfg:
        res["nontrivial"].append(cm.sha([cmd, argv, m, cfg]))
    if r.returncode != 0:
        err = tail(r)
        if lang == "c" and eff["format"] == "none" and "clang-format" in (r.stderr + r.stdout) and "clang_format_docs" in (r.stderr + r.stdout):
            name = "format" if "format" in o else "config-c.format"
            add(f"C18:{cmd}:{name}-not-honoured:crash", "format none was requested but the command still imports clang-format (absent here) and crashes", 0, r.returncode, err)
            return
        culprit = None
        for name, variant in crash_variants(case):
            r2, _ = run_cli(argv_of(variant, modelfile, cfgfile))
            if r2.returncode == 0:
                culprit = name
                break
        add(f"C18:{cmd}:crash:{culprit}" if culprit else f"C18:{cmd}:nonzero-exit", f"non-zero exit code for a valid model and valid options" + (f" (exit 0 without/with default `{culprit}`)" if culprit else ""),
            0, r.returncode, err)
        return
    if cmd in ("ode2py", "ode2c") and cfg and "verbose" in (cfg.get("data") or {}) and cfg["mode"] != "pyproject-bare":
        # verbose only changes the log level: DEBUG lines appear iff the effective value (configuration file over command line) is true
        want_v = bool(cfg["data"]["verbose"])
        has_dbg = re.search(r"\[debug\s*\]", r.stdout + r.stderr) is not None
        if has_dbg != want_v:
            add(f"C18:{cmd}:config-verbose-not-honoured", f"verbose = {'true' if want_v else 'false'} in the configuration file, command line {'-v' if o.get('verbose') else 'without -v'}: "
                f"DEBUG log lines are {'present' if has_dbg else 'absent'}", want_v, has_dbg, tail(r))
    if expname not in new:
        others = [n for n in new if n != expname]
        if not others:
            add(f"C18:{cmd}:no-output", "exit code 0 but no output file was written", expname, new, tail(r))
            return
        name = "outname" if "outname" in o and not any(Path(n).stem == stem for n in others) else "to"
        add(f"C18:{cmd}:wrong-output-name:{name}", "the output file has another name / suffix than requested", expname, others, tail(r))
        got = open(os.path.join(cwd, others[0])).read()
    else:
        got = open(os.path.join(cwd, expname)).read()
        extra = [n for n in new if n != expname]
        if extra:
            add(f"C18:{cmd}:extra-files", "files other than the output file appear in the working directory", [expname], new)
    if got == want:
        return
    # ---- mismatch: confirm in a child under the CLI's hash seed, then diagnose -----------------
    names = list(fb)
    reqs = [req_of(eff)] + [req_of(fb[n] if n == "config" else dict(eff, **{fb[n][0]: fb[n][1]})) for n in names]
    try:
        texts = api_child(reqs, top, env)
    except Exception as e:  # noqa: BLE001
        res["errors"].append(f"C18: {cm.short(e)}")
        return
    want2 = texts[0]
    if isinstance(want2, dict) or got == want2:
        cm.note(res, "hashseed-dependent-api-text" if got == want2 else "skipped:api-child-raises")
        return
    culprit = [n for n, t in zip(names, texts[1:]) if not isinstance(t, dict) and t != want2 and t == got]
    d = f"argv {' '.join(argv)} :: " + first_diff(want2, got)
    if culprit and culprit[-1] == "config" and len(culprit) == 1 or (culprit and (cfg or {}).get("mode") == "pyproject-bare"):
        bare = cfg["mode"] == "pyproject-bare"
        add(f"C18:{cmd}:pyproject-not-found" if bare else f"C18:{cmd}:config-not-honoured",
            "the pyproject.toml in the working directory is ignored (the directory has no .git / [tool.black] marker, so black's project-root search skips it)" if bare else
            "the output equals the API text for the command line options alone: every value of the configuration file is ignored", cm.sha(want2), cm.sha(got), d)
    elif culprit:
        n = culprit[0]
        add(f"C18:{cmd}:{n}-not-honoured", f"the output equals the API text for the default of `{n}` (requested: {json.dumps(eff[fb[n][0]])}), not for the requested value", cm.sha(want2), cm.sha(got), d)
    else:
        add(f"C18:{cmd}:output-differs", "the output file differs from the API text for the requested options (no single option explains it)", cm.sha(want2), cm.sha(got), d)


def crash_variants(case):
    """(option name, case without that option / with its plain form) to find the option behind a crash"""
    o = case["opts"]
    out = []
    for k, name in (("to", "to"), ("outname", "outname"), ("scheme", "scheme"), ("stiff", "stiff-states"), ("delta", "delta"), ("remove_unused", "remove-unused"), ("format", "format"),
                    ("backend", "backend"), ("jax", "jax"), ("verbose", "verbose")):
        if k not in o:
            continue
        o2 = {a: b for a, b in o.items() if a != k}
        if k == "to" and case["cmd"] == "convert":
            if o["to"].startswith("."):
                continue
            o2["to"] = {"c": ".c", "py": ".py", "python": ".py"}.get(o["to"], ".py")
        if k == "scheme":
            o2.pop("stiff", None)
        out.append((name, dict(case, opts=o2)))
    return out[:5]


def tail(r):
    plain = [ln.strip() for ln in r.stderr.splitlines() if ln.strip() and ln.strip()[0] not in "│╭╰❱"]
    return ("stderr: " + " ".join(" ".join(plain[-4:]).split())[-300:] + " | stdout: " + " ".join(r.stdout.split())[-120:])


def first_diff(a, b):
    la, lb = a.splitlines(), b.splitlines()
    for i, (x, y) in enumerate(zip(la, lb)):
        if x != y:
            return f"first difference at line {i + 1}: API {x.strip()[:100]!r} vs CLI {y.strip()[:100]!r}"
    return f"API {len(la)} lines vs CLI {len(lb)} lines"


from oracles._b_helpers import scoped_api  # noqa: E402

run, replay = scoped_api(globals(), "c18run_")
