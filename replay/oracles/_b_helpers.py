"""Shared by c09 / c11 / c18: run/replay entry points whose temp files all live under one per-run
directory that is removed at the end (pool workers killed at the deadline cannot clean up themselves)."""
from __future__ import annotations

import shutil
import tempfile

import common as cm


def scoped_api(mod_globals, prefix, before_run=None):
    _run, _replay = cm.make_api(mod_globals)

    def scoped(fn, *args):
        old = cm.TMPROOT
        root = tempfile.mkdtemp(prefix=prefix, dir=old)
        cm.TMPROOT = root  # set before the pool forks: cm.tempdir() / cm.CLib of every worker land below it
        try:
            return fn(*args)
        finally:
            cm.TMPROOT = old
            shutil.rmtree(root, ignore_errors=True)

    def run(tier, seed, focus, deadline):
        if before_run:
            before_run(deadline)
        return scoped(_run, tier, seed, focus, deadline)

    def replay(failure):
        return scoped(_replay, failure)

    return run, replay
