"""C16: remove_singularities changes a model only at its removable singular points (and puts the limit there)."""
from __future__ import annotations

import math
import random

import backends as be
import common as cm
import modelgen as mg

ID = "C16"
CASE_TIMEOUT = 90
SMOOTH = ["exp", "log", "ln", "sqrt", "sin", "cos", "atan", "pow", "sci", "pi", "t", "time", "unary", "ContinuousConditional", "Gt", "Lt"]
RULE = """Smooth models from modelgen.gen_model (1-3 states, 0-3 parameters, 0-4 intermediates; functions exp log sqrt sin cos atan, powers,
ContinuousConditional) into whose rate equations k = 0, 1, 2 or 3 removable singular factors are planted, as a factor or as a summand:
(x-a)/(exp(x-a)-1), sin(x-a)/(x-a), (exp((x-a)/2)-1)/(x-a), 0.32(x-a)/(1-exp(-(x-a)/10)), (x-a)/(x-a), with a in {0, 1, 2, -1}, in one
or several states; every 4th model additionally gets the infinite singularity 1/(x-4).  Every 3rd model (GenOpts.singular_param, 1-3
parameters, k = 1, 1, 2 in rotation) has PARAMETER-VALUED singular points instead: `a` is the name of a declared parameter (the first
factor always, a second one 2 in 3), e.g. sin(v - k1)/(v - k1) with parameters(k1=0.13), so the state sits on the singular point when
it equals the value the parameter has at that input (defaults 0.13, 2*pi, 1/4, sqrt(2), -(1.5), 12.0 ... and the varied values of the
sampled inputs).  new = ode.remove_singularities(); NumPy modules
are generated for both.  Cases: (model, regular point) - every monitored value of `new` must equal the original's (rtol 1e-9), at 4
points per model; (model, singular point: the state exactly on a - for a parameter-valued point exactly on the parameter's value at that
input -, the others random) - every value of `new` that depends on the factor
must be finite and equal the two-sided limit, computed by the reference evaluator from Richardson-extrapolated one-sided limits (steps 2e-6..5e-7, two step sizes and both sides must agree to 1e-7, otherwise the point is skipped; comparison rtol 1e-6, atol 1e-6);
(model, infinite point x = 4) - `new` must still be non-finite there (untouched).  A regular-point value that is an integer multiple (2..6) of the original's
for an expression with >= 2 singular factors is reported as double-counted; so is a value m x limit (m = 2..6) at the ONLY singular point
of an expression when the expression is multiplied by the same m at a regular input (one point counted m times).  Sub-kind of a
singular-point failure: several-singularities when the expression has >= 2 distinct removable points (literal or parameter-valued);
else, when its only removable point is the value of a parameter, the same input is
tried on the literal twin (the value written in place of the parameter inside that expression: sin(v - 0.13)/(v - 0.13)): twin not
repaired either -> one-singularity (the numeric-point behaviour), twin repaired -> parameter-valued-point (wrong-limit additionally
:abs-of-state-at-negative-point when the expression has abs(..state..) and the parameter's value is negative); else one-singularity.
singular-point-not-removed:{one-singularity|several-singularities} then gets the listed MECHANISM that explains it, decided from the model
text and the regular-input behaviour: :sum-of-conditionals (the expression is multiplied by m >= 2 at a regular input: >= 2 Conditionals are
summed and each singular point evaluates the others' raw expression; for several points also when no regular input tells because the
expression is 0 there - only m = 1 is evidence against), else :float-coefficient-form (the only denominator with this root is
1 - exp(-0.1*(x - a)): sympy returns the root as a Float and the limit as oo), else :not-a-finite-set (the expression has a
ContinuousConditional that mentions the state, or a denominator in the state besides the planted ones: sympy.singularities returns a Union /
Intersection and gotranx skips the expression), else :power-underflows-at-the-input (a power / exp of the expression is 0 or beyond 1e+-300
there: the replacement is written with the reciprocal, inf/inf), else NO suffix: a plain sin / expm1 / (x-a)/(x-a) factor that is left in
place without any of these is not a listed finding.  Non-trivial: k >= 1; distinct by sha1(text,
point)."""


PARAM_SUB = "parameter-valued-point"


def cases(tier, seed, focus):
    n = 200 if tier == "quick" else 2500
    for i in range(n):
        k = seed * 100003 + i
        yield {"mseed": k, "opts": {"singular": [1, 2, 0, 3, 1, 2][i % 6], "infinite_sing": i % 4 == 3, "features": SMOOTH, "n_states": [1, 3], "n_params": [0, 3], "n_inter": [0, 4], "depth": 2,
                                    "annotations": False}, "npts": 4, "tags": ["C16"]}
        if i % 2 == 1:  # every 3rd model: the singular point is the value of a parameter (1, 1, 2 factors in rotation; 3 symbolic points cost sympy up to 40 s)
            j = i // 2
            yield {"mseed": k + 50000017, "opts": {"singular": [1, 1, 2][j % 3], "singular_param": True, "infinite_sing": j % 4 == 3, "features": SMOOTH, "n_states": [1, 3], "n_params": [1, 3],
                                                   "n_inter": [0, 4], "depth": 2, "annotations": False}, "npts": 4, "tags": ["C16"]}


def singular_forms(ref):
    """{(state, a, assignment): [family of each singular denominator with that point]} recovered from the text: denominators vanishing at a
    state value; a is a float (literal) or the NAME of a parameter (the singular point is wherever the state equals that parameter's value);
    family "float" = the denominator applies a float coefficient to (state - a): 1 - exp(-0.1*(x - a)), for which sympy.solveset returns the
    root as a Float (`2.0`, `1.0*kf`); "plain" = x - a, exp(x - a) - 1, x"""
    import re

    A = r"(-?[\d.]+|[A-Za-z_]\w*)"
    out = {}
    for name, a in ref.assigns.items():
        txt = a.expr_text.replace(" ", "")
        for s in ref.states:
            for m in re.finditer(r"/\(exp\(" + re.escape(s) + r"(?:-" + A + r")?\)-1\)|/\(" + re.escape(s) + r"-" + A + r"\)|/" + re.escape(s) + r"(?![\w(])|/\(1-exp\(-0\.1\*\(" + re.escape(s) + r"-" + A + r"\)\)\)", txt):
                val = next((g for g in m.groups() if g is not None), "0")
                fam = "float" if m.group(0).startswith("/(1-exp(-0.1*") else "plain"
                if val in ref.params:
                    out.setdefault((s, val, name), []).append(fam)
                elif not (val[0].isalpha() or val[0] == "_"):  # `1/(x - y)` with y a state / intermediate: a moving point, not a case of this oracle
                    out.setdefault((s, float(val), name), []).append(fam)
    return out


def find_singular(ref):
    """the distinct (state, a, assignment) of singular_forms"""
    return sorted(singular_forms(ref), key=lambda x: (x[0], isinstance(x[1], str), x[1], x[2]))


def finite_set_doubtful(ref, name, s, planted):
    """is the expression of `name` one for which sympy.singularities(expr, s) is not expected to return a FiniteSet (gotranx then skips the
    expression as a whole)?  A ContinuousConditional that mentions s (its sigmoid has complex poles in s: Intersection({...}, Reals)), or a
    denominator that mentions s besides the `planted` singular ones (roots with symbolic coefficients: Union / Intersection)"""
    ast = ref.assigns[name].ast

    def has_s(n):
        return mg._contains(n, lambda m: m[0] == "var" and m[1] == s)

    cc = mg._contains(ast, lambda n: n[0] == "call" and n[1] == "ContinuousConditional" and any(has_s(x) for x in n[2]))
    dens = []

    def walk(n):
        if n[0] == "bin" and n[1] == "/" and has_s(n[3]):
            dens.append(n)
        if n[0] == "bin" and n[1] == "**" and has_s(n[2]) and n[3][0] == "un" and n[3][1] == "-":
            dens.append(n)
        for ch in mg._children(n):
            walk(ch)

    walk(ast)
    return "ContinuousConditional" if cc else "another-denominator" if len(dens) > planted else ""


def power_underflows(ref, name, t, states, params):
    """does a power or exp() inside the expression of `name` underflow to exactly 0 (or leave 1e-300 .. 1e300) at this input?  sympy writes
    the replacement in its normal form (2**-x**2 becomes 1/2**(x**2)): the reciprocal overflows and the finite limit comes out as inf/inf"""
    try:
        vals, _ = ref.evaluate(t, states, params)
    except mg.RefError:
        return False
    base = dict(params)
    base.update(states)
    ctx = mg.Ctx(lambda n: t if n in ("t", "time") else base[n] if n in base else vals[n])

    def walk(n):
        if (n[0] == "bin" and n[1] == "**") or (n[0] == "call" and n[1] == "exp"):
            try:
                v = abs(mg._val(mg._num(mg.ev(n, ctx))))
                if v > 1e300 or v < 1e-300:
                    return True
            except Exception:  # noqa: BLE001
                return True
        return any(walk(ch) for ch in mg._children(n))

    return walk(ref.assigns[name].ast)


def point_value(a, pt):
    """the singular point: a literal, or the value the parameter has at this input"""
    return pt["params"][a] if isinstance(a, str) else a


def literal_twin(text, ref, name, a, av):
    """the same model with the literal value av written in place of the parameter `a` inside the expression of `name` (the numeric-point
    form of the same singular factor: `sin(v - 0.13)/(v - 0.13)` for `sin(v - k1)/(v - k1)`); None when the expression cannot be located"""
    import re

    old = ref.assigns[name].expr_text
    if text.count(old) != 1:
        return None
    lit = repr(float(av)) if av >= 0 else f"({float(av)!r})"
    new = re.sub(r"(?<![\w.])" + re.escape(a) + r"(?![\w(])", lit, old)
    return None if new == old else text.replace(old, new)


def twin_removed(text, ref, name, a, pt, want):
    """does remove_singularities put the limit at this input when the point is written as a literal?  True / False (not removed, wrong value,
    or an exception: the numeric-point behaviour, whatever it is) / None (no twin)"""
    tw = literal_twin(text, ref, name, a, pt["params"][a])
    if tw is None:
        return None
    mod = None
    try:
        with cm.quiet():
            mod = be.build(cm.load(tw).remove_singularities(), "numpy")
        v = mod.monitor_values(pt)[name]
        return bool(math.isfinite(v) and cm.close(v, want, 1e-6, 1e-6))
    except Exception:  # noqa: BLE001
        return False
    finally:
        if mod is not None:
            mod.close()


def abs_of_state(ref, name, s):
    """abs(...) of something that mentions the state s, in the expression of `name` itself"""
    return mg._contains(ref.assigns[name].ast, lambda n: n[0] == "call" and n[1] in ("abs", "Abs") and any(mg._contains(x, lambda m: m[0] == "var" and m[1] == s) for x in n[2]))


def check(case):
    res = cm.new_result()
    try:
        c = cm.materialize(case)
        ref = mg.RefModel(c["ode"])
    except Exception as e:  # noqa: BLE001
        res["errors"].append(f"reference cannot read generated model: {cm.exc_name(e)}: {cm.short(e)}")
        return res
    text = c["ode"]
    res["sample"] = {"ode": text, "points": c["points"][:1]}
    sing = c.get("singular") or [list(x) for x in find_singular(ref)]
    removable = [s for s in sing if s[1] != 4.0]
    infinite = [s for s in sing if s[1] == 4.0]
    try:
        ode = cm.load(text)
        orig = be.build(ode, "numpy")
    except Exception as e:  # noqa: BLE001
        cm.note(res, f"skipped:original-fails:{cm.exc_name(e)}")
        return res

    def add(kind, what, pts, exp=None, act=None, detail=""):
        res["failures"].append(cm.fail(f"C16:{kind}", what, {"ode": text, "points": pts, "singular": sing, "mode": mode}, exp, act, detail))

    mode = "build"
    try:
        with cm.quiet():
            new_ode = ode.remove_singularities()
    except Exception as e:  # noqa: BLE001
        res["evals"] += 1
        add(f"remove-raises:{cm.exc_site(e)}", "remove_singularities raises", [], "a model", cm.exc_name(e), cm.short(e))
        return res
    try:
        new = be.build(new_ode, "numpy")
    except be.Stage as e:
        res["evals"] += 1
        add(f"codegen-after-removal-raises:{cm.exc_site(e.exc) if e.stage == 'codegen' else e.stage}", "code generation for the model returned by remove_singularities fails", [], "module", cm.exc_name(e.exc), str(e))
        return res
    per_assign = {}
    for s, a, name in removable:
        per_assign.setdefault(name, set()).add((s, a))
    forms = singular_forms(ref)

    def regular_values(name):
        """(original, new) value of `name` at a regular input where the original is finite and not 0; None when there is no such input"""
        cands = [cm.restrict_point(rp, ref) for rp in c["points"]]
        # a stored failure carries only the singular input: also try it with the states moved off the singular points
        cands += [{"t": rp["t"], "states": {k: v + d for k, v in rp["states"].items()}, "params": rp["params"]} for rp in cands[:2] for d in (0.37, -0.61, 1.3)]
        for rp in cands:
            if any(abs(rp["states"][s_] - point_value(a_, rp)) < 1e-3 for s_, a_, _ in sing):
                continue
            try:
                o_v, n_v = orig.monitor_values(rp)[name], new.monitor_values(rp)[name]
            except be.Stage:
                continue
            if math.isfinite(o_v) and abs(o_v) > 1e-9:
                return o_v, n_v
        return None

    def regular_multiple(name):
        """m when `name` is multiplied by the integer m (1..6) at a regular input, 0 when no regular input tells (the expression is 0 or
        undefined at all of them), None when it is changed in another way"""
        ov = regular_values(name)
        if ov is None:
            return 0
        return next((m_ for m_ in range(1, 7) if cm.close(ov[1], m_ * ov[0], 1e-9, 1e-12)), None)

    def multiplied_everywhere(name, mlt):
        """is `name` multiplied by mlt at a regular input as well?  (the listed sum-of-Conditionals defect: one Conditional per entry of
        sympy.singularities, which spells one point twice - `kf` and `1.0*kf` - when a factor has a float coefficient)"""
        return regular_multiple(name) == mlt

    want_mode = c.get("mode")
    # regular points -------------------------------------------------------------------------------------
    mode = "regular"
    if want_mode in (None, "regular"):
        for pt in c["points"]:
            pt = cm.restrict_point(pt, ref)
            if any(abs(pt["states"][s] - point_value(a, pt)) < 1e-3 for s, a, _ in sing):
                continue
            try:
                a_vals = orig.monitor_values(pt)
                b_vals = new.monitor_values(pt)
            except be.Stage as e:
                cm.note(res, "skipped:call-fails")
                continue
            if not all(math.isfinite(v) for v in a_vals.values()):
                continue
            res["evals"] += 1
            if removable:
                res["nontrivial"].append(cm.sha([text, pt]))
            bad = {k: b_vals.get(k) for k in a_vals if not cm.close(b_vals.get(k, math.nan), a_vals[k], 1e-9, 1e-12)}
            if bad:
                direct = {k: v for k, v in bad.items() if k in per_assign}
                dbl = direct and all(any(cm.close(v, mlt * a_vals[k], 1e-9, 1e-12) for mlt in range(2, 7)) for k, v in direct.items())
                kind = "double-counted-singularity" if dbl else "regular-point-changed"
                add(kind, f"remove_singularities changes {sorted(bad)[:3]} at a regular point" + (" (value multiplied by the number of singularities)" if dbl else ""), [pt], {k: a_vals[k] for k in bad}, bad,
                    "; ".join(f"{k} = {ref.assigns[k].expr_text[:120]}" for k in sorted(direct)[:2]))
                break
    # singular points ------------------------------------------------------------------------------------------
    rng = random.Random(cm.sha(text))
    for s, a, name in (removable + infinite):
        mode = f"singular:{s}:{a}:{name}"
        if want_mode not in (None, mode):
            continue
        base_pts = c["points"] if want_mode else c["points"][:2]
        for base in base_pts:
            base = cm.restrict_point(base, ref)
            pt = {"t": base["t"], "states": dict(base["states"]), "params": dict(base["params"])}
            av = point_value(a, pt)  # parameter-valued point: the state sits exactly on the value the parameter has at this input
            pt["states"][s] = av
            if any(s2 != s and abs(pt["states"][s2] - point_value(a2, pt)) < 1e-3 for s2, a2, _ in sing) or any(s2 == s and a2 != a and abs(av - point_value(a2, pt)) < 1e-3 for s2, a2, _ in sing):
                continue
            deps = [n for n in ref.assigns if name in ref.closure(n)]
            if a == 4.0:
                try:
                    b_vals = new.monitor_values(pt)
                except be.Stage:
                    continue
                res["evals"] += 1
                if math.isfinite(b_vals[name]):
                    o_vals = orig.monitor_values(pt)
                    if not math.isfinite(o_vals[name]):
                        add("infinite-singularity-touched", f"{name} becomes finite at the pole {s} = 4 after remove_singularities", [pt], o_vals[name], b_vals[name], ref.assigns[name].expr_text[:160])
                continue
            lim = {}
            try:
                est = []
                for h in (2e-6, 1e-6):
                    side = []
                    for sgn in (1, -1):  # one-sided limits by Richardson extrapolation (removes the O(h) term, e.g. of |x|)
                        vals = []
                        for hh in (h, h / 2):
                            st = dict(pt["states"])
                            st[s] = av + sgn * hh
                            v, frag = ref.evaluate(pt["t"], st, pt["params"], names=deps)
                            vals.append(v)
                        side.append({k: 2 * vals[1][k] - vals[0][k] for k in deps})
                    if any(abs(side[0][k] - side[1][k]) > 1e-7 * (abs(side[0][k]) + 1) for k in deps):
                        side = None  # no two-sided limit in the reference
                        break
                    est.append({k: 0.5 * (side[0][k] + side[1][k]) for k in deps})
                if side is None or any(abs(est[0][k] - est[1][k]) > 1e-7 * (abs(est[1][k]) + 1) for k in deps):
                    cm.note(res, "skipped:limit-estimate-unreliable")
                    continue
                lim = est[1]
            except mg.RefError:
                continue
            try:
                b_vals = new.monitor_values(pt)
            except be.Stage:
                cm.note(res, "skipped:call-fails")
                continue
            res["evals"] += 1
            res["nontrivial"].append(cm.sha([text, pt]))
            nonfin = {k: b_vals[k] for k in deps if not math.isfinite(b_vals[k])}
            wrong = {k: b_vals[k] for k in deps if math.isfinite(b_vals[k]) and not cm.close(b_vals[k], lim[k], 1e-6, 1e-6)}
            nsing = len(per_assign.get(name, ()))
            # an expression with several removable singular points is the territory of the listed sum-of-Conditionals defect whatever the
            # points are; the ONLY removable point of an expression gets its own sub-kind when it is the value of a parameter
            sub = "several-singularities" if nsing != 1 else PARAM_SUB if isinstance(a, str) else "one-singularity"
            at = f"{s} = {a} = {av!r}" if isinstance(a, str) else f"{s} = {a}"
            if sub == PARAM_SUB and (nonfin or wrong):
                # is it the point being a parameter's value that matters?  The same expression with the literal in place of the parameter:
                # when that is not repaired either, the failure is the numeric-point one (one-singularity), else it is specific to parameter-valued points
                if twin_removed(text, ref, name, a, pt, lim[name]) is False:
                    sub = "one-singularity"
                    at += f" (and just so with the literal {av!r} written in place of {a})"
                else:
                    at += f" (repaired when the literal {av!r} is written in place of {a})"
            if nonfin and sub != PARAM_SUB:
                # which listed mechanism explains a point that is left in place?  Decided from the model text and the regular-input behaviour
                # only; none of them -> no suffix (a plain sin / expm1 / (x-a)/(x-a) factor that is not repaired is not a listed finding)
                planted = sum(len(v) for (s_, _, n_), v in forms.items() if s_ == s and n_ == name)
                mreg = regular_multiple(name)
                st_near = dict(pt["states"])
                st_near[s] = av + 1e-6
                if (mreg is not None and mreg >= 2) or (mreg == 0 and nsing >= 2):
                    # >= 2 Conditionals are summed (seen at a regular input; for an expression with several points also assumed when no regular
                    # input tells, e.g. the expression is 0 there: only m = 1 is evidence against)
                    why = ("sum-of-conditionals", f"{name} is multiplied by {mreg if mreg else 'an undeterminable factor'} at regular inputs: the Conditionals are summed and at a singular point the others contribute the raw expression")
                elif set(forms.get((s, a, name), ["plain"])) == {"float"}:
                    why = ("float-coefficient-form", "the only denominator with this root applies a float coefficient to the state (1 - exp(-0.1*(x - a))): sympy returns the root as a Float and its limit as oo")
                elif finite_set_doubtful(ref, name, s, planted):
                    why = ("not-a-finite-set", f"the expression has {finite_set_doubtful(ref, name, s, planted)} in {s}: sympy.singularities is not expected to return a FiniteSet and gotranx skips the expression")
                elif power_underflows(ref, name, pt["t"], st_near, pt["params"]):
                    why = ("power-underflows-at-the-input", "a power / exp of the expression underflows here: the replacement is written with its reciprocal, which overflows")
                else:
                    why = None
                if why:
                    sub += ":" + why[0]
                    at += f" [{why[1]}]"
            if nonfin:
                add(f"singular-point-not-removed:{sub}", f"{sorted(nonfin)[:3]} still non-finite at {at} after remove_singularities", [pt], {k: lim[k] for k in nonfin}, nonfin, f"{name} = {ref.assigns[name].expr_text[:160]}")
                break
            if wrong:
                dbl, extra = nsing >= 2 and name in wrong, ""
                if not dbl and name in wrong:  # ONE singular point (of one or several factors) counted several times?
                    mlt = next((m_ for m_ in range(2, 7) if cm.close(wrong[name], m_ * lim[name], 1e-6, 1e-6)), None)
                    if mlt and multiplied_everywhere(name, mlt):
                        dbl, extra = True, f" but {mlt} x the limit (the expression is multiplied by {mlt} at regular inputs too: the one singular point is counted {mlt} times)"
                if not dbl and sub == PARAM_SUB and name in wrong and av < 0 and abs_of_state(ref, name, s):
                    sub += ":abs-of-state-at-negative-point"  # sympy.limit at a symbolic point treats Abs(state) as if the point were positive
                add("double-counted-singularity" if dbl else f"wrong-limit:{sub}", f"value of {sorted(wrong)[:3]} at the removable singular point {at} is not the limit" + extra, [pt], {k: lim[k] for k in wrong}, wrong,
                    f"{name} = {ref.assigns[name].expr_text[:160]}")
                break
    orig.close()
    new.close()
    return res


run, replay = cm.make_api(globals())
