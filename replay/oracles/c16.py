"""C16: remove_singularities changes a model only at its removable singular points (and puts the limit there)."""
from __future__ import annotations

import math
import random

import backends as be
import common as cm
import modelgen as mg

ID = "C16"
CASE_TIMEOUT = 90
SMOOTH = ["exp", "log", "ln", "sqrt", "sin", "cos", "atan", "pow", "sci", "pi", "t", "time", "unary", "ContinuousConditional", "Gt", "Lt"]
RULE = """Smooth models from modelgen.gen_model (1-3 states, 0-3 parameters, 0-4 intermediates; functions exp log sqrt sin cos atan, powers,
ContinuousConditional) into whose rate equations k = 0, 1, 2 or 3 removable singular factors are planted, as a factor or as a summand:
(x-a)/(exp(x-a)-1), sin(x-a)/(x-a), (exp((x-a)/2)-1)/(x-a), 0.32(x-a)/(1-exp(-(x-a)/10)), (x-a)/(x-a), with a in {0, 1, 2, -1}, in one
or several states; every 4th model additionally gets the infinite singularity 1/(x-4).  new = ode.remove_singularities(); NumPy modules
are generated for both.  Cases: (model, regular point) - every monitored value of `new` must equal the original's (rtol 1e-9), at 4
points per model; (model, singular point: the state exactly on a, the others random) - every value of `new` that depends on the factor
must be finite and equal the two-sided limit, computed by the reference evaluator from Richardson-extrapolated one-sided limits (steps 2e-6..5e-7, two step sizes and both sides must agree to 1e-7, otherwise the point is skipped; comparison rtol 1e-6, atol 1e-6);
(model, infinite point x = 4) - `new` must still be non-finite there (untouched).  A regular-point value that is an integer multiple (2..6) of the original's
for an expression with >= 2 singular factors is reported as double-counted.  Non-trivial: k >= 1; distinct by sha1(text,
point)."""


def cases(tier, seed, focus):
    n = 200 if tier == "quick" else 2500
    for i in range(n):
        k = seed * 100003 + i
        yield {"mseed": k, "opts": {"singular": [1, 2, 0, 3, 1, 2][i % 6], "infinite_sing": i % 4 == 3, "features": SMOOTH, "n_states": [1, 3], "n_params": [0, 3], "n_inter": [0, 4], "depth": 2,
                                    "annotations": False}, "npts": 4, "tags": ["C16"]}


def find_singular(ref):
    """(state, a, assignment, kind) recovered from the text: denominators vanishing at a state value"""
    import re

    out = []
    for name, a in ref.assigns.items():
        txt = a.expr_text.replace(" ", "")
        for s in ref.states:
            for m in re.finditer(r"/\(exp\(" + re.escape(s) + r"(?:-(-?[\d.]+))?\)-1\)|/\(" + re.escape(s) + r"-(-?[\d.]+)\)|/" + re.escape(s) + r"(?![\w(])|/\(1-exp\(-0\.1\*\(" + re.escape(s) + r"-(-?[\d.]+)\)\)\)", txt):
                val = next((g for g in m.groups() if g is not None), "0")
                out.append((s, float(val), name))
    return sorted(set(out))


def check(case):
    res = cm.new_result()
    try:
        c = cm.materialize(case)
        ref = mg.RefModel(c["ode"])
    except Exception as e:  # noqa: BLE001
        res["errors"].append(f"reference cannot read generated model: {cm.exc_name(e)}: {cm.short(e)}")
        return res
    text = c["ode"]
    res["sample"] = {"ode": text, "points": c["points"][:1]}
    sing = c.get("singular") or [list(x) for x in find_singular(ref)]
    removable = [s for s in sing if s[1] != 4.0]
    infinite = [s for s in sing if s[1] == 4.0]
    try:
        ode = cm.load(text)
        orig = be.build(ode, "numpy")
    except Exception as e:  # noqa: BLE001
        cm.note(res, f"skipped:original-fails:{cm.exc_name(e)}")
        return res

    def add(kind, what, pts, exp=None, act=None, detail=""):
        res["failures"].append(cm.fail(f"C16:{kind}", what, {"ode": text, "points": pts, "singular": sing, "mode": mode}, exp, act, detail))

    mode = "build"
    try:
        with cm.quiet():
            new_ode = ode.remove_singularities()
    except Exception as e:  # noqa: BLE001
        res["evals"] += 1
        add(f"remove-raises:{cm.exc_site(e)}", "remove_singularities raises", [], "a model", cm.exc_name(e), cm.short(e))
        return res
    try:
        new = be.build(new_ode, "numpy")
    except be.Stage as e:
        res["evals"] += 1
        add(f"codegen-after-removal-raises:{cm.exc_site(e.exc) if e.stage == 'codegen' else e.stage}", "code generation for the model returned by remove_singularities fails", [], "module", cm.exc_name(e.exc), str(e))
        return res
    per_assign = {}
    for s, a, name in removable:
        per_assign.setdefault(name, set()).add((s, a))
    want_mode = c.get("mode")
    # regular points -------------------------------------------------------------------------------------
    mode = "regular"
    if want_mode in (None, "regular"):
        for pt in c["points"]:
            pt = cm.restrict_point(pt, ref)
            if any(abs(pt["states"][s] - a) < 1e-3 for s, a, _ in sing):
                continue
            try:
                a_vals = orig.monitor_values(pt)
                b_vals = new.monitor_values(pt)
            except be.Stage as e:
                cm.note(res, "skipped:call-fails")
                continue
            if not all(math.isfinite(v) for v in a_vals.values()):
                continue
            res["evals"] += 1
            if removable:
                res["nontrivial"].append(cm.sha([text, pt]))
            bad = {k: b_vals.get(k) for k in a_vals if not cm.close(b_vals.get(k, math.nan), a_vals[k], 1e-9, 1e-12)}
            if bad:
                direct = {k: v for k, v in bad.items() if k in per_assign}
                dbl = direct and all(any(cm.close(v, mlt * a_vals[k], 1e-9, 1e-12) for mlt in range(2, 7)) for k, v in direct.items())
                kind = "double-counted-singularity" if dbl else "regular-point-changed"
                add(kind, f"remove_singularities changes {sorted(bad)[:3]} at a regular point" + (" (value multiplied by the number of singularities)" if dbl else ""), [pt], {k: a_vals[k] for k in bad}, bad,
                    "; ".join(f"{k} = {ref.assigns[k].expr_text[:120]}" for k in sorted(direct)[:2]))
                break
    # singular points ------------------------------------------------------------------------------------------
    rng = random.Random(cm.sha(text))
    for s, a, name in (removable + infinite):
        mode = f"singular:{s}:{a}:{name}"
        if want_mode not in (None, mode):
            continue
        base_pts = c["points"] if want_mode else c["points"][:2]
        for base in base_pts:
            base = cm.restrict_point(base, ref)
            pt = {"t": base["t"], "states": dict(base["states"]), "params": dict(base["params"])}
            pt["states"][s] = a
            if any(s2 != s and abs(pt["states"][s2] - a2) < 1e-3 for s2, a2, _ in sing) or any(s2 == s and a2 != a and abs(a - a2) < 1e-3 for s2, a2, _ in sing):
                continue
            deps = [n for n in ref.assigns if name in ref.closure(n)]
            if a == 4.0:
                try:
                    b_vals = new.monitor_values(pt)
                except be.Stage:
                    continue
                res["evals"] += 1
                if math.isfinite(b_vals[name]):
                    o_vals = orig.monitor_values(pt)
                    if not math.isfinite(o_vals[name]):
                        add("infinite-singularity-touched", f"{name} becomes finite at the pole {s} = 4 after remove_singularities", [pt], o_vals[name], b_vals[name], ref.assigns[name].expr_text[:160])
                continue
            lim = {}
            try:
                est = []
                for h in (2e-6, 1e-6):
                    side = []
                    for sgn in (1, -1):  # one-sided limits by Richardson extrapolation (removes the O(h) term, e.g. of |x|)
                        vals = []
                        for hh in (h, h / 2):
                            st = dict(pt["states"])
                            st[s] = a + sgn * hh
                            v, frag = ref.evaluate(pt["t"], st, pt["params"], names=deps)
                            vals.append(v)
                        side.append({k: 2 * vals[1][k] - vals[0][k] for k in deps})
                    if any(abs(side[0][k] - side[1][k]) > 1e-7 * (abs(side[0][k]) + 1) for k in deps):
                        side = None  # no two-sided limit in the reference
                        break
                    est.append({k: 0.5 * (side[0][k] + side[1][k]) for k in deps})
                if side is None or any(abs(est[0][k] - est[1][k]) > 1e-7 * (abs(est[1][k]) + 1) for k in deps):
                    cm.note(res, "skipped:limit-estimate-unreliable")
                    continue
                lim = est[1]
            except mg.RefError:
                continue
            try:
                b_vals = new.monitor_values(pt)
            except be.Stage:
                cm.note(res, "skipped:call-fails")
                continue
            res["evals"] += 1
            res["nontrivial"].append(cm.sha([text, pt]))
            nonfin = {k: b_vals[k] for k in deps if not math.isfinite(b_vals[k])}
            wrong = {k: b_vals[k] for k in deps if math.isfinite(b_vals[k]) and not cm.close(b_vals[k], lim[k], 1e-6, 1e-6)}
            nsing = len(per_assign.get(name, ()))
            sub = "one-singularity" if nsing == 1 else "several-singularities"
            if nonfin:
                add(f"singular-point-not-removed:{sub}", f"{sorted(nonfin)[:3]} still non-finite at {s} = {a} after remove_singularities", [pt], {k: lim[k] for k in nonfin}, nonfin, f"{name} = {ref.assigns[name].expr_text[:160]}")
                break
            if wrong:
                dbl = nsing >= 2 and name in wrong
                add("double-counted-singularity" if dbl else f"wrong-limit:{sub}", f"value of {sorted(wrong)[:3]} at the removable singular point {s} = {a} is not the limit", [pt], {k: lim[k] for k in wrong}, wrong,
                    f"{name} = {ref.assigns[name].expr_text[:160]}")
                break
    orig.close()
    new.close()
    return res


run, replay = cm.make_api(globals())
