"""C11: ode.save(path) -> gotranx.load_ode(path) preserves the model (declarations and numerics)."""
from __future__ import annotations

import contextlib
import math
import os
import re
import signal
import time

import backends as bk
import common as cm
import modelgen as mg

ID = "C11"
USES_SHRINK = True
CASE_TIMEOUT = 150
RULE = """Each case loads a model text, saves it with ode.save(<tmp>/model.ode), reloads it with gotranx.load_ode and compares
(a) state / parameter / assignment name sets, default values (float, rtol 1e-12), unit_str and description of states,
parameters and assignments, and component membership (names per component name, and each atom's component tuple);
(b) numerically, under slot names of each module's own index functions, rhs, monitor_values and one explicit_euler and
generalized_rush_larsen step (dt 0.01) of the numpy modules generated from the original and the reloaded model at up to 4
(thorough 6) points from modelgen.valid_points (default point + random/special points where the independent reference
evaluator is finite, inside the real domain and not near a discontinuity); tolerance rtol 1e-9 + atol 1e-12 x (1 + largest operand), and a mismatch is
only reported when it exceeds 100 x the original module's own sensitivity to a 1e-12 relative input perturbation.
Models: 46 hand-written texts (one per construct named in the property: exp(1), negated comparisons, nested
conditionals, And/Or with 2..4 operands, rational exponents, extreme literals, pi/time, Mod/floor/abs,
ContinuousConditional, ScalarParam annotations, trailing units, components incl. two-level names, unused names, negative
values), the repository .ode files (quick: 3 small; thorough: all 6), modelgen models (1-5 states, 0-5 parameters, 0-8
intermediates, 0-3 components, all grammar features forced in rotation, own-state terms; quick 400, thorough 5000) and a
small share of imported models (example.mmt, noble_1962.cellml, three inline .mmt texts; thorough also
ToRORd_dynCl_mid.cellml): import -> save -> reload must succeed and keep declarations, then the saved text itself
is round-tripped with the full comparison.  One case = one model round trip.  Non-trivial: the model has an intermediate or
an expression of depth >= 2 and the numeric comparison was reached at >= 1 point; distinct by sha1(model text).
General models never have `pi` inside the argument of sin/cos/tan (known sympy problem: an evaluating trigonometric function of an unevaluated
sum containing pi drops terms); the hand-written pi-trig-* texts are the dedicated probes and a numeric difference of a model with pi inside a
trigonometric argument is reported as C11:rhs-changed / monitor-changed:trig-of-unevaluated-sum-with-pi.  A sixth of the generated models has
intermediates that mention a d<state>_dt name.  Failing models are delta-debugged (shrink.py) before being reported.
Signatures name the mechanism, decided without gotranx: a numeric difference is C11:{rhs|monitor}-changed:<meaning>:<construct> where
<meaning> says what the SAVED text means at the input according to the reference reader (saved-text-overflows, saved-text-undefined-at-the-input,
saved-text-unreadable, saved-text-means-something-else = the writer changed the meaning, saved-text-means-the-same = reading / code
generation treats a right text differently) and <construct> is the main construct of the shrunk model (shrinking keeps the meaning);
component-membership-changed and reload-raises:StateNotFoundInComponent get :default-component-after-named-block when what moved is an
assignment that the TEXT puts into the default component next to assignments of a named expressions block (for the exception: a state
derivative) - the listed writer defect; a state / parameter / named-block assignment that moves keeps the bare signature.
save-raises and reloaded-codegen-raises get the suffix of the listed mechanism (common.codegen_exception_class on the original / reloaded
model's expressions: :piecewise-collapses-under-simplify at a _print_Piecewise site, :boolean-used-arithmetically, :unprintable-<node>; for
save-raises before the attribute name); reloaded-call-raises:OverflowError gets the <meaning> of the saved text (saved-text-overflows);
imported-model:reload-raises:MissingSymbolError names the missing identifier."""

DT = 0.01
HEAD = "parameters(a=2.0, b=0.5)\nstates(x=1.5, y=2.0)\n"


def _m(*lines, head=HEAD):
    return head + "\n".join(lines) + "\n"


def _e(expr, head=HEAD):
    return _m(f"dx_dt = {expr}", "dy_dt = a - b*y", head=head)


HAND = {
    "exp1-param": _m("dx_dt = -a*x + c*y", "dy_dt = b - y", head="parameters(a=2.0, b=0.5, c=exp(1))\nstates(x=1.5, y=2.0)\n"),
    "exp1-scalarparam": _m("dx_dt = -a*x + c*y", "dy_dt = b - y", head='parameters(a=2.0, b=0.5, c=ScalarParam(exp(1), unit="mV"))\nstates(x=1.5, y=2.0)\n'),
    "exp1-state": _m("dx_dt = -a*x + y", "dy_dt = b - y", head="parameters(a=2.0, b=0.5)\nstates(x=exp(1), y=2.0)\n"),
    "exp1-expr": _e("exp(1)*x - y"),
    "exp1-sum": _e("exp(1) + exp(2)*x + exp(0.5*y)"),
    "param-exprs": _m("dx_dt = -a*x + c*y + d", "dy_dt = b - e*y + f", head="parameters(a=2*pi, b=1/4, c=sqrt(2), d=-(1.5), e=2**3, f=exp(2))\nstates(x=1.5, y=2.0)\n"),
    "not-eq": _e("Conditional(Not(Eq(x, y)), x, -y)"),
    "not-eq-num": _e("Conditional(Not(Eq(x, 1.5)), 1, 2) + Conditional(Eq(y, 2), 3, 4)"),
    "not-lt": _e("Conditional(Not(Lt(x, y)), x, -y)"),
    "not-others": _e("Conditional(Not(Gt(x, y)), 1, 2) + Conditional(Not(Le(x, 1)), 3, 4) + Conditional(Not(Ge(y, 3)), 5, 6)"),
    "not-and-or": _e("Conditional(Not(And(Lt(x, 1), Gt(y, 0))), 1, 2) + Conditional(Not(Or(Lt(x, 1), Gt(y, 3))), 3, 4)"),
    "not-not": _e("Conditional(Not(Not(Lt(x, y))), 1, 2)"),
    "nested-cond": _e("Conditional(Lt(x, 1), Conditional(Gt(y, 3), 1, 2), Conditional(Le(y, 2), 3, Conditional(Ge(x, 2), 4, 5)))"),
    "cond-in-cond-arg": _e("Conditional(Lt(Conditional(Gt(y, 1), x, -x), 1), x*y, x - y)"),
    "and2-or2": _e("Conditional(And(Lt(x, 1), Gt(y, 0)), 1, 2) + Conditional(Or(Lt(x, 1), Gt(y, 3)), 3, 4)"),
    "and3-or3": _e("Conditional(And(Gt(x, 0), Lt(y, 3), Ge(x, 0.5)), 1, 2) + Conditional(Or(Lt(x, 0), Gt(y, 3), Ge(x, 5)), 3, 4)"),
    "and4-or4": _e("Conditional(And(Gt(x, 0), Lt(y, 3), Ge(x, 0.5), Le(a, 5)), 1, 2) + Conditional(Or(Lt(x, 0), Gt(y, 3), Ge(x, 5), Lt(a, 0)), 3, 4)"),
    "and-or-nested": _e("Conditional(And(Or(Lt(x, 1), Gt(y, 1)), Or(Ge(x, 0.5), Le(y, 0))), x, y)"),
    "rational-exp": _e("x**(1/3) + (y**2 + 1)**(2/3) - x**(-1/2) + y**(3/2)"),
    "rational-coef": _e("1/4*x + 3/2*y - (1/3)*x*y + 7/2"),
    "int-quot": _e("x/3 + 2/y + (x + 1)/(y + 2)"),
    "pow-forms": _e("-x**2 + x**-2 + 2**-x + x**y + (x*y)**2 + x**2**0.5"),
    "lit-params": _m("dx_dt = c*d*x + e*y + f", "dy_dt = a - y + g*x", head="parameters(a=2.0, c=1e300, d=1e-300, e=1.5e-7, f=12345678.9, g=-1e-12)\nstates(x=1.5, y=2.0)\n"),
    "lit-exprs": _e("1e300*(x*1e-300) + 1.5e-7*y + 12345678.9 - 12345678.5*x + 1E-2*x + .5*y + 5.*x"),
    "lit-digits": _e("0.1234567890123456*x + 3.141592653589793*y + 1.0000000000000002*x*y"),
    "pi-time": _e("pi*x + time - 0.1*t*y + sin(2*pi*t)"),
    # dedicated probes of the KNOWN sympy problem (pi inside a trigonometric argument): differences are reported as ...:trig-of-unevaluated-sum-with-pi
    "pi-trig-sum": _e("cos(2 - pi + a) + sin(x + pi + y)"),
    "pi-trig-nested": _e("cos(x + (2 - pi)) + sin((x + pi) + y) + tan(x + (pi + y))"),
    "pi-trig-half": _e("cos(pi/2 + x + y) - sin(y + 2*pi + x) + cos(pi - x - y)"),
    "pi-trig-inter": _m("i1 = 2 - pi + x", "i2 = cos(i1 + y) + sin(i1)", "dx_dt = i2 + cos(i1)", "dy_dt = a - b*y"),
    "mod-floor-abs": _e("Mod(x, 3) + Mod(-y, 0.7) + floor(1.3*y) + abs(x - y) + Abs(y - 5) + floor(-x)"),
    "ccond": _e("ContinuousConditional(Gt(x, 1), 2, 3, 0.5) + ContinuousConditional(Lt(x, y), x, y, 0.1) + ContinuousConditional(Ge(y, 1), x, 0, 2) + ContinuousConditional(Le(x, 2), 1, y, 1.0)"),
    "functions": _e("exp(-x)*log(y) + ln(y) + sqrt(y) + sin(x)*cos(y) - tan(0.3*x) + asin(0.3*x) + acos(0.2*y) - atan(x*y)"),
    "relarith": _e("Lt(x, y)*3 + Gt(x, 1)*Lt(y, 3)*5 + x*Ge(y, 2)"),
    "unary": _e("-x + +y - -x*y + x*-y - (-x)**2 + --x"),
    "assoc": _e("x - y - 2 + x/y/2 - (x - (y - 2)) + x/(y*2) + 2*(x + y)*3 - (x + y)"),
    "annotations": '# A header comment\n# second line\nparameters("M", g=ScalarParam(0.3, unit="mS/uF", description="max conductance"), E=ScalarParam(-85.0, unit="mV"),\n'
                   '    k=ScalarParam(2, description="rate, per (ms)"), e0=ScalarParam(1.5, unit="1", description=""))\n'
                   'states("M", V=ScalarParam(-80.0, unit="mV", description="membrane potential"), m=ScalarParam(0.1, description="a gate"))\n'
                   'expressions("M")\ni_K = g*m*(V - E) # uA/cm**2\nm_inf = 1/(1 + exp(-(V + 40)/10)) # 1\ntau = k + e0 # ms\naux = V*2 # a comment\n'
                   "dV_dt = -i_K # mV/ms\ndm_dt = (m_inf - m)/tau\n",
    "components": 'parameters("A", a=2.0)\nparameters("B", b=0.5, unused_p=3)\nparameters(c=1.0)\nstates("A", x=1.5)\nstates("B", y=2.0)\nstates(z=-1.0)\n'
                  'i4 = x*c\ndz_dt = i4 - z\nexpressions("A")\ni1 = a*x\ndx_dt = -i1 + y\nexpressions("B")\ni2 = b*y + i1\nunused_i = i2*2\ndy_dt = i2 - c*z\n'
                  'expressions("A")\ni3 = x + z\nexpressions("C D")\ni5 = i3*c\n',
    "two-level-components": 'parameters("Na", "gate m", am=0.1, bm=4.0)\nparameters("Na", g=12.0)\nstates("Na", "gate m", m=0.05)\nstates("Membrane", V=-85.0)\n'
                            'expressions("Na", "gate m")\ndm_dt = am*(1 - m) - bm*m\nexpressions("Na")\ni_Na = g*m**3*(V - 50)\nexpressions("Membrane")\ndV_dt = -i_Na\n',
    "default-component-mixed": 'parameters(a=2.0)\nstates("A", x=1.5)\nstates(y=2.0)\ni0 = a*x\ndy_dt = i0 - y\nexpressions("A")\ndx_dt = -i0 + y\n',
    "unused": _m("u1 = x*2", "u2 = u1 + c", "dx_dt = -a*x", "dy_dt = b - y", head="parameters(a=2.0, b=0.5, c=3.0, never=7.5)\nstates(x=1.5, y=2.0)\n"),
    "negatives": _m("i1 = -c*x - -d", "dx_dt = -i1 + (-2.5)*y - (-x)", "dy_dt = -(a - y) + c/-d", head="parameters(a=-2.0, b=-(0.5), c=-1e-3, d=-12)\nstates(x=-85.0, y=-0.25)\n"),
    "integers": _m("dx_dt = n*x - 2*y + 3", "dy_dt = x**n - y", head="parameters(n=3, k=-2)\nstates(x=2, y=1)\n"),
    "out-of-order": _m("dx_dt = i2 - x", "i2 = i1*y", "dy_dt = -i1", "i1 = a*x + b"),
    "long-sum": _e(" + ".join(f"{k + 1}.5*x*y**{k}" for k in range(12))),
    "zero-one": _e("0*x + 1*y + x**1 + y**0 + x/1 + 0.0*y"),
    "same-subexpr": _m("i1 = (x + y)*(x + y)", "i2 = (x + y)/(x + y + 1)", "dx_dt = i1 - i2", "dy_dt = a - y"),
    "cond-values": _e("Conditional(Gt(x, -1.0), x**2, -x) + Conditional(Lt(y, 1e3), 1, 0)*y"),
    "eq-floor": _e("Conditional(Eq(floor(x), 1), x, 2*x) + Conditional(Eq(floor(y), 5), 1, y)"),
    "monitor-chain": _m("i1 = a*x", "i2 = i1 + b*y", "i3 = i2*i1", "i4 = i3 - i2", "dx_dt = -i4", "dy_dt = i3 - y"),
}
MMT_FLAT = "[[model]]\nname: tiny\nc.x = 1.5\nc.y = 0.5\n\n[engine]\ntime = 0 bind time\n\n[c]\nk = 2 [1/ms]\na1 = 0.5 * x\ndot(x) = -k * x + y\ndot(y) = a1 * (1 - y) - 0.25 * y\n"
MMT_NEST1 = MMT_FLAT.replace("a1 = 0.5 * x\n", "").replace("dot(y) = a1 *", "dot(y) = alpha *") + "    alpha = 0.5 * x\n"
MMT_NEST2 = MMT_NEST1.replace("dot(x) = -k * x + y\n", "dot(x) = -alpha * x + y\n    alpha = k * 2\n")
IMPORTS = [{"import": "mmt", "file": "/repo/tests/mmt_files/example.mmt"}, {"import": "cellml", "file": "/repo/tests/cellml_files/noble_1962.cellml"},
           {"import": "mmt", "text": MMT_FLAT}, {"import": "mmt", "text": MMT_NEST1}, {"import": "mmt", "text": MMT_NEST2}]
SMALL_FILES = ["/repo/tests/odefiles/lorentz.ode", "/repo/tests/odefiles/fitzhughnagumo.ode", "/repo/tests/odefiles/beeler_reuter_1977.ode"]
BIG_FILES = ["/repo/tests/odefiles/tentusscher_panfilov_2006_M_cell.ode", "/repo/tests/odefiles/ORdmm_Land.ode", "/repo/tests/odefiles/ToRORd_dyn_chloride.ode"]


def cases(tier, seed, focus):
    quick = tier == "quick"
    npts = 4 if quick else 6
    fixed = [{"hand": k, "npts": npts, "tags": ["C11"]} for k in HAND]
    fixed += [{"file": f, "npts": 3, "tags": ["C11"]} for f in SMALL_FILES + ([] if quick else BIG_FILES)]
    imps = [dict(c, tags=["C11:imported-model", "C11"]) for c in IMPORTS]
    if not quick:
        imps.append({"import": "cellml", "file": "/repo/tests/cellml_files/ToRORd_dynCl_mid.cellml", "tags": ["C11:imported-model", "C11"]})
    n = 400 if quick else 5000
    gi = 0
    fixed = imps[:2] + fixed + imps[2:]
    for i, c in enumerate(fixed):  # fixed cases interleaved 1:2 with generated ones
        yield c
        for _ in range(2):
            yield gen_case(seed, gi, npts)
            gi += 1
    while gi < n:
        yield gen_case(seed, gi, npts)
        gi += 1


def gen_case(seed, i, npts):
    k = seed * 100003 + i
    opts = {"force": list(mg.feature_cycle(k)), "own": 0.4, "depth": 3 if i % 3 == 0 else 2, "deriv_ref": 0.15}
    if i % 5 == 4:
        opts.update({"n_states": [3, 6], "n_inter": [4, 10], "n_comps": [2, 4], "n_params": [2, 6]})
    return {"mseed": k, "opts": opts, "npts": npts, "limit": 8 if npts <= 4 else 30, "tags": ["C11"]}


class Slow(BaseException):
    pass


@contextlib.contextmanager
def time_limit(seconds):
    """abort pathological sympy simplifications (the case is then skipped, not judged)"""
    def handler(signum, frame):
        raise Slow()

    old = signal.signal(signal.SIGALRM, handler)
    signal.setitimer(signal.ITIMER_REAL, seconds)
    try:
        yield
    finally:
        signal.setitimer(signal.ITIMER_REAL, 0)
        signal.signal(signal.SIGALRM, old)


# --------------------------------------------------------------------------------------
def num(v) -> float:
    try:
        return float(v)
    except Exception:  # noqa: BLE001
        pass
    try:
        return float(v.eval())  # myokit expression
    except Exception:  # noqa: BLE001
        import sympy

        return float(sympy.sympify(str(v)))


def tokens(s):
    """identifiers of a text (numeric literals such as 1.5E-1 removed first)"""
    s = re.sub(r"(?<![\w.])(?:\d+\.?\d*|\.\d+)(?:[eE][+-]?\d+)?", " ", s)
    return set(re.findall(r"[A-Za-z_]\w*", s))


def novel_construct(saved, text, msg):
    """identifier(s) the writer introduced (not present in the original text) on the line the loader complains about"""
    m = re.search(r"Symbol '(\w+)' not found", msg) or re.search(r"Previous tokens: \[Token\('\w+', '(\w+)'\)\]", msg)
    if m and m.group(1) not in tokens(text):
        return m.group(1)  # the loader names the identifier it does not know
    lines = [ln.split("#")[0] for ln in saved.splitlines()]
    known = set(mg.CALLS) | {"ScalarParam", "unit", "description", "pi", "t", "time"}
    novel = lambda ls: sorted(t for t in tokens("\n".join(ls)) - tokens(text) - known)  # noqa: E731
    m = re.search(r"line (\d+)", msg)
    if m and 0 < int(m.group(1)) <= len(lines):
        nv = novel([lines[int(m.group(1)) - 1]])
        if nv:
            return "+".join(nv)
    nv = novel(lines)
    return "+".join(nv) if nv else None


def membership(ode):
    out = {}
    for c in ode.components:
        names = {a.name for a in tuple(c.states) + tuple(c.parameters) + tuple(c.assignments)}
        if names:
            out[c.name] = sorted(names)
    return out


def atoms_of(ode):
    return {"state": {a.name: a for a in ode.states}, "parameter": {a.name: a for a in ode.parameters},
            "assignment": {a.name: a for a in tuple(ode.intermediates) + tuple(ode.state_derivatives)}}


DEFAULT_AFTER_NAMED = ":default-component-after-named-block"


def default_assignments(ref):
    """names of the assignments the TEXT puts into the default component, when the text also has assignments in a named expressions(...)
    block (the listed writer defect: they are written without a header after a named block and read back as its members); else empty"""
    if ref is None:
        return set()
    dflt = {n for n, a in ref.assigns.items() if a.comps == ("",)}
    return dflt if dflt and len(dflt) < len(ref.assigns) else set()


def compare_atoms(ode, o2, add, prefix="C11:", ref=None):
    """-> True when the name sets agree (numeric comparison is meaningful)"""
    dflt = default_assignments(ref)
    A, B = atoms_of(ode), atoms_of(o2)
    same = True
    for kind in ("state", "parameter", "assignment"):
        if set(A[kind]) != set(B[kind]):
            same = False
            add(f"{prefix}{kind}-set-changed", f"the {kind} names differ after save/reload", sorted(A[kind]), sorted(B[kind]),
                f"lost {sorted(set(A[kind]) - set(B[kind]))} new {sorted(set(B[kind]) - set(A[kind]))}", shrink=True)
    for kind in ("state", "parameter"):
        for n in sorted(set(A[kind]) & set(B[kind])):
            a, b = A[kind][n], B[kind][n]
            try:
                va, vb = num(a.value), num(b.value)
            except Exception as e:  # noqa: BLE001
                add(f"{prefix}value-changed:not-numeric", f"default value of {kind} {n} is not numeric after reload", str(a.value), str(b.value), cm.short(e), shrink=True)
                continue
            if not cm.close(va, vb, 1e-12, 0.0):
                add(f"{prefix}value-changed", f"default value of {kind} {n} differs after save/reload", va, vb, f"{n}: {a.value} -> {b.value}", shrink=True)
    for kind in ("state", "parameter", "assignment"):
        for n in sorted(set(A[kind]) & set(B[kind])):
            a, b = A[kind][n], B[kind][n]
            if (a.unit_str or None) != (b.unit_str or None):
                sub = ":dimensionless-dropped" if a.unit_str == "1" and not b.unit_str else ""
                add(f"{prefix}unit-changed:{kind}{sub}", f"unit of {kind} {n} differs after save/reload", a.unit_str, b.unit_str)
            if kind != "assignment" and (a.description or None) != (b.description or None):
                add(f"{prefix}description-changed", f"description of {kind} {n} differs after save/reload", a.description, b.description)
            if tuple(a.components) != tuple(b.components):
                # only a default-component assignment of the text that moved is the listed defect; a state, a parameter or an assignment of a named block that moves is not
                suf = DEFAULT_AFTER_NAMED if kind == "assignment" and n in dflt else ""
                add(f"{prefix}component-membership-changed{suf}", f"{kind} {n} sits in another component after save/reload", list(a.components), list(b.components), shrink=True, keep=True)
    ma, mb = membership(ode), membership(o2)
    if ma != mb:
        bad = sorted(k for k in set(ma) | set(mb) if ma.get(k) != mb.get(k))
        moved = set()
        for k in bad:
            moved |= set(ma.get(k) or ()) ^ set(mb.get(k) or ())
        suf = DEFAULT_AFTER_NAMED if moved and moved <= dflt else ""
        add(f"{prefix}component-membership-changed{suf}", "names per component differ after save/reload", {k: ma.get(k) for k in bad[:4]}, {k: mb.get(k) for k in bad[:4]}, shrink=True, keep=True)
    return same


def perturbed(pt, f):
    g = lambda v: v * (1 + f) if v != 0 else f  # noqa: E731
    return {"t": pt["t"], "states": {k: g(v) for k, v in pt["states"].items()}, "params": {k: g(v) for k, v in pt["params"].items()}}


def all_values(b, pt, schemes):
    out = {"rhs": b.rhs(pt), "monitor": b.monitor_values(pt)}
    for s in schemes:
        out["scheme:" + s] = b.scheme(s, pt, DT)
    return out


def saved_meaning(saved, pt, want, scale):
    """what the SAVED text means at this input according to the reference reader (no gotranx): names the mechanism of a numeric difference.
    want = {assignment name: value of the original module}.  'saved-text-overflows' (the saved form cannot be evaluated in floating point
    here: e.g. a sigmoid written as a quotient of exponentials), 'saved-text-undefined-at-the-input', 'saved-text-unreadable' (not in the
    reference's grammar), 'saved-text-means-something-else' (the writer changed the meaning), 'saved-text-means-the-same' (the text is
    right: reading / code generation treats it differently)"""
    try:
        r2 = mg.RefModel(saved)
        if not all(n in r2.assigns for n in want):
            return "saved-text-unreadable"
    except Exception:  # noqa: BLE001
        return "saved-text-unreadable"
    try:
        p2 = cm.restrict_point(pt, r2)
        vals, _ = r2.evaluate(p2["t"], p2["states"], p2["params"], names=list(want))
    except mg.RefError as e:
        return "saved-text-overflows" if "Overflow" in str(e) else "saved-text-undefined-at-the-input"
    except Exception:  # noqa: BLE001
        return "saved-text-unreadable"
    return "saved-text-means-the-same" if all(cm.vclose(vals[n], w, max(scale, r2.last_maxabs)) for n, w in want.items()) else "saved-text-means-something-else"


def compare_numeric(ode, o2, text, points, res, add, ref, saved=""):
    schemes = ["explicit_euler", "generalized_rush_larsen"]
    b1 = None
    for sch in (schemes, schemes[:1], []):
        try:
            b1 = bk.build(ode, "numpy", sch)
            schemes = sch
            break
        except bk.Stage:
            cm.note(res, f"original-codegen-fails-with-{len(sch)}-schemes")
    if b1 is None:
        cm.note(res, "skipped:base-model-fails")
        return 0
    try:
        b2 = bk.build(o2, "numpy", schemes)
    except bk.Stage as e:
        # listed mechanisms (common.codegen_exception_class) on the RELOADED model's expressions: the saved, simplified Conditional collapses once more
        cls = cm.codegen_exception_class(e.exc, cm.model_exprs(o2), ref) if e.stage == "codegen" else ""
        add(f"C11:reloaded-{e.kind}{cls}", "code generation / import of the generated module fails for the reloaded model but not for the original", "module", cm.exc_name(e.exc), cm.short(e), shrink=True)
        return 0
    npts = 0
    queue = [(pt, ref is not None) for pt in points]
    fallback = False
    while queue or (npts == 0 and not fallback):
        if not queue:  # the reference cannot evaluate the model at all (large published models): the model's own default point, unfiltered
            fallback = True
            dp = default_points(ode)[0]
            if ref is not None:
                try:
                    ref.evaluate(dp["t"], dp["states"], dp["params"])
                    break  # the reference can evaluate it but calls it fragile / it was tried already
                except mg.RefError:
                    pass
            cm.note(res, "default-point-without-reference-filter")
            queue.append((dp, False))
        pt, filt = queue.pop(0)
        if filt:
            pt = cm.restrict_point(pt, ref)
            if mg.point_ok(ref, pt) is None:
                continue
            scale = ref.last_maxabs
        else:
            scale = 0.0
        try:
            v1 = all_values(b1, pt, schemes)
        except bk.Stage:
            cm.note(res, "original-call-raises")
            continue
        if not all(math.isfinite(x) for d in v1.values() for x in d.values()):
            continue
        npts += 1
        try:
            v2 = all_values(b2, pt, schemes)
        except bk.Stage as e:
            # what the saved text means here according to the reference reader names the mechanism (saved-text-overflows: 2**-t**2 saved as 1/2**(t**2))
            sm = ":" + saved_meaning(saved, pt, {"d" + n + "_dt": w for n, w in v1["rhs"].items()}, scale) if isinstance(e.exc, OverflowError) else ""
            add(f"C11:reloaded-call-raises:{cm.exc_name(e.exc)}{sm}", f"{e.detail} of the reloaded model raises where the original returns finite values", "finite values", cm.exc_name(e.exc), cm.short(e), pt=pt, shrink=True)
            continue
        scale = max([scale] + [abs(v) for v in pt["states"].values()] + [abs(x) for x in v1["rhs"].values()])
        sens = None
        for what in v1:
            bad = {n: v2[what].get(n) for n, w in v1[what].items() if n not in v2[what] or not cm.vclose(v2[what][n], w, scale)}
            if not bad:
                continue
            if sens is None:  # the original's own sensitivity to 1e-12 relative input perturbations
                sens = {}
                for f in (1e-12, -1e-12):
                    try:
                        vp = all_values(b1, perturbed(pt, f), schemes)
                        for w2 in v1:
                            for n, w in v1[w2].items():
                                sens[(w2, n)] = max(sens.get((w2, n), 0.0), abs(vp[w2][n] - w) if math.isfinite(vp[w2][n]) else math.inf)
                    except bk.Stage:
                        sens = {k: math.inf for k in [(w2, n) for w2 in v1 for n in v1[w2]]}
            real = {n: g for n, g in bad.items() if g is None or not abs(g - v1[what][n]) <= 100 * sens.get((what, n), 0.0)}
            if not real:
                cm.note(res, "ill-conditioned-difference-ignored")
                continue
            names = sorted(real)
            pi_terr = ref is not None and ref.has_pi_in_trig()  # territory of the known sympy problem: never a general model
            if what in ("rhs", "monitor"):
                # <mechanism> from the saved text read by the reference, then <construct> of the (shrunk) model; shrinking keeps the mechanism
                anames = ["d" + n + "_dt" for n in names] if what == "rhs" else names
                base = f"C11:{what}-changed"
                if pi_terr:
                    sig = f"{base}:trig-of-unevaluated-sum-with-pi"
                else:
                    base += ":" + saved_meaning(saved, pt, {a: v1[what][n] for a, n in zip(anames, names)}, scale)
                    sig = f"{base}:{cm.main_feature(text, anames) if ref is not None else 'unknown'}"
            else:
                sig = base = f"C11:scheme-changed:{what.split(':')[1]}"
            add(sig, f"{what} values of {names[:4]} differ between the original and the reloaded model", {n: v1[what][n] for n in names[:6]}, {n: real[n] for n in names[:6]},
                "", pt=pt, shrink=True, base=base)
            if what == "rhs":
                break  # monitor / schemes follow from the rhs
    b1.close()
    b2.close()
    return npts


def saved_lines(saved, names):
    return [ln.strip()[:200] for ln in saved.splitlines() if any(re.match(rf"\s*{re.escape(n)}\s*=", ln) for n in names)][:4]


def roundtrip(text, points, res, shr, ode=None, what="model", upto=None):
    """upto (only set while shrinking): stop after the stage the failure being shrunk belongs to"""
    import gotranx

    seen = set()
    state = {"saved": ""}
    stage = ["save"]

    def add(sig, msg, exp, act, detail="", pt=None, shrink=False, base=None, keep=False):
        if sig in seen:
            return
        seen.add(sig)
        inp = {"ode": text, "_stage": stage[0]}
        if pt is not None:
            inp["points"] = [pt]
        f = cm.fail(sig, msg, inp, exp, act, (detail + " " if detail else "") + "saved file: " + state["saved"][:600].replace("\n", " | "))
        if shr and shrink:
            f["_shrink"] = {"base": base or sig, "keep_components": keep}
        res["failures"].append(f)

    try:
        ref = mg.RefModel(text)
    except Exception:  # noqa: BLE001
        ref = None
    if ode is None:
        try:
            ode = cm.load(text)
        except Exception as e:  # noqa: BLE001 - not an accepted model: outside C11
            cm.note(res, f"loader-rejects:{cm.exc_name(e)}")
            return
    res["evals"] += 1
    with cm.tempdir("c11_") as d:
        path = os.path.join(d, "model.ode")
        try:
            with cm.quiet():
                ode.save(path)
            state["saved"] = saved = open(path).read()
        except Exception as e:  # noqa: BLE001
            sig = f"C11:save-raises:{cm.exc_site(e)}{cm.codegen_exception_class(e, cm.model_exprs(ode), ref)}" + (f":{e.name}" if isinstance(e, AttributeError) and getattr(e, "name", None) else "")
            also = ""
            try:
                cm.py_code(ode)
            except Exception as e2:  # noqa: BLE001
                also = f" [numpy code generation of the same model also raises {cm.exc_site(e2)}]"
                cm.note(res, "save-raises-and-numpy-codegen-raises")
            add(sig, f"ode.save raises for a loaded {what}", "a file", cm.exc_site(e), cm.short(e) + also, shrink=True)
            return
        if upto == "save":
            return
        stage[0] = "reload"
        try:
            with cm.quiet():
                o2 = gotranx.load_ode(path)
        except Exception as e:  # noqa: BLE001
            msg = cm.short(e)
            con = novel_construct(saved, text, str(e)) if cm.exc_name(e) in ("MissingSymbolError", "UnexpectedToken", "UnexpectedCharacters", "UnexpectedInput", "UnexpectedEOF") else None
            # StateNotFoundInComponent for a text whose default component holds a state derivative next to a named expressions block: the listed
            # writer defect (the derivative is read back as a member of the named block, which does not own the state)
            dsuf = DEFAULT_AFTER_NAMED if cm.exc_name(e) == "StateNotFoundInComponent" and ref is not None and set(ref.deriv_names) & default_assignments(ref) else ""
            add(f"C11:reload-raises:{cm.exc_name(e)}{dsuf}" + (f":{con}" if con else ""), f"the file written by ode.save is rejected by load_ode ({what})", "a loadable file", cm.exc_site(e), msg,
                shrink=True, base=f"C11:reload-raises:{cm.exc_name(e)}{dsuf}", keep=True)
            return
    if upto == "reload":
        return
    stage[0] = "atoms"
    same = compare_atoms(ode, o2, add, ref=ref)
    if not same or upto == "atoms":
        return
    stage[0] = "numeric"
    if points is None:
        points = default_points(ode) if ref is None else mg.valid_points(ref, __import__("random").Random(cm.sha(text)), 3)
    npts = compare_numeric(ode, o2, text, points, res, add, ref, saved)
    if npts and ref is not None and (ref.inter_names or ref.max_depth() >= 2):
        res["nontrivial"].append(cm.sha(text))
    elif npts and ref is None:
        res["nontrivial"].append(cm.sha(text))


def default_points(ode):
    return [{"t": 0.0, "states": {s.name: num(s.value) for s in ode.states}, "params": {p.name: num(p.value) for p in ode.parameters}}]


def check_import(case, res):
    import gotranx
    from gotranx.myokit import cellml_to_gotran, mmt_to_gotran

    kind = case["import"]
    inp = {k: case[k] for k in ("import", "file", "text") if k in case}
    res["sample"] = inp
    with cm.tempdir("c11i_") as d:
        src = case.get("file")
        if "text" in case:
            src = os.path.join(d, "model.mmt")
            with open(src, "w") as f:
                f.write(case["text"])
        try:
            with cm.quiet():
                ode = (mmt_to_gotran if kind == "mmt" else cellml_to_gotran)(src)
        except Exception as e:  # noqa: BLE001 - the importer itself is not C11's subject
            cm.note(res, f"skipped:import-fails:{cm.exc_name(e)}")
            return
        res["evals"] += 1
        seen = set()

        def add(sig, msg, exp, act, detail="", **kw):
            if sig not in seen:
                seen.add(sig)
                res["failures"].append(cm.fail(sig, msg, inp, exp, act, detail))

        path = os.path.join(d, "saved.ode")
        try:
            with cm.quiet():
                ode.save(path)
            saved = open(path).read()
        except Exception as e:  # noqa: BLE001
            add(f"C11:imported-model:save-raises:{cm.exc_name(e)}", f"ode.save raises for a model imported from {kind}", "a file", cm.exc_site(e), cm.short(e))
            return
        try:
            with cm.quiet():
                o2 = gotranx.load_ode(path)
        except Exception as e:  # noqa: BLE001
            msg = cm.short(e)
            m = re.search(r"line (\d+)", msg)
            ln = saved.splitlines()[int(m.group(1)) - 1] if m and int(m.group(1)) <= len(saved.splitlines()) else ""
            ident = re.search(r"Symbol '([^']+)' not found", str(e)) if cm.exc_name(e) == "MissingSymbolError" else None
            add(f"C11:imported-model:reload-raises:{cm.exc_name(e)}" + (f":{ident.group(1)}" if ident else ""), f"the documented save-and-reload step fails for a model imported from {kind}", "a loadable file", cm.exc_site(e),
                f"{msg} :: offending saved line: {ln[:200]}")
            return
    A, B = atoms_of(ode), atoms_of(o2)
    for k in ("state", "parameter", "assignment"):
        if set(A[k]) != set(B[k]):
            add(f"C11:imported-model:{k}-set-changed", f"{k} names differ after save/reload of an imported model", sorted(A[k]), sorted(B[k]))
    for k in ("state", "parameter"):
        for n in sorted(set(A[k]) & set(B[k])):
            try:
                va, vb = num(A[k][n].value), num(B[k][n].value)
            except Exception as e:  # noqa: BLE001
                res["errors"].append(f"C11 import: cannot evaluate default value of {n}: {cm.short(e)}")
                continue
            if not cm.close(va, vb, 1e-12, 0.0):
                add("C11:imported-model:value-changed", f"default value of {k} {n} differs after save/reload of an imported model", va, vb)
            if (A[k][n].unit_str or None) != (B[k][n].unit_str or None):
                add(f"C11:imported-model:unit-changed:{k}", f"unit of {k} {n} differs after save/reload of an imported model", A[k][n].unit_str, B[k][n].unit_str)
            if (A[k][n].description or None) != (B[k][n].description or None):
                add("C11:imported-model:description-changed", f"description of {k} {n} differs after save/reload of an imported model", A[k][n].description, B[k][n].description)
    if membership(ode) != membership(o2):
        ma, mb = membership(ode), membership(o2)
        bad = sorted(k for k in set(ma) | set(mb) if ma.get(k) != mb.get(k))[:4]
        add("C11:imported-model:component-membership-changed", "names per component differ after save/reload of an imported model", {k: ma.get(k) for k in bad}, {k: mb.get(k) for k in bad})
    if not seen:  # the saved text is an accepted model text: full round trip on it
        res["evals"] -= 1
        roundtrip(saved, None, res, None, what=f"text saved from a {kind} import")


def check(case):
    res = cm.new_result()
    if "import" in case:
        try:
            check_import(case, res)
        except Exception as e:  # noqa: BLE001
            res["errors"].append(f"C11 import: harness exception {cm.exc_name(e)}: {cm.short(e)}")
        return res
    try:
        c = dict(case)
        if "hand" in c:
            c["ode"] = HAND[c["hand"]]
        elif "file" in c:
            c["ode"] = open(c["file"]).read()
        c = cm.materialize(c)
    except Exception as e:  # noqa: BLE001
        res["errors"].append(f"reference cannot read model: {cm.exc_name(e)}: {cm.short(e)}")
        return res
    res["sample"] = {"ode": c["ode"], "points": c["points"][:1]}
    try:
        with time_limit(float(case.get("limit", 15 if case.get("_noshrink") else 60))):
            roundtrip(c["ode"], c["points"], res, None if case.get("_noshrink") else True, upto=case.get("_stage") if case.get("_noshrink") else None)
    except Slow:
        cm.note(res, "skipped:too-slow")
    return res


DEADLINE = [None]


def shrink_job(f):
    left = (DEADLINE[0] - time.time()) if DEADLINE[0] else 30.0
    return cm.shrink_failure(check, f, f["_shrink"]["base"], keep_components=f["_shrink"].get("keep_components", False), max_steps=80, max_seconds=max(3.0, min(20.0, left * 0.45)))


from oracles._b_helpers import scoped_api  # noqa: E402

run, replay = scoped_api(globals(), "c11run_", before_run=lambda deadline: DEADLINE.__setitem__(0, deadline))
