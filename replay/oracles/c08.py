"""C08: a text with one well-formedness fault never becomes generated code."""
from __future__ import annotations

import random
import re

import common as cm
import modelgen as mg
from oracles import _a_helpers as ah

ID = "C08"
RULE = """Base models come from modelgen.gen_model (1-5 states, 0-5 parameters, 0-8 intermediates, default component only
up to 3 named components, expression depth 1-3, with annotations / comment lines / unused names; six option sets in rotation).
One case = one base model + ONE fault planted at a seeded site: a second definition of an intermediate or derivative with a
different right-hand side (same / different dependency set; in the same or another component), a second state / parameter
entry with a different value (same block / other block / other component), a name declared as two kinds (state+parameter
with equal or different values, intermediate+parameter, intermediate+state, derivative+parameter), a deleted derivative, a
derivative of an undeclared state or moved to a component that lacks its state, an undefined symbol (in a derivative, an
intermediate, a declaration value), a cycle of length 1/2/3 (back-edge between existing definitions, fresh names used by a
derivative, fresh unused names).  "Differing" is taken literally from the statement: a textually identical second
definition of the same kind is NOT a violation; such identical duplicates run only as controls (counted in info, never a
failure), whereas a state and a parameter of one name are definitions of different kinds and count as a violation even
with equal values.  Before gotranx is consulted an independent reader (oracles/_a_helpers.violations) must find the base
clean and the planted fault present in the mutated text, otherwise the case is a harness error.  Failure = load,
numpy generation or C generation all complete and return code (signature C08:accepted:<fault>[:<place>]); any exception
= pass; no answer within 30 s while the base needed < 6 s = C08:hangs:<fault>.  Bases that gotranx itself cannot
load/generate (or needs > 6 s for) are skipped.  quick: up to 1900 cases, thorough: up to 24000, dealt in rounds that plant each of the 39 fault kinds once (plus the 8 control kinds every 4th round).
Non-trivial = mutated text differs from a base that loads and generates; distinct by sha1(mutated text)."""

CASE_TIMEOUT = 30
BASE_LIMIT = 6.0

# fault -> (mutator name, kwargs, violation key the reference must find; None = control)
FAULTS: dict = {}


def _reg(name, fn, key, **kw):
    FAULTS[name] = (fn, kw, key)


# ------------------------------------------------------------------ model access
def _states(items):
    return [(i, e) for i, it in enumerate(items) if it["kind"] == "states" for e in it["entries"]]


def _params(items):
    return [(i, e) for i, it in enumerate(items) if it["kind"] == "parameters" for e in it["entries"]]


def _assigns(items, deriv=None):
    snames = {e["name"] for _, e in _states(items)}
    out = []
    for i, it in enumerate(items):
        if it["kind"] == "assign":
            m = ah._DERIV.match(it["name"])
            isd = bool(m and m.group(1) in snames)
            if deriv is None or deriv == isd:
                out.append(i)
    return out


def _comps(items):
    out = []
    for it in items:
        if "comp" in it and it["comp"] not in out:
            out.append(it["comp"])
    return out or [("",)]


def _other_comp(items, comp, rng):
    cs = [c for c in _comps(items) if c != tuple(comp)]
    return rng.choice(cs) if cs else ("Zc",)


def _vars(rhs):
    return mg.expr_vars(mg.parse_expr(rhs))


def _replace(items, i, **kw):
    new = dict(items[i])
    new.update(kw)
    return items[:i] + [new] + items[i + 1:]


def _entry(e, value, keep_annotation=True):
    rhs = e["text"].split("=", 1)[1]
    sm = mg._SCALAR.match(rhs)
    if sm and keep_annotation:
        return f'{e["name"]}=ScalarParam({value}' + "".join("," + p for p in mg._split_top(sm.group(1))[1:]) + ")"
    return f'{e["name"]}={value}'


def _new_decl(items, after, kind, comp, entry):
    new = ah.parse_doc(ah.decl_text(kind, comp, [entry]))[0]
    return items[: after + 1] + [new] + items[after + 1:]


def _differ(rng, v):
    return rng.choice([f"({v}) + 1", f"({v}) - 0.5", f"1.5 + ({v})"])


# ------------------------------------------------------------------ mutators: (items, rng, site, **kw) -> (items, desc) | None
def dup_assign(items, rng, site, deriv, how, place):
    c = _assigns(items, deriv)
    if not c:
        return None
    i = c[site % len(c)]
    it = items[i]
    trailing = it.get("trailing") if rng.random() < 0.6 else None
    if how == "same":
        line = it["text"]
    elif how == "samedeps":
        line = ah.assign_text(it["name"], _differ(rng, it["rhs"]), trailing)
    else:
        have = _vars(it["rhs"])
        pool = [e["name"] for _, e in _states(items) if e["name"] not in have] or [e["name"] for _, e in _params(items) if e["name"] not in have]
        pool = pool or [v for v in ("t",) if v not in have]
        if not pool:
            return None
        line = ah.assign_text(it["name"], f"({it['rhs']}) + {rng.choice(pool)}", trailing)
    if place == "same-comp":
        out = items[: i + 1] + [dict(ah.parse_doc(line)[0], comp=it["comp"])] + items[i + 1:] if rng.random() < 0.5 else ah.insert_assign(items, it["comp"], line)
        where = it["comp"]
    else:
        where = _other_comp(items, it["comp"], rng)
        out = ah.insert_assign(items, where, line)
    return out, {"name": it["name"], "original": it["text"], "added": line, "component": list(where)}


def dup_decl(items, rng, site, kind, equal, place):
    c = _states(items) if kind == "states" else _params(items)
    if not c:
        return None
    i, e = c[site % len(c)]
    it = items[i]
    entry = e["text"] if equal else _entry(e, _differ(rng, e["value"]), keep_annotation=rng.random() < 0.5)
    if place == "same-block":
        ents = [x["text"] for x in it["entries"]]
        ents.insert(rng.randint(0, len(ents)), entry)
        out = _replace(items, i, text=ah.decl_text(kind, it["comp"], ents))
        where = it["comp"]
    else:
        where = it["comp"] if place == "other-block" else _other_comp(items, it["comp"], rng)
        out = _new_decl(items, i, kind, where, entry)
    return out, {"name": e["name"], "original": e["text"], "added": entry, "component": list(where)}


def clash_decl(items, rng, site, frm, equal, place):
    """a state re-declared as parameter (frm='states') or a parameter re-declared as a state with its own derivative"""
    c = _states(items) if frm == "states" else _params(items)
    if not c:
        return None
    i, e = c[site % len(c)]
    it = items[i]
    where = it["comp"] if place == "same-comp" else _other_comp(items, it["comp"], rng)
    entry = _entry(e, e["value"] if equal else _differ(rng, e["value"]), keep_annotation=False)
    if frm == "states":
        out = _new_decl(items, i, "parameters", where, entry)
        added = [entry]
    else:
        line = f"d{e['name']}_dt = -{e['name']}"
        out = ah.insert_assign(_new_decl(items, i, "states", where, entry), where, line)
        added = [entry, line]
    return out, {"name": e["name"], "original": e["text"], "added": added, "component": list(where)}


def clash_assign_decl(items, rng, site, what):
    """what: intermediate-as-param | intermediate-as-state | derivative-as-param (declaration added for an assigned name)
    | param-as-intermediate | state-as-intermediate[:place] (assignment added for a declared name)"""
    last_decl = max(i for i, it in enumerate(items) if it["kind"] in ("states", "parameters"))
    if what in ("intermediate-as-param", "derivative-as-param", "intermediate-as-state"):
        c = _assigns(items, deriv=(what == "derivative-as-param"))
        if not c:
            return None
        it = items[c[site % len(c)]]
        val = rng.choice(["1.5", "0.25", "2"])
        if what == "intermediate-as-state":
            line = f"d{it['name']}_dt = -{it['name']}"
            out = ah.insert_assign(_new_decl(items, last_decl, "states", it["comp"], f"{it['name']}={val}"), it["comp"], line)
            added = [f"states: {it['name']}={val}", line]
        else:
            comp = rng.choice(_comps(items))
            out = _new_decl(items, last_decl, "parameters", comp, f"{it['name']}={val}")
            added = [f"parameters{list(comp)}: {it['name']}={val}"]
        return out, {"name": it["name"], "original": it["text"], "added": added}
    frm, place = (what.split(":") + ["same-comp"])[:2]
    c = _params(items) if frm == "param-as-intermediate" else _states(items)
    if not c:
        return None
    i, e = c[site % len(c)]
    pool = [x["name"] for _, x in _states(items) if x["name"] != e["name"]]
    rhs = rng.choice([f"2*{rng.choice(pool)} + 0.5" if pool else "0.75", rng.choice(["0.75", "3"]), e["value"]])
    where = items[i]["comp"] if place == "same-comp" else _other_comp(items, items[i]["comp"], rng)
    line = f"{e['name']} = {rhs}"
    return ah.insert_assign(items, where, line), {"name": e["name"], "original": e["text"], "added": line, "component": list(where)}


def missing_derivative(items, rng, site):
    c = _assigns(items, deriv=True)
    i = c[site % len(c)]
    out = items[:i] + items[i + 1:]
    for h, idx in ah.groups(items):
        if h is not None and idx == [i]:  # the block would be left without lines: drop its header as well
            out = [it for k, it in enumerate(items) if k not in (h, i)]
    return out, {"name": items[i]["name"], "removed": items[i]["text"], "component": list(items[i]["comp"])}


def orphan_derivative(items, rng, site, how):
    sn = [e["name"] for _, e in _states(items)]
    if how == "undeclared":
        comp = _comps(items)[site % len(_comps(items))]
        line = f"dzq_dt = {rng.choice(['-' + rng.choice(sn), '0.5', rng.choice(sn) + ' - 1.5'])}"
        return ah.insert_assign(items, comp, line), {"name": "dzq_dt", "added": line, "component": list(comp)}
    c = _assigns(items, deriv=True)
    i = c[site % len(c)]
    it = items[i]
    st = it["name"][1:-3]
    declared_in = {cc for k, e in _states(items) if e["name"] == st for cc in items[k]["comp"]}
    cs = [cc for cc in _comps(items) if not set(cc) & declared_in] or [("Zc",)]
    where = rng.choice(cs)
    out, _ = missing_derivative(items, rng, c.index(i))
    return ah.insert_assign(out, where, it["text"]), {"name": it["name"], "moved": it["text"], "from": list(it["comp"]), "to": list(where)}


def undefined_symbol(items, rng, site, where):
    if where == "in-declaration":
        c = _states(items) + _params(items)
        i, e = c[site % len(c)]
        it = items[i]
        new = _entry(e, rng.choice([f"({e['value']}) + zz9", "zz9", f"zz9*({e['value']})"]))
        ents = [new if x is e else x["text"] for x in it["entries"]]
        return _replace(items, i, text=ah.decl_text(it["kind"], it["comp"], ents)), {"name": e["name"], "original": e["text"], "changed-to": new, "undefined": "zz9"}
    c = _assigns(items, deriv=(where == "in-derivative"))
    if not c:
        return None
    i = c[site % len(c)]
    it = items[i]
    vs = sorted(_vars(it["rhs"]) - {"t", "time"})
    if vs and rng.random() < 0.5:
        v = rng.choice(vs)
        rhs = re.sub(rf"(?<![\w.]){re.escape(v)}(?!\w)", "zz9", it["rhs"], count=1)
    else:
        rhs = f"({it['rhs']}) + zz9"
    line = ah.assign_text(it["name"], rhs, it.get("trailing"))
    return _replace(items, i, text=line, rhs=rhs), {"name": it["name"], "original": it["text"], "changed-to": line, "undefined": "zz9"}


def cycle(items, rng, site, n, how):
    A = {items[i]["name"]: i for i in _assigns(items)}
    if how == "back-edge":
        deps = {a: _vars(items[i]["rhs"]) & set(A) for a, i in A.items()}
        chains = [[a] for a in A]
        for _ in range(n - 1):  # chains a <- b <- c: each next name uses the previous one
            chains = [ch + [b] for ch in chains for b in A if ch[-1] in deps[b] and b not in ch]
        chains = sorted(chains)
        if not chains:
            return None
        ch = chains[site % len(chains)]
        i = A[ch[0]]
        rhs = f"({items[i]['rhs']}) + {ch[-1]}"
        line = ah.assign_text(ch[0], rhs, items[i].get("trailing"))
        return _replace(items, i, text=line, rhs=rhs), {"cycle": ch, "original": items[i]["text"], "changed-to": line}
    names = ["cy1", "cy2", "cy3"][:n]
    forms = ["{} = {}*0.5 + 1", "{} = 2 - {}", "{} = {}/3"]
    comps = _comps(items)
    out, added = items, []
    for k, nm in enumerate(names):
        line = forms[k].format(nm, names[(k + 1) % n])
        out = ah.insert_assign(out, comps[(site + k) % len(comps)] if rng.random() < 0.5 else comps[site % len(comps)], line)
        added.append(line)
    desc = {"cycle": names, "added": added}
    if how == "fresh-used":
        c = [i for i, it in enumerate(out) if it["kind"] == "assign" and it["name"] in {items[j]["name"] for j in _assigns(items, True)}]
        i = c[site % len(c)]
        rhs = f"({out[i]['rhs']}) + cy1"
        line = ah.assign_text(out[i]["name"], rhs, out[i].get("trailing"))
        out = _replace(out, i, text=line, rhs=rhs)
        desc["used-by"] = line
    return out, desc


for _how, _key in (("same", None), ("samedeps", "dup"), ("diffdeps", "dup")):
    _label = {"same": "same-rhs", "samedeps": "diff-rhs-same-deps", "diffdeps": "diff-rhs-diff-deps"}[_how]
    for _pl in ("same-comp", "other-comp"):
        _reg(f"dup-intermediate-{_label}:{_pl}", dup_assign, _key, deriv=False, how=_how, place=_pl)
    _reg(f"dup-derivative-{_label}", dup_assign, _key, deriv=True, how=_how, place="same-comp")
for _kind, _nm in (("states", "state"), ("parameters", "param")):
    for _pl in ("same-block", "other-block", "other-comp"):
        if (_nm, _pl) != ("state", "other-comp"):  # would also lack a derivative there: not a clean control
            _reg(f"dup-{_nm}-equal-value:{_pl}", dup_decl, None, kind=_kind, equal=True, place=_pl)
        _reg(f"dup-{_nm}-diff-value:{_pl}", dup_decl, "dup", kind=_kind, equal=False, place=_pl)
for _eq in (True, False):
    for _pl in ("same-comp", "other-comp"):
        _v = "equal-value" if _eq else "diff-value"
        _reg(f"clash-state-as-param-{_v}:{_pl}", clash_decl, "dup", frm="states", equal=_eq, place=_pl)
    _reg(f"clash-param-as-state-{'equal-value' if _eq else 'diff-value'}", clash_decl, "dup", frm="parameters", equal=_eq, place="same-comp")
for _w in ("intermediate-as-param", "intermediate-as-state", "derivative-as-param", "param-as-intermediate",
           "state-as-intermediate:same-comp", "state-as-intermediate:other-comp"):
    _reg(f"clash-{_w}", clash_assign_decl, "dup", what=_w)
_reg("missing-derivative", missing_derivative, "missing")
_reg("orphan-derivative:undeclared-state", orphan_derivative, "orphan", how="undeclared")
_reg("orphan-derivative:other-comp", orphan_derivative, "orphan", how="other-comp")
for _w in ("in-derivative", "in-intermediate", "in-declaration"):
    _reg(f"undefined-symbol:{_w}", undefined_symbol, "undefined", where=_w)
for _n in (1, 2, 3):
    for _h in ("back-edge", "fresh-used", "fresh-unused"):
        _reg(f"cycle-{_n}:{_h}", cycle, "cycle", n=_n, how=_h)

# the kinds most likely to slip through come first; controls last
ORDER = sorted(FAULTS, key=lambda f: (FAULTS[f][2] is None, not f.startswith(("dup", "clash")), f))


def cases(tier, seed, focus):
    n = 1900 if tier == "quick" else 24000
    order = [f for f in ORDER if not focus or any(cm.focus_match(f"C08:{m}:{f}", focus) for m in ("accepted", "hangs"))] or ORDER
    if all(FAULTS[f][2] is None for f in order):
        order = ORDER
    j = r = 0
    while j < n:
        for f in order:
            if FAULTS[f][2] is None and r % 4:  # controls only every fourth round
                continue
            yield {"mseed": seed * 100003 + j, "opts": ah.model_opts(j + r), "fault": f, "site": r + (seed % 7),
                   "tags": [f"C08:accepted:{f}", f"C08:hangs:{f}"]}
            j += 1
        r += 1


def build(case) -> dict | None:
    """explicit form {"base", "ode", "fault", "desc"} of a seeded case (None: the fault has no site in this model)"""
    if "ode" in case and "base" in case:
        return {k: case.get(k) for k in ("base", "ode", "fault", "desc")}
    base = ah.model_text(case)
    fn, kw, _ = FAULTS[case["fault"]]
    rng = random.Random(f"{case['mseed']}/{case['fault']}/{case['site']}")
    got = fn(ah.parse_doc(base), rng, int(case["site"]), **kw)
    if got is None:
        return None
    return {"base": base, "ode": ah.render(got[0]), "fault": case["fault"], "desc": got[1]}


def check(case):
    res = cm.new_result()
    try:
        c = build(case)
        if c is None:
            cm.note(res, f"skipped:no-site:{case['fault']}")
            return res
        fault = c["fault"]
        key = FAULTS[fault][2]
        vb, vm = ah.violations(c["base"]), ah.violations(c["ode"])
    except Exception as e:  # noqa: BLE001
        res["errors"].append(f"harness: cannot build case {case.get('fault')}/{case.get('mseed')}: {cm.exc_name(e)}: {cm.short(e)}")
        return res
    inp = {"base": c["base"], "ode": c["ode"], "fault": fault, "desc": c["desc"]}
    if vb:
        res["errors"].append(f"harness: base model is not well formed by the reference reader: {vb} (mseed {case.get('mseed')})")
        return res
    if (key is None and set(vm) != {"same"}) or (key is not None and key not in vm):
        res["errors"].append(f"harness: fault {fault} not present in the mutated text by the reference reader: {vm} :: {c['desc']}")
        return res
    base = ah.products(c["base"], BASE_LIMIT)
    if "stage" in base:
        cm.note(res, "skipped:base-model-slow" if base["stage"] == "slow" else "skipped:base-model-fails")
        return res
    res["evals"] += 1
    res["sample"] = inp
    if c["ode"] != c["base"]:
        res["nontrivial"].append(cm.sha(c["ode"]))
    mut = ah.products(c["ode"])
    if key is None:
        cm.note(res, f"control:{fault}:" + ("accepted" if "stage" not in mut else f"rejected:{cm.exc_name(mut['exc'])}"))
        return res
    if "stage" in mut:
        cm.note(res, f"rejected-at-{mut['stage']}:{cm.exc_name(mut['exc'])}")
        return res
    nm = str((c["desc"] or {}).get("name") or ((c["desc"] or {}).get("cycle") or [""])[0])
    kept = [ln.strip()[:160] for ln in mut["py"].split("def rhs(")[1].split("\ndef ")[0].splitlines() if re.match(rf"\s*{re.escape(nm)}\s*=", ln)] if nm else []
    res["failures"].append(cm.fail(f"C08:accepted:{fault}", f"ill-formed text ({fault}: reference finds {vm}) is loaded and numpy + C code is generated", inp,
                                   "an exception at load or code generation", "code generated", f"{c['desc']}; generated rhs lines for {nm!r}: {kept}"))
    return res


def on_timeout(case):
    res = cm.new_result()
    try:
        c = build(case)
    except Exception as e:  # noqa: BLE001
        res["errors"].append(f"harness: timeout on a case that cannot be rebuilt: {cm.short(e)}")
        return res
    if c is None or FAULTS[c["fault"]][2] is None:
        return res
    res["evals"] += 1
    res["failures"].append(cm.fail(f"C08:hangs:{c['fault']}", f"load + generation of the mutated text did not finish in {CASE_TIMEOUT} s (base is limited to {BASE_LIMIT} s)",
                                   {"base": c["base"], "ode": c["ode"], "fault": c["fault"], "desc": c["desc"]}, "an exception", "no answer", str(c["desc"])))
    return res


run, replay = cm.make_api(globals())
