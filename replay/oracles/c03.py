"""C03: the JAX module imports, runs jitted and un-jitted, returns full-size arrays equal to the NumPy backend."""
from __future__ import annotations

import math

import numpy as np

import backends as be
import common as cm
import modelgen as mg

ID = "C03"
USES_SHRINK = True
CASE_TIMEOUT = 90
SCHEMES = ["explicit_euler", "generalized_rush_larsen", "hybrid_rush_larsen"]
RULE = """Models from modelgen.gen_model (1-4 states, 0-4 parameters, 0-6 intermediates, components, all grammar features in
rotation; And/Or with 2, 3 and 4 operands forced regularly) plus one-line probe models per construct.  For each model the module
generated with backend=jax (rhs, monitor_values, missing_values for 1-3 requested names, explicit_euler, generalized_rush_larsen,
hybrid_rush_larsen, init functions) is exec'ed; every function is called jitted and under jax.disable_jit() at 2 points.  Checks:
call succeeds; len(rhs)/len(scheme) == n_states, len(monitor_values) == number of monitored names, len(missing_values) == number of
requested names; every entry equals the NumPy-backend module of the same model by name (rtol 1e-9); init functions return the
declared defaults and honour keyword overrides.  missing_values is additionally generated (without schemes) for 2 further requests of 2-4
names (states, parameters, intermediates) whose requested SLOT order differs from the order in which the generator emits the names (states by
name, parameters by name, then assignments in dependency order): the reversed emission order and a seeded permutation, plus the hand-written
requests {'flux': 0, 'x': 1}, {'b': 0, 'a': 1}, ... of MISSING_PROBE; the JAX result must equal the NumPy result entry by entry.  Value
comparisons: rtol 1e-9, atol 1e-12 x (1 + largest magnitude).  A fraction of the models has intermediates that mention a d<state>_dt name.
One case = one (model, function, mode, point).  Models whose NumPy module cannot
be generated are skipped (C01).  Non-trivial: the function's NumPy result is not identically zero; distinct by sha1(text, function,
mode, point)."""

PROBES = [
    "Conditional(And(Gt(x, 0), Lt(y, 1)), 1, 2)", "Conditional(And(Gt(x, 0), Lt(y, 1), Ge(x, 0.5)), 1, 2)", "Conditional(And(Gt(x, 0), Lt(y, 1), Ge(x, 0.5), Le(y, 0.2)), 1, 2)",
    "Conditional(Or(Lt(x, 0), Gt(y, 2)), 1, 2)", "Conditional(Or(Lt(x, 0), Gt(y, 2), Ge(x, 5)), 1, 2)", "Conditional(Not(Lt(x, y)), 1, 2)", "Conditional(Not(Eq(x, y)), 1, 2)",
    "Conditional(Not(And(Lt(x, 0), Gt(y, 0))), x, y)", "Conditional(Or(And(Lt(x, 0), Gt(y, 0)), Ge(x, 3)), x, y)", "Conditional(Lt(x, 1), Conditional(Gt(y, 3), 1, 2), 3)",
    "Lt(x, y) + 1", "ContinuousConditional(Gt(x, 1), 2, 3, 0.5)", "Mod(x, 3)", "floor(x/2)", "abs(x - 5)", "-abs(x)*x", "x**(1/3)", "1/4*x", "exp(-x)*log(y**2 + 1)", "sqrt(y**2 + 1)",
    "asin(0.3*sin(x)) + acos(0.2*cos(y)) - atan(x*y) + tan(0.1*x)", "pi*x + t + time", "2**-x", "-x**2", "x - a", "a*x*y",
]


MISSING_PROBE = "parameters(a=2.0, b=0.25)\nstates(x=1.5, y=-2.0)\nflux = a*x - y\nw0 = flux*b + 3.0\nunused = y*7.0\ndx_dt = -flux\ndy_dt = w0 - y\n"
MISSING_REQUESTS = [{"flux": 0, "x": 1}, {"b": 0, "a": 1}, {"b": 0, "flux": 1, "a": 2, "x": 3}, {"w0": 0, "flux": 1}, {"y": 0, "x": 1}, {"dy_dt": 0, "unused": 1, "y": 2},
                    {"x": 0, "flux": 1}, {"a": 0, "b": 1}]


def probe_text(e):
    return f"parameters(a=2.0, b=1/4)\nstates(x=1.5, y=2.0)\nw0 = {e}\ndx_dt = w0 - a*x\ndy_dt = b - y*abs(x)\n"


def cases(tier, seed, focus):
    n = 110 if tier == "quick" else 1200
    yield {"ode": MISSING_PROBE, "npts": 2, "missing": MISSING_REQUESTS[0], "missing_extra": MISSING_REQUESTS[1:], "only_fn": "missing_values", "tags": ["C03:value-mismatch:missing_values", "C03"]}
    for e in PROBES:
        yield {"ode": probe_text(e), "npts": 2, "tags": ["C03"]}
    # operator-precedence probes (the JAX printer is a subclass of the NumPy printer): several expressions per model, one intermediate each
    from oracles.c01 import _precedence_probes
    pp = _precedence_probes()
    for lo in range(0, len(pp), 8):
        body = "".join(f"p{j} = {e}\n" for j, e in enumerate(pp[lo:lo + 8]))
        yield {"ode": f"parameters(a=2.0, b=0.25)\nstates(x=1.5, y=2.0)\n{body}dx_dt = p0 - a*x\ndy_dt = b - y*abs(x)\n", "npts": 2, "tags": ["C03"]}
    for i in range(n):
        k = seed * 100003 + i
        force = list(mg.feature_cycle(k)) + (["And3"] if i % 4 == 0 else ["Or3"] if i % 4 == 2 else [])
        yield {"mseed": k, "opts": {"force": force, "n_states": [1, 4], "n_params": [0, 4], "n_inter": [0, 6], "deriv_ref": 0.15}, "npts": 2, "tags": ["C03"]}


def check(case):
    res = cm.new_result()
    try:
        c = cm.materialize(case)
        ref = mg.RefModel(c["ode"])
    except Exception as e:  # noqa: BLE001
        res["errors"].append(f"reference cannot read generated model: {cm.exc_name(e)}: {cm.short(e)}")
        return res
    text = c["ode"]
    shr = not case.get("_noshrink")
    only = c.get("only")  # (function, mode) restriction of a stored failure
    res["sample"] = {"ode": text, "points": c["points"][:1]}

    def add(kind, what, inp, exp=None, act=None, detail="", base=None, feature=False, sub=None):
        sig = f"C03:{kind}" + (f":{sub}" if sub else f":{cm.main_feature(text)}" if feature else "")
        f = cm.fail(sig, what, inp, exp, act, detail)
        if shr:
            f["_shrink"] = {"base": f"C03:{base or kind}"}
        res["failures"].append(f)

    try:
        ode = cm.load(text)
    except Exception as e:  # noqa: BLE001
        cm.note(res, f"skipped:loader-rejects:{cm.exc_name(e)}")
        return res
    stiff = [ref.state_names[0]]
    given = {k: v for k, v in (c.get("missing") or {}).items() if k in ref.assigns or k in ref.states or k in ref.params}
    if given and sorted(given.values()) == list(range(len(given))):
        req = {k: int(v) for k, v in given.items()}  # the requested slots as stored
    else:  # (a shrunk model lost some of the names: renumber in the stored slot order)
        req = {k: i for i, k in enumerate(sorted(given, key=lambda k: given[k]))} or pick_missing(ref)
    schemes = SCHEMES
    try:
        npm = be.build(ode, "numpy", schemes, stiff_states=stiff, missing_values=req)
    except be.Stage:
        schemes = []
        try:
            npm = be.build(ode, "numpy", missing_values=req)
        except be.Stage as e:
            cm.note(res, f"skipped:numpy-{e.stage}-fails(C01)")
            return res
    kw = {"missing_values": req}
    if schemes:
        kw["stiff_states"] = stiff
    try:
        jm = be.build(ode, "jax", schemes, **kw)
    except be.Stage as e:
        res["evals"] += 1
        k = f"{e.stage}-raises:{cm.exc_site(e.exc) if e.stage == 'codegen' else cm.exc_name(e.exc)}"
        add(k, f"jax module cannot be {'generated' if e.stage == 'codegen' else 'imported'} although the NumPy module can", {"ode": text}, "module", cm.exc_name(e.exc), str(e))
        return res
    fns = [("rhs", None, npm.n_states), ("monitor_values", None, len(ref.assigns)), ("missing_values", None, len(req))] + [(s, 0.1, npm.n_states) for s in schemes]
    if c.get("only_fn"):
        fns = [f for f in fns if f[0] == c["only_fn"]]
    broken = set()
    for pt in c["points"]:
        pt = cm.restrict_point(pt, ref)
        s, p = npm.arrays(pt)
        sj, pj = jm.arrays(pt)
        for fn, dt, n_expect in fns:
            try:
                want = npm.raw(fn, s, pt["t"], p, dt=dt)
            except be.Stage:
                continue
            if not np.all(np.isfinite(want)):
                continue
            names = out_names(fn, npm, req)
            for mode in ("jit", "nojit"):
                if only and [fn, mode] != list(only):
                    continue
                if (fn, mode) in broken:
                    continue
                res["evals"] += 1
                inp = {"ode": text, "points": [pt], "missing": req, "only": [fn, mode]}
                if np.any(want != 0):
                    res["nontrivial"].append(cm.sha([text, fn, mode, pt]))
                try:
                    got = jm.raw(fn, sj, pt["t"], pj, dt=dt, jit=(mode == "jit"))
                except be.Stage as e:
                    broken.add((fn, mode))
                    add(f"call-raises:{cm.exc_name(e.exc)}:{cm.msg_key(e.exc)}", f"jax {fn} raises ({mode})", inp, "array", cm.exc_name(e.exc), str(e))
                    continue
                if got.shape != (n_expect,):
                    broken.add((fn, mode))
                    add(f"wrong-length:{group(fn)}", f"jax {fn} returns {got.shape} entries, documented length is {n_expect}", inp, n_expect, list(got.shape))
                    continue
                jnames = out_names(fn, jm, req)
                scale = max([abs(v) for v in pt["states"].values()] + [0.0])
                try:  # absolute-error scale: the largest operand met in an addition / Mod / trigonometric function anywhere in the model
                    ref.evaluate(pt["t"], pt["states"], pt["params"])
                    scale = max(scale, float(ref.last_maxabs))
                except Exception:  # noqa: BLE001
                    pass
                bad = {n: float(got[jnames[n]]) for n in names if not cm.vclose(got[jnames[n]], want[names[n]], scale)}
                if bad:
                    add(f"value-mismatch:{group(fn)}", f"jax {fn} ({mode}) differs from the NumPy backend for {sorted(bad)[:3]}", inp, {n: float(want[names[n]]) for n in bad}, bad,
                        base=f"value-mismatch:{group(fn)}", feature=True, sub="slot-order" if fn == "missing_values" and permuted(bad.values(), [want[names[n]] for n in bad]) else None)
        if shr and res["failures"]:
            break
    # missing_values with requests whose slot order differs from the emission order ------------------------------------
    extra = c.get("missing_extra")
    if extra is None and not only and not case.get("_noshrink"):
        extra = extra_requests(ref, npm, text)
    for rq in extra or []:
        rq = {k: int(v) for k, v in rq.items() if k in ref.assigns or k in ref.states or k in ref.params}
        if len(rq) < 2 or sorted(rq.values()) != list(range(len(rq))) or (shr and res["failures"]):
            continue
        try:
            npx = be.build(ode, "numpy", missing_values=rq)
        except be.Stage:
            cm.note(res, "skipped:numpy-missing_values-codegen-fails")
            continue
        try:
            jx = be.build(ode, "jax", missing_values=rq)
        except be.Stage as e:
            cm.note(res, f"skipped:jax-{e.stage}-fails-for-extra-request(reported for the main request)")
            continue
        for pt in c["points"]:
            pt = cm.restrict_point(pt, ref)
            s, p = npx.arrays(pt)
            sj, pj = jx.arrays(pt)
            try:
                want = npx.raw("missing_values", s, pt["t"], p)
            except be.Stage:
                continue
            if not np.all(np.isfinite(want)) or want.shape != (len(rq),):
                continue
            scale = max([abs(v) for v in pt["states"].values()] + [0.0])
            for mode in ("jit", "nojit"):
                res["evals"] += 1
                inp = {"ode": text, "points": [pt], "missing": rq, "only": ["missing_values", mode]}
                if np.any(want != 0):
                    res["nontrivial"].append(cm.sha([text, "missing_values", mode, pt, rq]))
                try:
                    got = jx.raw("missing_values", sj, pt["t"], pj, jit=(mode == "jit"))
                except be.Stage as e:
                    add(f"call-raises:{cm.exc_name(e.exc)}:{cm.msg_key(e.exc)}", f"jax missing_values raises ({mode}) for the request {rq}", inp, "array", cm.exc_name(e.exc), str(e))
                    break
                if got.shape != (len(rq),):
                    add("wrong-length:missing_values", f"jax missing_values returns {got.shape} entries for the request {rq}", inp, len(rq), list(got.shape))
                    break
                bad = {n: float(got[i]) for n, i in rq.items() if not cm.vclose(got[i], want[i], scale)}
                if bad:
                    add("value-mismatch:missing_values", f"jax missing_values ({mode}) for the request {rq} differs from the NumPy backend for {sorted(bad)[:3]}", inp, {n: float(want[rq[n]]) for n in bad}, bad,
                        f"request slots {rq}; emission order {emission_order(ref, npm)}", base="value-mismatch:missing_values", feature=True,
                        sub="slot-order" if permuted(bad.values(), [want[rq[n]] for n in bad]) else None)
                    break
    # init functions
    if not only or only[0].startswith("init"):
        s0, p0 = ref.defaults()
        for fn, want, idx in (("init_state_values", s0, jm.state), ("init_parameter_values", p0, jm.parameter)):
            if not want:
                continue
            res["evals"] += 1
            inp = {"ode": text, "points": [], "only": [fn, "jit"]}
            try:
                with cm.quiet():
                    arr = np.asarray(jm.ns[fn](), dtype=float)
                    key = sorted(want)[0]
                    arr2 = np.asarray(jm.ns[fn](**{key: 42.5}), dtype=float)
            except Exception as e:  # noqa: BLE001
                add(f"init-call-raises:{cm.exc_name(e)}", f"jax {fn} raises", inp, "array", cm.exc_name(e), cm.short(e))
                continue
            if arr.shape != (len(want),):
                add("wrong-length:init", f"jax {fn} returns {arr.shape}", inp, len(want), list(arr.shape))
                continue
            bad = {n: float(arr[idx[n]]) for n in want if not cm.close(arr[idx[n]], want[n], 1e-12)}
            if bad:
                add("init-value-mismatch", f"jax {fn} does not return the declared defaults", inp, {n: want[n] for n in bad}, bad)
            exp2 = dict(want, **{key: 42.5})
            bad2 = {n: float(arr2[idx[n]]) for n in want if not cm.close(arr2[idx[n]], exp2[n], 1e-12)}
            if bad2:
                add("init-override-ignored", f"jax {fn}({key}=42.5) does not place the override", inp, {n: exp2[n] for n in bad2}, bad2)
    return res


def group(fn):
    return fn if fn in ("rhs", "monitor_values", "missing_values") else "scheme"


def pick_missing(ref):
    names = (ref.inter_names[:2] + ref.state_names[:1]) or ref.state_names[:1]
    return {n: i for i, n in enumerate(names)}


def permuted(got, want) -> bool:
    """the wrong entries are the expected values in other slots"""
    got, want = sorted(float(x) for x in got), sorted(float(x) for x in want)
    return len(got) >= 2 and all(cm.vclose(a, b, 0.0) for a, b in zip(got, want))


def emission_order(ref, npm):
    """order in which the generator writes requested names: states by name, parameters by name, assignments in dependency order"""
    return sorted(ref.states) + sorted(ref.params) + [n for n, _ in sorted(npm.monitor.items(), key=lambda kv: kv[1])]


def extra_requests(ref, npm, text):
    """two requests of 2-4 names whose slot order differs from the emission order: reversed emission order, a seeded permutation"""
    import random

    rng = random.Random(cm.sha(text))
    order = emission_order(ref, npm)
    pools = [sorted(ref.states), sorted(ref.params), ref.inter_names, ref.deriv_names]
    names = []
    for pool in pools:  # one of each kind when available, then fill up
        if pool:
            names.append(rng.choice(pool))
    rest = [n for n in order if n not in names]
    while len(names) < 2 and rest:
        names.append(rest.pop(rng.randrange(len(rest))))
    names = names[:4]
    if len(names) < 2:
        return []
    em = [n for n in order if n in names]
    out = [{n: i for i, n in enumerate(reversed(em))}]
    perm = em[:]
    for _ in range(5):
        rng.shuffle(perm)
        if perm != em and perm != list(reversed(em)):
            break
    if perm != em and perm != list(reversed(em)):
        out.append({n: i for i, n in enumerate(perm)})
    return out


def out_names(fn, m, req):
    if fn == "monitor_values":
        return dict(m.monitor)
    if fn == "missing_values":
        return dict(req)
    return dict(m.state)


run, replay = cm.make_api(globals())
