"""C17: comments, blank lines, indentation, line endings, continuation lines and unit/description annotations are inert."""
from __future__ import annotations

import os
import random

import common as cm
import modelgen as mg
from oracles import _a_helpers as ah

ID = "C17"
RULE = """Base texts: modelgen.gen_model models (1-5 states, 0-5 parameters, 0-8 intermediates, 0-3 named components, depth 1-3,
with annotations; six option sets in rotation) and, every fifth round, a model file of /repo/tests/odefiles (quick: lorentz,
fitzhughnagumo, beeler_reuter_1977; thorough also tentusscher_panfilov_2006_M_cell and - load + membership only - ORdmm_Land,
ToRORd_dyn_chloride).  One case = one base + ONE inert edit = one edited text: a comment line (31 comment strings: 1/0, (, ),
-, mV, x = 1, a*b + (c, #, unicode, 3000 characters, model-like text ...) at a line boundary classified as at-top /
after-decl / after-header / in-block / after-block / at-end (the empty comment `#` is its own edit kind at any of these
boundaries, reported without exception name); the same strings as the
trailing comment of an assignment, of an expressions header or of a declaration block; 1-3 blank lines at the same
boundaries; indentation by spaces / tabs (all lines, assignment lines, one line); trailing blanks; CRLF line ends; no final
newline; a line break inside a parenthesised expression of an assignment, after `(` or `,` (continuation-after-opener) or before `)`
(continuation-before-closer); ScalarParam
annotation removed / added / changed (12 unit strings, 10 description strings), trailing unit changed or trailing comment
removed.  The independent reader (modelgen.RefModel) must see identical parsed definitions and component membership in
base and edited text, otherwise the case is a harness error.  Checked: the edited text loads (an exception is
C17:load-raises:<Exception>:<edit>; no answer from the worker within 12 s while the base needed < 2.5 s is
C17:load-hangs:<edit>), component membership [(component, states, parameters, assignments)] of the loaded ODE equals the
base's, numpy and C code texts are identical (generated code embeds no comment/unit text), index tables identical.  The
hang-prone string 9**9**9 is used in at most 6 (quick) / about 50 (thorough) cases.  Bases that gotranx cannot load/generate or needs
> 2.5 s for are skipped.  quick: up to 1600 cases, thorough: up to 20000.  Non-trivial = edited text differs from the base
text; distinct by sha1(edited text)."""

CASE_TIMEOUT = 12
BASE_LIMIT = 2.5
ODEDIR = "/repo/tests/odefiles"
FILES_QUICK = ["lorentz", "fitzhughnagumo", "beeler_reuter_1977"]
FILES_THOROUGH = FILES_QUICK * 3 + ["tentusscher_panfilov_2006_M_cell"] * 2 + ["ORdmm_Land", "ToRORd_dyn_chloride"]
LIGHT = ("ORdmm_Land", "ToRORd_dyn_chloride")  # seconds per load: membership only, base limit 3 s
HANG = "9**9**9"
COMMENTS = ["1/0", "(", ")", "-", "mV", "x = 1", "a*b + (c", "#", "µA/cm² → ok", "see eq. (3) of [12]", "2 mV", "ms**-1", "TODO: fix!",
            "100 %", "'", '"quoted"', "dx_dt = 0", 'expressions("Zz")', "states(zz=1)", "y = ", "=", "1e400", "a.b", "rate of x", "*", "[",
            "}", "\\", "lambda: 0", "e", "long " + "abc " * 750, "word " * 40 + "!",
            "the membrane potential is held at rest until the stimulus arrives and is then released, see the text."]
UNITS = ["mV", "ms", "mM", "uA/cm**2", "1", "ms**-1", "mS/uF", "pA/pF", "nA", "um**2", "mol/l", "mS*mm**-2"]
DESCS = ["a gate", "", "rate k (1/ms)", "see # 3", "1/0", "9**9", "µ-unit → ok", "x = 1", "(", "it's",
         r"rate \x of", r"C:\users\new", r"\N", r"50 \u units", r"tab\t and \alpha"]  # backslashes are ordinary characters of a description
PLACES = ("at-top", "after-decl", "after-header", "in-block", "after-block", "at-end")
TRIVIA = ("comment", "blank")
FAILS = ("load-raises", "load-hangs", "membership-changed", "codegen-raises", "code-differs", "layout-differs")

# one round = these edit kinds in this order (the comment index advances with every use)
ROUND = ([f"comment-line-{p}" for p in PLACES] + ["trailing-comment"] * 3 + ["empty-comment-line", "trailing-empty-comment",
         "trailing-comment-on-header", "trailing-comment-on-decl", "crlf", "continuation-after-opener", "continuation-before-closer", "indent-tabs",
         "indent-spaces", "annotation-remove", "annotation-add", "annotation-change", "trailing-unit-change", "trailing-comment-removed",
         "blank-lines-after-header", "blank-lines-in-block", "trailing-blanks", "no-final-newline", "empty-comment-line", "blank-lines-at-top",
         "blank-lines-after-decl", "blank-lines-after-block", "blank-lines-at-end"])
HANG_KINDS = ("trailing-comment", "comment-line-in-block", "comment-line-after-block", "comment-line-at-top", "comment-line-after-decl", "comment-line-at-end")


def place_of(items, p) -> str:
    prev = next((it for it in reversed(items[:p]) if it["kind"] not in TRIVIA), None)
    nxt = next((it for it in items[p:] if it["kind"] not in TRIVIA), None)
    if prev is None:
        return "at-top"
    if nxt is None:
        return "at-end"
    if prev["kind"] == "header":
        return "after-header"
    if prev["kind"] == "assign":
        return "in-block" if nxt["kind"] == "assign" else "after-block"
    return "after-decl"


def _comment(c, rng):
    return "#" + c if (c == "" or rng.random() < 0.2) else "# " + c


def _set_trailing(text, c, rng):
    lines = text.split("\n")
    lines[-1] = mg._strip_comment(lines[-1])[0].rstrip() + (" " if rng.random() < 0.8 else "") + _comment(c, rng)
    return "\n".join(lines)


def _pick(xs, site):
    return xs[site % len(xs)] if xs else None


def _sub(items, i, text):
    return items[:i] + [dict(items[i], text=text)] + items[i + 1:]


def _idx(items, *kinds):
    return [i for i, it in enumerate(items) if it["kind"] in kinds]


def apply_edit(text, edit, site, comment, rng):
    """-> (edited text, description) | None when the model has no site for this edit"""
    items = ah.parse_doc(text)
    for what in ("comment-line-", "empty-comment-line", "blank-lines-"):
        if edit.startswith(what):
            place = PLACES[site % len(PLACES)] if what == "empty-comment-line" else edit[len(what):]
            p = _pick([p for p in range(len(items) + 1) if place_of(items, p) == place], site // (len(PLACES) if what == "empty-comment-line" else 1))
            if p is None:
                return None
            new = [""] * (1 + site % 3) if what == "blank-lines-" else ["#" if what == "empty-comment-line" else _comment(comment, rng)]
            out = items[:p] + [{"kind": "x", "text": ln} for ln in new] + items[p:]
            return ah.render(out), {"inserted": new, "place": place, "before-item": cm.short(items[p]["text"], 80) if p < len(items) else "<end>"}
    if edit in ("trailing-comment", "trailing-empty-comment", "trailing-comment-on-header", "trailing-comment-on-decl", "trailing-unit-change",
                "trailing-comment-removed"):
        kinds = {"trailing-comment-on-header": ("header",), "trailing-comment-on-decl": ("states", "parameters")}.get(edit, ("assign",))
        c = _idx(items, *kinds)
        if edit == "trailing-unit-change":
            c = [i for i in c if items[i].get("trailing") in UNITS]
            comment = rng.choice([u for u in UNITS if u != "1"])
        elif edit == "trailing-comment-removed":
            c = [i for i in c if items[i].get("trailing") is not None]
        i = _pick(c, site)
        if i is None:
            return None
        old = items[i]["text"]
        if edit == "trailing-comment-removed":
            new = "\n".join(old.split("\n")[:-1] + [mg._strip_comment(old.split("\n")[-1])[0].rstrip()])
        else:
            new = _set_trailing(old, "" if edit == "trailing-empty-comment" else comment, rng)
        return ah.render(_sub(items, i, new)), {"line": old[-200:], "changed-to": new[-200:]}
    if edit in ("indent-spaces", "indent-tabs", "trailing-blanks"):
        pad = rng.choice(["\t", "\t\t"] if edit == "indent-tabs" else ["  ", "    ", " "]) if edit != "trailing-blanks" else rng.choice(["  ", "\t", " \t "])
        mode = ("all", "assignments", "one")[site % 3]
        c = list(range(len(items))) if mode == "all" else _idx(items, "assign") if mode == "assignments" else [_pick(_idx(items, "assign", "header", "states", "parameters"), site)]
        out = items
        for i in c:
            lines = items[i]["text"].split("\n")
            out = _sub(out, i, "\n".join((ln + pad if edit == "trailing-blanks" else pad + ln) if ln.strip() else ln for ln in lines))
        return ah.render(out), {"pad": pad, "lines": mode}
    if edit == "crlf":
        return text.replace("\n", "\r\n"), {"line-ends": "CRLF"}
    if edit == "no-final-newline":
        return text.rstrip("\n"), {"final-newline": False}
    if edit.startswith("continuation-"):
        opener = edit == "continuation-after-opener"
        sites = []
        for i in _idx(items, "assign"):
            t = items[i]["text"]
            if "\n" in t:
                continue
            code = mg._strip_comment(t)[0]
            depth = 0
            for k, ch in enumerate(code):
                depth += ch == "("
                if depth > 0 and ((ch in "(,") if opener else (ch == ")" and code[:k].rstrip()[-1:] != "(")):
                    sites.append((i, k + 1 if opener else k))
                depth -= ch == ")"
        s = _pick(sites, site * 7 + rng.randint(0, 5))
        if s is None:
            return None
        i, k = s
        t = items[i]["text"]
        new = t[:k].rstrip(" ") + "\n" + rng.choice(["    ", "\t", "", "  "]) + t[k:].lstrip(" ")
        return ah.render(_sub(items, i, new)), {"line": t[-200:], "changed-to": new[-200:]}
    if edit.startswith("annotation-"):
        ents = [(i, e) for i in _idx(items, "states", "parameters") for e in items[i]["entries"]
                if e["text"] in items[i]["text"] and bool(mg._SCALAR.match(e["text"].split("=", 1)[1])) == (edit != "annotation-add")]
        s = _pick(ents, site)
        if s is None:
            return None
        i, e = s
        if edit == "annotation-remove":
            new = f"{e['name']} = {e['value']}"
        else:
            u, d, r = rng.choice(UNITS), rng.choice(DESCS), rng.random()
            new = f"{e['name']}=ScalarParam({e['value']}" + (f', unit="{u}"' if r < 0.7 else "") + (f', description="{d}"' if r > 0.3 else "") + ")"
        return ah.render(_sub(items, i, items[i]["text"].replace(e["text"], new, 1))), {"entry": e["text"], "changed-to": new}
    raise ValueError(f"unknown edit {edit}")


def base_text(case) -> str:
    if case.get("file"):
        text = open(os.path.join(ODEDIR, case["file"] + ".ode")).read()
        return ah.render(ah.parse_doc(text))  # identical for files that end in one newline
    return ah.model_text(case)


def _sig(edit, mode, exc=None) -> str:
    """the empty comment `#` makes gotranx read the NEXT line as comment text, so which exception follows depends on the
    input, not on the defect: no exception name in those signatures"""
    if exc and not edit.startswith(("empty-comment", "trailing-empty")):
        return f"C17:{mode}:{exc}:{edit}"
    return f"C17:{mode}:{edit}"


def cases(tier, seed, focus):
    n = 1600 if tier == "quick" else 20000
    files = FILES_QUICK if tier == "quick" else FILES_THOROUGH
    rnd = [e for e in ROUND if not focus or focus.endswith(":" + e)] or ROUND  # a focus that names an edit kind gets only that kind
    seen = {}
    j = r = ci = 0
    while j < n:
        for e in rnd:
            case = {"edit": e, "site": r + seed, "tags": sorted({_sig(e, f, x) for f in FAILS for x in (ah.EXCS if f.endswith("raises") else (None,))})}
            if r % 5 == 4:
                case["file"] = files[(r // 5 + j) % len(files)]
                case["light"] = case["file"] in LIGHT
            else:
                case.update(mseed=seed * 100003 + j, opts=ah.model_opts(j))
            if e.startswith(("comment-line", "trailing-comment")) and "removed" not in e:
                seen[e] = seen.get(e, 0) + 1
                hang = e in HANG_KINDS and not case.get("file") and (seen[e] == 2 if tier == "quick" else seen[e] % 45 == 2)
                # every edit kind walks through the whole comment pool (a shared index would pair each kind with a fixed residue class)
                case["comment"] = HANG if hang else COMMENTS[(seen[e] + 5 * len(e)) % len(COMMENTS)]
                ci += 1
            yield case
            j += 1
        r += 1


def build(case):
    if "base" in case and "ode" in case:
        return {k: case.get(k) for k in ("base", "ode", "edit", "desc", "light")}
    base = base_text(case)
    rng = random.Random(f"{case.get('mseed', case.get('file'))}/{case['edit']}/{case['site']}")
    got = apply_edit(base, case["edit"], int(case["site"]), case.get("comment", ""), rng)
    if got is None:
        return None
    return {"base": base, "ode": got[0], "edit": case["edit"], "desc": got[1], "light": bool(case.get("light"))}


def check(case):
    res = cm.new_result()
    try:
        c = build(case)
        if c is None:
            cm.note(res, f"skipped:no-site:{case['edit']}")
            return res
        edit = str(c["edit"])
        same_ref = ah.ref_view(c["base"]) == ah.ref_view(c["ode"])
    except Exception as e:  # noqa: BLE001
        res["errors"].append(f"harness: cannot build case {case.get('edit')}/{case.get('mseed', case.get('file'))}: {cm.exc_name(e)}: {cm.short(e)}")
        return res
    inp = {"base": c["base"], "ode": c["ode"], "edit": edit, "desc": c["desc"], "light": bool(c.get("light"))}
    if not same_ref:
        res["errors"].append(f"harness: edit {edit} changed the reference reading :: {c['desc']}")
        return res
    if c.get("light"):
        try:
            with ah.time_limit(3.0):
                base = {"ode": cm.load(c["base"])}
            base["member"] = ah.membership(base["ode"])
        except Exception as e:  # noqa: BLE001
            base = {"stage": "slow" if isinstance(e, TimeoutError) else "load"}
    else:
        base = ah.products(c["base"], BASE_LIMIT)
    if "stage" in base:
        cm.note(res, "skipped:base-model-slow" if base["stage"] == "slow" else "skipped:base-model-fails")
        return res
    res["evals"] += 1
    res["sample"] = {k: (v if k != "base" else cm.short(v, 300)) for k, v in inp.items()}
    if c["ode"] != c["base"]:
        res["nontrivial"].append(cm.sha(c["ode"]))

    def add(sig, what, exp=None, act=None, detail=""):
        res["failures"].append(cm.fail(_sig(edit, *sig.split(":")), what, inp, exp, act, f"{detail} | edit: {cm.short(c['desc'], 300)}"))

    try:
        ode = cm.load(c["ode"])
    except Exception as e:  # noqa: BLE001
        add(f"load-raises:{cm.exc_name(e)}", "the edited text does not load although the base does", "loads", cm.exc_site(e), cm.short(e))
        return res
    mem = ah.membership(ode)
    if mem != base["member"]:
        moved = [x for x in mem if x not in base["member"]]
        add("membership-changed", "component membership of definitions differs from the base", base["member"], mem, f"components now: {cm.short(moved, 400)}")
    if c.get("light"):
        return res
    for name, gen, ref_code in (("numpy", cm.py_code, base["py"]), ("C", cm.c_code, base["c"])):
        try:
            code = gen(ode)
        except Exception as e:  # noqa: BLE001
            add(f"codegen-raises:{cm.exc_name(e)}", f"{name} generation raises for the edited text only", "code", cm.exc_site(e), cm.short(e))
            continue
        if code != ref_code:
            add("code-differs", f"generated {name} code differs from the base's", None, None, f"{name}: " + ah.first_diff(ref_code, code))
        if name == "numpy":
            try:
                lay = ah.layout(code)
            except Exception as e:  # noqa: BLE001
                lay = f"{cm.exc_name(e)}: {cm.short(e)}"
            if lay != base["layout"]:
                add("layout-differs", "state/parameter/monitor index tables differ from the base's", base["layout"], lay)
    return res


def on_timeout(case):
    res = cm.new_result()
    try:
        c = build(case)
    except Exception as e:  # noqa: BLE001
        res["errors"].append(f"harness: timeout on a case that cannot be rebuilt: {cm.short(e)}")
        return res
    if c is not None:
        res["evals"] += 1
        res["nontrivial"].append(cm.sha(c["ode"]))
        kind = "power-tower" if HANG in str(c.get("desc")) else "text"  # the pint power tower is a listed finding; any other text is new
        res["failures"].append(cm.fail(_sig(c["edit"], "load-hangs") + ":" + kind, f"no answer for the edited text within {CASE_TIMEOUT} s (the base is limited to {BASE_LIMIT} s)",
                                       {k: c.get(k) for k in ("base", "ode", "edit", "desc", "light")}, "loads", "killed after the timeout", cm.short(c["desc"], 300)))
    return res


run, replay = cm.make_api(globals())
