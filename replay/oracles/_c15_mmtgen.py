"""Seeded generator of small Myokit .mmt model texts for oracle C15 (pure text, no myokit import)
plus the list of feature-isolating micro models."""
from __future__ import annotations

import random

COMPS = ["membrane", "ina", "ik", "ica", "cell", "gate", "buf"]
PLAIN = ["a", "b", "k", "g", "tau", "inf", "alpha", "rate", "Km", "P", "gmax", "E0", "c1", "amp", "x1", "k_on", "phi"]
# names that are attributes of the sympy module (gotranx appends `_`), their `_` twins, a python keyword
CLASH = ["beta", "gamma", "E", "I", "S", "N", "Q", "O", "zeta", "pi", "Ci", "Si", "re", "ff", "lambda"]
TWINS = {"beta": "beta_", "gamma": "gamma_", "E": "E_", "I": "I_"}
STATES = ["V", "m", "h", "n", "x", "y", "Ca_i", "u", "w", "d", "f", "S", "N", "I", "Q"]
UNITS = ["mV", "ms", "mM", "uA/cm^2", "1/ms", "mS/uF", "1", "A/F", "1/mV", "m^2", "mM/ms"]


class Var:
    def __init__(self, name, comp, parent=None, kind="inter"):
        self.name, self.comp, self.parent, self.kind = name, comp, parent, kind
        self.children, self.rhs, self.meta, self.init = [], "0", [], None

    def chain(self):
        v, out = self, []
        while v is not None:
            out.append(v)
            v = v.parent
        return out


class Gen:
    def __init__(self, seed):
        self.rng = rng = random.Random(f"c15-mmt/{seed}")
        self.seed = seed
        # profile 0: everything; 1: model-wide unique, non-reserved names and a time variable called `time` (so that
        # the operators are reached); 2: additionally no ceil / != and only positive thresholds in conditions
        self.profile = seed % 3
        self.units = rng.random() < 0.6
        self.time_name = rng.choice(["time"] * 8 + ["t", "T"]) if self.profile == 0 else "time"
        self.taken = set()
        self.cstack = []
        self.use_time = rng.random() < 0.35
        self.pace = rng.choice([None, None, "label", "plain"])
        self.depth = rng.choice([1, 2, 2, 3])

    # ---- literals / expressions ---------------------------------------------------------
    def num(self, positive=False, unit=True):
        rng = self.rng
        s = rng.choice(["0.5", "1.5", "2", "0.25", "3", "0.75", "0.1", "1.2", "12.5", "0.05", "1e-1", "2.5e1", "4", "7", f"{rng.uniform(0.1, 4):.3f}"])
        if not positive and rng.random() < 0.2:
            s = "-" + s
        if unit and self.units and rng.random() < 0.4:
            s += f" [{rng.choice(UNITS)}]"
        return s

    def atom(self, vs, d):
        if d <= 0 or self.rng.random() < 0.5:
            return self.rng.choice(vs) if vs and self.rng.random() < 0.8 else self.num(positive=True)
        return f"({self.expr(vs, d)})"

    def small(self, vs, d):
        e = self.atom(vs, d)
        return self.rng.choice([f"0.1 * sin({e})", f"-abs({e}) / (1 + abs({e}))", f"{e} / (2 + abs({e}))"])

    def pos(self, vs, d):
        e = self.atom(vs, d)
        return self.rng.choice([f"(abs({e}) + {self.num(True)})", f"(1 + {e}^2)", f"exp({self.small(vs, d - 1)})"])

    def unit_iv(self, vs, d):
        e = self.atom(vs, d)
        return self.rng.choice([f"0.9 * sin({e})", f"{e} / (1.5 + abs({e}))"])

    def cond(self, d=1, used=None):
        """comparisons of a state with a constant, combined by and/or/not only over *different* states, so that no
        condition is tautological, contradictory or redundant (degenerate conditions are C01's business)"""
        rng = self.rng
        used = [] if used is None else used
        free = [sv for sv in self.state_vals if sv[0] not in used] or None
        if free is None:
            return None
        s, val = rng.choice(free)
        used.append(s)
        c = rng.choice([val, val, self.num(unit=False, positive=self.profile == 2), f"{float(val) * 1.02 + 0.003:.6g}", f"{float(val) * 0.97 - 0.002:.6g}"])
        if self.units and rng.random() < 0.3 and "[" not in c:
            c += " [mV]"
        r = f"{s} {rng.choice(['<', '>', '<=', '>=', '<', '>', '==', '!=' if self.profile < 2 else '=='])} {c}"
        k = rng.random()
        if d > 0 and k < 0.5:
            if k < 0.15:
                return f"not ({r})"
            r2 = self.cond(0, used)  # never a and b and c: SymPy flattens it and Myokit's own SymPy reader takes two operands only
            if r2 is None:
                return r
            if k < 0.3:
                return f"{r} and {r2}"
            if k < 0.45:
                return f"{r} or {r2}"
            r3 = self.cond(0, used)
            return f"({r} or {r2}) and {r3}" if r3 else f"not ({r} and {r2})"
        return r

    def branches(self, E, n):
        """n pairwise different branch expressions (identical branches make a conditional degenerate)"""
        out = []
        for i in range(n):
            e = E()
            if any(e.replace(" ", "") == o.replace(" ", "") for o in out) or (out and not any(c.isalpha() for c in e + out[0])):
                e = f"{e} + {i}.5"
            out.append(e)
        return out

    def pw(self, E, nested=False):
        """if / piecewise / nested if; all conditions of one conditional, and of conditionals nested in its branches,
        are on different states (no unreachable branch); a plain expression when no state is left"""
        used = list(self.cstack)
        c1 = self.cond(0 if nested else 1, used)
        if c1 is None:
            return E()
        c2 = self.cond(0, used) if nested or self.rng.random() < 0.5 else None
        saved, self.cstack = self.cstack, used
        try:
            if not c2:
                a, b = self.branches(E, 2)
                return f"if({c1}, {a}, {b})"
            a, b, c = self.branches(E, 3)
            return f"if({c1}, {a}, if({c2}, {b}, {c}))" if nested else f"piecewise({c1}, {a}, {c2}, {b}, {c})"
        finally:
            self.cstack = saved

    def expr(self, vs, d):
        rng = self.rng
        if d <= 0 or rng.random() < 0.2:
            return self.atom(vs, 0)
        E = lambda: self.expr(vs, d - 1)  # noqa: E731
        A = lambda: self.atom(vs, d - 1)  # noqa: E731
        opts = [
            (3, lambda: f"{E()} + {E()}"), (2, lambda: f"{E()} - {E()}"), (3, lambda: f"{E()} * {E()}"),
            (1.5, lambda: f"{E()} / {self.pos(vs, d - 1)}"), (0.5, lambda: f"{E()} / -{self.pos(vs, d - 1)}"),
            (0.8, lambda: f"({E()})"), (1, lambda: f"-{A()}"), (0.3, lambda: f"+{A()}"), (0.3, lambda: f"{E()} - -{A()}"),
            (1, lambda: f"{A()}^{rng.choice(['2', '3', '2.0'])}"), (0.5, lambda: f"{self.pos(vs, d - 1)}^{rng.choice(['0.5', '1.5', '-1', '-0.5', '(1 / 3)'])}"),
            (0.3, lambda: f"-{A()}^2"), (0.3, lambda: f"{rng.choice(['2', '1.5', '0.5'])}^{self.small(vs, d - 1)}"),
            (1.2, lambda: f"exp({self.small(vs, d - 1)})"), (0.7, lambda: f"log({self.pos(vs, d - 1)})"),
            (0.5, lambda: f"log10({self.pos(vs, d - 1)})"), (0.3, lambda: f"log({self.pos(vs, d - 1)}, {rng.choice(['2', '10', '0.5'])})"),
            (0.7, lambda: f"sqrt({self.pos(vs, d - 1)})"), (0.5, lambda: f"sin({E()})"), (0.5, lambda: f"cos({E()})"),
            (0.3, lambda: f"tan({self.unit_iv(vs, d - 1)})"), (0.3, lambda: f"asin({self.unit_iv(vs, d - 1)})"),
            (0.3, lambda: f"acos({self.unit_iv(vs, d - 1)})"), (0.4, lambda: f"atan({E()})"), (0.6, lambda: f"abs({E()})"),
            (0.5, lambda: f"floor({rng.choice(['3.7', '1.3', '0.9'])} * {A()})"), (0.5 if self.profile < 2 else 0, lambda: f"ceil({rng.choice(['3.7', '1.3', '0.9'])} * {A()})"),
            (0.4, lambda: f"{A()} // {rng.choice(['0.3', '2', '1.7', '-0.6'])}"), (0.4, lambda: f"{A()} % {rng.choice(['0.3', '2', '1.7', '-0.6'])}"),
            (1.9, lambda: self.pw(E)), (0.3, lambda: self.pw(E, nested=True)),
        ]
        r = rng.uniform(0, sum(w for w, _ in opts))
        for w, f in opts:
            r -= w
            if r <= 0:
                return f()
        return opts[0][1]()

    def with_must(self, vs, must, d):
        e = self.expr(list(vs) + list(must) * 2, d)
        for m in must:
            if m not in e.replace("(", " ").replace(")", " ").replace(",", " ").split():
                e = self.rng.choice([f"{e} + {m}", f"{m} * ({e})", f"{e} - 0.5 * {m}"])
        return e

    # ---- structure ---------------------------------------------------------------------------
    def ref(self, frm: Var, to: Var):
        """text by which `to` (top level or visible nested) is referenced from inside `frm`"""
        if to.parent is not None or to.comp == frm.comp:
            return to.name
        return self.alias.get((frm.comp, to.comp, to.name)) or f"{to.comp}.{to.name}"

    def build(self):
        rng = self.rng
        nC = rng.choice([1, 2, 2, 3])
        comps = rng.sample(COMPS, nC)
        engine = rng.choice([comps[0], "engine"])
        allc = comps + (["engine"] if engine == "engine" else [])
        shared = rng.sample(PLAIN, 3) + rng.sample(CLASH, 2)  # reused across components / nesting levels
        for n in list(shared):
            if n in TWINS and rng.random() < 0.5:
                shared.append(TWINS[n])

        def pick(pool_used, extra=()):
            if self.profile:
                return self.fresh()
            for _ in range(50):
                n = rng.choice(shared) if rng.random() < 0.6 else rng.choice(PLAIN + CLASH + list(TWINS.values()))
                if n not in pool_used and n not in extra and n != self.time_name:
                    return n
            return f"v{len(pool_used)}"

        names = {c: set() for c in allc}
        nS = rng.choice([1, 2, 2, 3, 3, 4])
        snames = rng.sample(STATES if not self.profile else STATES[:11], nS)
        self.taken |= set(snames) | {"time", "pace", "i_stim", "i_st", "amplitude", "stim_amplitude", "pace_in"}
        states = []
        for i, s in enumerate(snames):
            c = comps[i % len(comps)] if i < len(comps) else rng.choice(comps)
            if rng.random() < 0.25 and i > 0 and not self.profile:  # the same state name in two components
                s2 = rng.choice(snames[:i])
                s = s2 if s2 not in names[c] else s
            if s in names[c]:
                continue
            v = Var(s, c, kind="state")
            v.init = rng.choice(["0.5", "-1.0", "1.2", "0.01", "-84.5", "2", "0.8", "-0.3", "1e-1", "3.5", "0.25", "0.0017"] if self.profile < 2 else ["0.5", "1.2", "0.01", "84.5", "2", "0.8", "1e-1", "3.5"])
            names[c].add(s)
            states.append(v)
        self.state_list = states
        consts, inters = [], []
        for c in comps:
            for _ in range(rng.randint(1, 3)):
                n = pick(names[c])
                names[c].add(n)
                consts.append(Var(n, c, kind="const"))
            for _ in range(rng.randint(0, 3)):
                n = pick(names[c])
                names[c].add(n)
                inters.append(Var(n, c, kind="inter"))
        # aliases (decided before nested names so that nested names avoid them)
        self.alias, self.alias_lines = {}, {c: [] for c in allc}
        tops = states + consts + inters
        for c in comps:
            for v in rng.sample(tops, min(len(tops), 2)):
                if v.comp != c and rng.random() < 0.5:
                    al = v.name if rng.random() < 0.6 and not self.profile else pick(names[c])
                    if al in names[c] or al in [a for (cc, _, _), a in self.alias.items() if cc == c]:
                        continue
                    names[c].add(al)
                    self.alias[(c, v.comp, v.name)] = al
                    self.alias_lines[c].append(f"use {v.comp}.{v.name} as {al}")
        # time / pace
        tvar = Var(self.time_name, engine, kind="time")
        tvar.rhs = "0 [ms]" if self.units else "0"
        tvar.meta = ["bind time"] + (["in [ms]"] if self.units else [])
        names[engine].add(self.time_name)
        pvar = None
        if self.pace:
            pn = "pace" if "pace" not in names[engine] else "pace_in"
            pvar = Var(pn, engine, kind="pace")
            pvar.meta = ["bind pace"]
            names[engine].add(pn)
        self.names = names
        order = consts + rng.sample(inters, len(inters))
        done = []
        for v in order:
            self.fill(v, done, tvar, None)
            done.append(v)
        stim = None
        if self.pace == "label":
            c = rng.choice(comps)
            stim = Var("i_stim" if "i_stim" not in names[c] else "i_st", c, kind="inter")
            names[c].add(stim.name)
            amp = Var(rng.choice(["amplitude", "stim_amplitude"]), c, parent=stim, kind="const")
            amp.rhs = "-80 [uA/cm^2]" if self.units else rng.choice(["-80", "25"])
            stim.children.append(amp)
            stim.rhs = f"{self.ref(stim, pvar)} * {amp.name}"
            stim.meta = ["label stimulus_current"] + (["in [uA/cm^2]"] if self.units else [])
            amp.meta = ["in [uA/cm^2]"] if self.units else []
            done.append(stim)
        for s in states:
            self.fill(s, done, tvar, pvar if self.pace == "plain" else None, stim=stim)
            stim = None
        self.protocol = None
        if self.pace:
            start, dur, per = rng.choice([(10, 2, 100), (50, 0.5, 1000), (0, 1, 20), (5, 3, 40)])
            self.protocol = (1.0 if rng.random() < 0.7 else 2.5, start, dur, per)
        self.everything = [tvar] + ([pvar] if pvar else []) + done + states
        return self

    def fill(self, v: Var, done, tvar, pvar, stim=None, level=0):
        """children first (each sees earlier top-level variables, states and the earlier children of its
        ancestors), then the rhs of v"""
        rng = self.rng
        if v.kind == "const":
            v.rhs = ("-" if rng.random() < 0.15 else "") + self.num(positive=True)
            if self.units and "[" in v.rhs and rng.random() < 0.7:
                v.meta.append("in " + v.rhs[v.rhs.index("["):])
            if rng.random() < 0.3:
                v.meta.append(f"desc: {rng.choice(['a gate', 'conductance', 'rate k', 'Faraday constant (Value used)'])}")
            return
        nk = 0
        if level < self.depth:
            nk = rng.choice([0, 0, 1, 1, 2]) if level else rng.choice([0, 1, 1, 2, 3])
        root = v.chain()[-1]
        tree = getattr(root, "_tree", None)
        if tree is None:
            tree = root._tree = {root.name}
        for _ in range(nk):
            n = self.fresh() if self.profile else None
            for _ in range(0 if self.profile else 50):
                cand = rng.choice(self.shared_pool(v.comp))
                if cand not in tree and cand not in self.names[v.comp]:
                    n = cand
                    break
            if n is None:
                break
            tree.add(n)
            ch = Var(n, v.comp, parent=v, kind=rng.choice(["const", "inter", "inter"]))
            v.children.append(ch)
            self.fill(ch, done, tvar, None, level=level + 1)
        st = [self.ref(v, s) for s in self.state_list]
        vis = [self.ref(v, o) for o in done if o.kind != "pace"]
        for a in v.chain()[1:]:  # earlier children of the ancestors (= siblings, uncles ...)
            vis += [c.name for c in a.children if c is not v and c not in v.chain() and c.rhs != "0"]
        own = [c.name for c in v.children]
        self.state_vals = [(self.ref(v, s), s.init) for s in self.state_list]
        pool = rng.sample(st, min(len(st), 2)) + rng.sample(vis, min(len(vis), rng.randint(0, 3)))
        if self.use_time and rng.random() < 0.4:
            pool.append(f"0.1 * {self.ref(v, tvar)}")
        must = list(own)
        if v.kind == "state":
            must += [self.ref(v, o) for o in done if o.kind == "inter" and o.parent is None and not getattr(o, "_used", False) and rng.random() < 0.7]
            for o in done:
                if self.ref(v, o) in must:
                    o._used = True
        e = self.with_must(pool or st, must, rng.choice([1, 2, 2, 3]))
        if pvar is not None and v.kind == "state" and not getattr(pvar, "_used", False):
            e = f"{e} - {self.ref(v, pvar)} * {rng.choice(['25', '80', '0.5'])}"
            pvar._used = True
        if stim is not None:
            e = f"{e} - {self.ref(v, stim)}"
        if v.kind == "state" and v.name not in e.split():  # keep every state in its own derivative (stability is irrelevant)
            e = f"{e} - 0.1 * {v.name}"
        v.rhs = e
        if self.units and rng.random() < 0.5:
            v.meta.append(f"in [{rng.choice(UNITS)}]")
        if v.kind == "state" and rng.random() < 0.3 and not getattr(self, "_mp", False):
            v.meta.append("label membrane_potential")
            self._mp = True
        if rng.random() < 0.25:
            v.meta.append(f"desc: {rng.choice(['The membrane potential', 'Nernst potential of Na', 'Used instead of if statement.'])}")

    def fresh(self):
        """a name used nowhere else in the model and not reserved by sympy"""
        for i in range(200):
            n = self.rng.choice(PLAIN) + ("" if i < 20 else str(i % 7))
            if n not in self.taken:
                self.taken.add(n)
                return n
        self.taken.add(f"v{len(self.taken)}")
        return f"v{len(self.taken) - 1}"

    def shared_pool(self, comp):
        if not hasattr(self, "_pool"):
            self._pool = self.rng.sample(PLAIN, 4) + self.rng.sample(CLASH, 3) + ["beta_", "alpha", "beta", "E"]
        return self._pool

    # ---- rendering ---------------------------------------------------------------------------
    def render(self):
        rng = self.rng
        out = ["[[model]]", f"name: gen{self.seed}"]
        if rng.random() < 0.5:
            out.append("desc: generated test model")
        out.append("# Initial values")
        for s in self.state_list:
            out.append(f"{s.comp}.{s.name} = {s.init}")
        for c, _ in self.top_by_comp():
            out += ["", f"[{c}]"] + self.alias_lines[c]
            for v in [v for v in self.everything if v.comp == c and v.parent is None]:
                out += self.lines(v, 0)
        if self.protocol:
            lv, st, du, pe = self.protocol
            out += ["", "[[protocol]]", "# Level Start Length Period Multiplier", f"{lv} {st} {du} {pe} 0"]
        return "\n".join(out) + "\n"

    def top_by_comp(self):
        seen = []
        for v in self.everything:
            if v.comp not in seen:
                seen.append(v.comp)
        self.rng.shuffle(seen)
        return [(c, None) for c in seen]

    def lines(self, v: Var, ind):
        pad = "    " * ind
        lhs = f"dot({v.name})" if v.kind == "state" else v.name
        meta = list(v.meta)
        head = f"{pad}{lhs} = {v.rhs}"
        desc = [m for m in meta if m.startswith("desc: ")]
        if desc and "\n" not in v.rhs and self.rng.random() < 0.4:  # the inline `: description` form
            head += " : " + desc[0][6:]
            meta.remove(desc[0])
        out = [head] + [f"{pad}    {m}" for m in meta]
        for c in v.children:
            out += self.lines(c, ind + 1)
        return out


def gen_mmt(seed: int) -> str:
    return Gen(seed).build().render()


# ---- feature-isolating micro models --------------------------------------------------------------
_BASE = """[[model]]
name: micro
c.x = 0.5
c.y = -1.2

[c]
time = 0 bind time
dot(x) = -x + (%s)
dot(y) = k - y
k = 2
"""
_OPS = {
    "plus": "x + y", "minus": "x - y - k", "minus-assoc": "x - (y - k)", "times": "x * y", "divide": "x / y / k", "divide-assoc": "x / (y / k)",
    "prefix-minus": "-x * -y", "prefix-plus": "+x", "neg-power": "-x^2", "power-of-neg": "(-x)^2", "power": "x^3", "power-right": "2^-x",
    "power-frac": "abs(y)^0.5", "power-tower": "x^y^2", "sqrt": "sqrt(abs(y))", "exp": "exp(x)", "log": "log(x)", "log-base": "log(x, 2)", "log10": "log10(x)",
    "sin": "sin(x)", "cos": "cos(x)", "tan": "tan(x)", "asin": "asin(x)", "acos": "acos(x)", "atan": "atan(y)", "abs": "abs(y)",
    "floor": "floor(3.7 * y)", "ceil": "ceil(3.7 * y)", "quotient": "y // 0.3", "quotient-neg": "x // -0.3", "remainder": "y % 0.3", "remainder-neg": "x % -0.3",
    "if": "if(x < 0.51, 1, y)", "if-nested": "if(x < 0.4, 1, if(y > -1.25, 2, 3))", "piecewise": "piecewise(x < 0.4, 1, x < 0.51, y, 3)",
    "eq": "if(x == 0.5, 1, 2)", "ne": "if(x != 0.5, 1, 2)", "le": "if(x <= 0.5, 1, 2)", "ge": "if(y >= -1.2, 1, 2)", "gt": "if(y > -1.2, 1, 2)",
    "and": "if(x >= 0.5 and y < 0, 1, 2)", "or": "if(x > 0.6 or y > 0, 1, 2)", "not": "if(not (x > 0.5), 1, 2)", "not-and": "if(not (x > 0.5 and y < 0), 1, 2)",
    "and-or": "if((x > 0.6 or y < 0) and x < 0.52, 1, 2)", "ge-positive": "if(x >= 0.5, 1, 2)", "lt-negative": "if(y < -1.2, 1, x)",
    "le-negative": "if(y <= -1.2, x, 2)", "ne-negative": "if(y != -1.2, 1, 2)", "not-lt-negative": "if(not (y < -1.2), 1, 2)", "eq-negative": "if(y == -1.2, 1, 2)",
    "piecewise-negative": "piecewise(x >= 0.4, 1, y < -1, 2, 3)", "abs-exp": "abs(exp(y))", "minus-remainder": "-(y % 0.37)", "minus-minus-remainder": "x - -(y % 0.37)", "times-remainder": "2 * (y % 0.37)", "exp-log-base": "exp(log(x, 2) / 3)",
    "sqrt-square": "sqrt(y^2)", "log-exp": "log(exp(y))", "number-unit": "1.5 [mV] * x + 1e-3 [1/ms]", "time": "sin(0.1 * time)",
}
_NAMED = {
    "nested-1": "[[model]]\nc.x = 0.5\n\n[c]\ntime = 0 bind time\ndot(x) = -x * a\n    a = 2 + x\n",
    "nested-3": "[[model]]\nc.x = 0.5\n\n[c]\ntime = 0 bind time\ndot(x) = -x * a\n    a = 2 + b\n        b = x * g\n            g = 3\n",
    "nested-sibling-ref": "[[model]]\nc.x = 0.5\n\n[c]\ntime = 0 bind time\ndot(x) = -x * a + b\n    a = 2 + x\n    b = a * 3\n",
    "nested-same-name-two-vars": "[[model]]\nc.x = 0.5\nc.y = 0.3\n\n[c]\ntime = 0 bind time\ndot(x) = -x * a\n    a = 2 + x\ndot(y) = -y * a\n    a = 3 + y\n",
    "nested-same-name-two-comps": "[[model]]\nc.x = 0.5\nd.y = 0.3\n\n[c]\ntime = 0 bind time\ndot(x) = -x * a\n    a = 2 + x\n\n[d]\ndot(y) = -y * a\n    a = 3 + y\n",
    "same-name-two-comps": "[[model]]\nc.x = 0.5\nd.y = 0.3\n\n[c]\ntime = 0 bind time\ndot(x) = -x * g + d.g\ng = 2\n\n[d]\ndot(y) = -y * g * c.g\ng = 3 + y\n",
    "same-state-name-two-comps": "[[model]]\nc.x = 0.5\nd.x = 0.3\n\n[c]\ntime = 0 bind time\ndot(x) = -x * d.x\n\n[d]\ndot(x) = -x + c.x\n",
    "nested-vs-toplevel-other-comp": "[[model]]\nc.x = 0.5\nd.y = 0.3\n\n[c]\ntime = 0 bind time\ndot(x) = -x * a\n    a = 2 + x\n\n[d]\ndot(y) = -y * a\na = 3\n",
    "alias": "[[model]]\nc.x = 0.5\nd.y = 0.3\n\n[c]\ntime = 0 bind time\ndot(x) = -x * 2\n\n[d]\nuse c.x as z\ndot(y) = -y * z\n",
    "alias-same-name-as-local-elsewhere": "[[model]]\nc.x = 0.5\nd.y = 0.3\n\n[c]\ntime = 0 bind time\ndot(x) = -x * z\nz = 4\n\n[d]\nuse c.x as z\ndot(y) = -y * z\n",
    "reserved-twins": "[[model]]\nc.x = 0.5\n\n[c]\ntime = 0 bind time\ndot(x) = -x * beta + beta_\nbeta = 2\nbeta_ = 3\n",
    "reserved-twins-two-comps": "[[model]]\nc.x = 0.5\n\n[c]\ntime = 0 bind time\ndot(x) = -x * gamma + d.gamma_\ngamma = 2\n\n[d]\ngamma_ = 3\n",
    "reserved-two-comps": "[[model]]\nc.x = 0.5\n\n[c]\ntime = 0 bind time\ndot(x) = -x * E + d.E\nE = 2\n\n[d]\nE = 3 + c.x\n",
    "negative-constant": "[[model]]\nc.x = 0.5\n\n[c]\ntime = 0 bind time\ndot(x) = -x * g + h\ng = -2.5\nh = -80 [mV]\n    in [mV]\n",
    "units-desc-label": "[[model]]\nname: u\ndesc: units\nc.x = 0.5\n\n[c]\ntime = 0 [ms] bind time\n    in [ms]\ndot(x) = -x * g / 1 [ms] : The membrane potential\n    in [mV]\n    label membrane_potential\ng = 2.5 [mS/cm^2]\n    in [mS/cm^2]\n    desc: conductance\n",
    "time-named-t": "[[model]]\nc.x = 0.5\n\n[c]\nt = 0 bind time\ndot(x) = -x + sin(0.1 * t)\n",
    "time-named-T": "[[model]]\nc.x = 0.5\n\n[c]\nT = 0 bind time\ndot(x) = -x + sin(0.1 * T)\n",
    "time-name-used-twice": "[[model]]\nc.x = 0.5\n\n[c]\ntime = 0 bind time\ndot(x) = -x + sin(0.1 * time) + d.time\n\n[d]\ntime = 3\n",
    "time-unused": "[[model]]\nc.x = 0.5\n\n[c]\ntime = 0 bind time\ndot(x) = -x\n",
    "pace-label": "[[model]]\nc.x = 0.5\n\n[c]\ntime = 0 bind time\npace = 0 bind pace\ndot(x) = -x - i_stim\ni_stim = pace * amplitude\n    label stimulus_current\n    amplitude = -80\n\n[[protocol]]\n1.0 10 2 100 0\n",
    "pace-plain": "[[model]]\nc.x = 0.5\n\n[c]\ntime = 0 bind time\npace = 0 bind pace\ndot(x) = -x - pace * 25\n\n[[protocol]]\n1.0 10 2 100 0\n",
    "pace-no-protocol": "[[model]]\nc.x = 0.5\n\n[c]\ntime = 0 bind time\npace = 0 bind pace\ndot(x) = -x - pace * 25\n",
    "pace-offset-name-taken": "[[model]]\nc.x = 0.5\n\n[c]\ntime = 0 bind time\npace = 0 bind pace\ndot(x) = -x - pace * 25 + q\n    q = 3\n\n[d]\nperiod = 3\noffset = 4\n\n[[protocol]]\n2.0 5 3 40 0\n",
}
for _n in CLASH:
    _NAMED[f"name-{_n}"] = f"[[model]]\nc.x = 0.5\n\n[c]\ntime = 0 bind time\ndot(x) = -x * {_n}\n{_n} = 2 + x\n"
    _NAMED[f"nested-name-{_n}"] = f"[[model]]\nc.x = 0.5\n\n[c]\ntime = 0 bind time\ndot(x) = -x * {_n}\n    {_n} = 2 + x\n"
for _n in ("S", "N", "beta"):
    _NAMED[f"state-name-{_n}"] = f"[[model]]\nc.{_n} = 0.5\n\n[c]\ntime = 0 bind time\ndot({_n}) = -{_n} * k\nk = 2\n"
    _NAMED[f"constant-name-{_n}"] = f"[[model]]\nc.x = 0.5\n\n[c]\ntime = 0 bind time\ndot(x) = -x * {_n}\n{_n} = 2\n"

MICRO = {f"op-{k}": _BASE % v for k, v in _OPS.items()}
MICRO.update(_NAMED)
