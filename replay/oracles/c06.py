"""C06: generalized Rush-Larsen == x + (f/g)(exp(g dt) - 1), Euler when |g| <= delta; generation never fails."""
from __future__ import annotations

import math
import re
import random

import numpy as np

import backends as be
import common as cm
import modelgen as mg

ID = "C06"
USES_SHRINK = True
CASE_TIMEOUT = 60
DTS = [0.01, 1.0, -0.5, 1e-6]
DELTAS = [1e-8, 1e-3, 0.5]
RULE = """Models from modelgen.gen_model with an own-state term in (almost) every rate equation, the form rotating over: linear, affine
(inf - x)/tau, gate, exp, product with a parameter, cubic, square, sin, sqrt, abs, floor, Mod, Conditional / ContinuousConditional in the
own state, a condition-only dependence, 1e-9*x, log, atan, reciprocal, constant (g == 0); 1-4 states, 0-4 parameters, 0-6 intermediates.
For each model the module with generalized_rush_larsen is generated for delta in {1e-8 (default), 1e-3, 0.5} (numpy always, C every
2nd model, jax every 8th).  Points: default, random and special points, plus points where a parameter that multiplies the own state
is set to 0, +-delta, +-delta(1 +- 1e-3).  One case = one (model, back end, delta, point, dt in {0.01, 1, -0.5, 1e-6}, state): the
generated value must equal x + (f/g)(exp(g dt) - 1) when |g| > delta and x + dt f otherwise, with f and g = d(rate expression)/d(own
state) (all other names, intermediates included, held fixed) computed by the independent reference evaluator with forward-mode dual
numbers; tolerance 1e-9 relative plus the rounding of exp(g dt) - 1.  Points where the generated rhs already differs from the
reference (C01) or where ||g| - delta| < 1e-9 delta (unless equal) are skipped.  A non-finite result with finite f, g is its own
failure, and so is any exception while generating the scheme for a model whose plain module generates.  For the first delta the module is ALSO
generated with remove_unused=True and checked in the same way, by name through its own state_index (signatures end in :remove_unused); a quarter of the
models have independent derivatives + unused intermediates, a sixth intermediates that mention a d<state>_dt name.  Non-trivial: g != 0 and
f != 0; distinct by sha1(text, back end, delta, point, dt, state)."""


# rates whose own-state derivative is a product / quotient with an exponential factor: "never exactly zero" on paper, 0 or below any delta
# in floating point far enough out - the guard (or its omission) is what is being looked at
DECAY_PROBES = ["3 - 2*exp(-x)", "a/exp(x)", "2*(1 - x)/exp((y + 4)**2/2)", "a*exp(-x**2) + y", "b - exp(-a*x)*x", "1/(1 + exp(x))"]


def cases(tier, seed, focus):
    n = 220 if tier == "quick" else 2500
    forms = list(mg.OWN_FORMS)
    for e in DECAY_PROBES:
        yield {"ode": f"parameters(a=2.0, b=0.5)\nstates(x=1.5, y=0.2)\ndx_dt = {e}\ndy_dt = b - y\n", "npts": 2, "backends": ["numpy", "c"], "deltas": [1e-8, 1e-3], "probe": True, "tags": ["C06"]}
    for i in range(n):
        k = seed * 100003 + i
        bes = ["numpy"] + (["c"] if i % 2 == 0 else []) + (["jax"] if i % 8 == 3 else [])
        yield {"mseed": k, "opts": {"own": 0.9, "own_forms": forms[i % len(forms):] + forms[: i % len(forms)], "n_states": [1, 4], "n_params": [1, 4], "n_inter": [0, 6],
                                    "force": list(mg.feature_cycle(k, 1)), "indep": 0.25, "deriv_ref": 0.15}, "npts": 3, "backends": bes, "deltas": DELTAS if i % 2 == 0 else [1e-8, 0.5], "tags": ["C06"]}


def special_points(ref, pts, deltas, rng):
    out = list(pts)
    if not pts:
        return out
    # far-away states: exp(-x) underflows to 0 at x = 800 and is below every delta at x = 36 - a linearisation that "can never be zero"
    # symbolically is zero or tiny there (inputs at which the reference itself overflows are skipped by the caller)
    for big in (800.0, 36.0, -36.0):
        for name in ref.states:
            q = dict(pts[0], states=dict(pts[0]["states"]))
            q["states"][name] = big
            out.append(q)
    for d in deltas:
        for mult in (0.0, 1.0, -1.0, 1 + 1e-3, 1 - 1e-3, -(1 + 1e-3)):
            p = dict(pts[0], params=dict(pts[0]["params"]))
            for name in ref.params:
                p["params"][name] = d * mult
            out.append(p)
    return out


def check(case):
    res = cm.new_result()
    try:
        c = cm.materialize(case)
        ref = mg.RefModel(c["ode"])
    except Exception as e:  # noqa: BLE001
        res["errors"].append(f"reference cannot read generated model: {cm.exc_name(e)}: {cm.short(e)}")
        return res
    text = c["ode"]
    shr = not case.get("_noshrink")
    explicit = "mseed" not in case and not case.get("probe")  # a stored failure is replayed at its own inputs; generated models and probes also get the special points
    res["sample"] = {"ode": text, "deltas": c.get("deltas", DELTAS), "points": c["points"][:1]}
    try:
        ode = cm.load(text)
    except Exception as e:  # noqa: BLE001
        cm.note(res, f"skipped:loader-rejects:{cm.exc_name(e)}")
        return res
    deltas = c.get("deltas", DELTAS)
    dts = c.get("dts", DTS)
    pts = c["points"] if explicit else special_points(ref, c["points"], deltas, random.Random(cm.sha(text)))
    plains = []
    for bk in c.get("backends", ["numpy"]):
        if bk == "c" and ref.c_unsafe():
            # an integer-literal quotient in the text: the C value of the rate itself is wrong (listed finding of C02), nothing to learn here
            cm.note(res, "skipped:c:integer-quotient-territory(C02)")
            continue
        suffix = ""

        def add(kind, what, inp, exp=None, act=None, detail="", base=None, feature=False):
            sig = f"C06:{bk}:{kind}{suffix}"
            f = cm.fail(sig + (f":{cm.main_feature(text)}" if feature else ""), what, dict(inp, backends=[bk], remove_unused=bool(suffix)), exp, act, detail)
            if shr:
                f["_shrink"] = {"base": f"C06:{bk}:{base or kind}{suffix}"}
            res["failures"].append(f)

        try:
            plain = be.build(ode, bk)
        except be.Stage as e:
            cm.note(res, f"skipped:{bk}:plain-module-{e.stage}-fails")
            continue
        plains.append(plain)
        if "remove_unused" in c:
            configs = [(d, ":remove_unused" if c["remove_unused"] else "") for d in deltas]
        else:
            configs = [(d, "") for d in deltas] + [(deltas[0], ":remove_unused")]
        for delta, suffix in configs:
            try:
                kw = {} if delta == 1e-8 and not explicit else {"delta": delta}
                if suffix:
                    kw["remove_unused"] = True
                m = be.build(ode, bk, ["generalized_rush_larsen"], **kw)
            except be.Stage as e:
                if suffix:
                    cm.note(res, f"skipped:{bk}:remove_unused-module-{e.stage}-fails(C12)")
                    continue
                res["evals"] += 1
                nons = ":floor-or-mod-of-the-own-state" if any(ref.nonsmooth_of_own_state(s_) for s_ in ref.states) else ""
                if not nons and e.stage == "codegen":
                    msg_ = str(e.exc)
                    try:
                        boolish = ref.boolean_used_arithmetically() or any(mg.boolean_valued(ref.assigns[f"d{s_}_dt"].ast, ()) for s_ in ref.states)
                    except Exception:  # noqa: BLE001
                        boolish = False
                    if "_print_Piecewise" in cm.exc_site(e.exc) and cm.piecewise_collapses(cm.model_exprs(ode) + cm.own_state_derivative_exprs(ode)):
                        nons = cm.PW_COLLAPSES  # the listed C01 defect (sympy.simplify inside _print_Piecewise) reached through the linearisation
                    elif boolish and "Boolean" in msg_:
                        nons = ":boolean-used-arithmetically"  # the listed C01 / C20 defect reached through the own-state derivative
                    elif "Unsupported by" in msg_ and msg_.split(":")[1].strip().split()[0:1] == ["re"]:
                        nons = ":unprintable-re"  # abs of an expression in the (not real-declared) time symbol: listed C01 defect
                k = f"generation-raises{nons}:{cm.exc_site(e.exc)}" if e.stage == "codegen" else f"{e.stage}-raises:{cm.exc_name(e.exc) if e.stage != 'compile' else cm.compile_key(e.exc, set(ref.states) | set(ref.params) | set(ref.assigns))}"
                add(k, f"{bk} generalized_rush_larsen cannot be generated ({e.stage}) although the plain module can", {"ode": text, "deltas": [delta], "points": []}, "scheme function", cm.exc_name(e.exc), str(e),
                    base=k)
                break
            with m:
                for pt in pts:
                    pt = cm.restrict_point(pt, ref)
                    try:
                        vals, frag = ref.evaluate(pt["t"], pt["states"], pt["params"])
                        got_f = (plain if suffix else m).rhs(pt)  # remove_unused variant: gate on the plain module, the variant itself is what is tested
                    except (mg.RefError, be.Stage):
                        continue
                    scale0 = float(ref.last_maxabs)  # largest operand of an addition / Mod / trigonometric function at this input
                    if frag or not all(cm.vclose(got_f[s], vals[f"d{s}_dt"], ref.last_maxabs) for s in ref.states):
                        cm.note(res, "skipped:point-fragile-or-rhs-differs(C01/C02)")
                        continue
                    fg = {}
                    for s in ref.states:
                        try:
                            f, g, fr = ref.own_derivative(s, pt["t"], pt["states"], pt["params"])
                            if not fr and math.isfinite(g):
                                fg[s] = (f, g)
                        except mg.RefError:
                            pass
                    for dt in dts:
                        try:
                            got = m.scheme("generalized_rush_larsen", pt, dt)
                        except be.Stage as e:
                            res["evals"] += 1
                            zb = any(ref.zero_power_base(f"d{s_}_dt", pt["t"], pt["states"], pt["params"]) for s_ in ref.states)
                            add(f"call-raises:{cm.exc_name(e.exc)}" + (":zero-base-of-a-power" if zb else ""), "generalized_rush_larsen raises", {"ode": text, "deltas": [delta], "points": [pt], "dts": [dt]}, "values", cm.exc_name(e.exc), str(e))
                            break
                        for s, (f, g) in fg.items():
                            x = pt["states"][s]
                            if abs(g) != delta and abs(abs(g) - delta) < 1e-9 * delta:
                                continue
                            try:
                                if abs(g) > delta:
                                    e1 = math.expm1(g * dt)
                                    want, branch = x + (f / g) * e1, "rl"
                                    tol = 1e-9 * (abs(x) + abs(f / g * e1)) + 8e-16 * abs(f / g) + cm.ref_atol(abs(x)) + cm.ref_atol(scale0) * max(1.0, abs(dt))
                                else:
                                    want, branch = x + dt * f, "euler"
                                    tol = 1e-9 * (abs(x) + abs(dt * f)) + cm.ref_atol(abs(x)) + cm.ref_atol(scale0) * max(1.0, abs(dt))  # f itself carries that absolute error (sin of 4e8)
                            except OverflowError:
                                continue
                            if not math.isfinite(want):
                                continue
                            res["evals"] += 1
                            if g != 0 and f != 0:
                                res["nontrivial"].append(cm.sha([text, bk, delta, pt, dt, s, suffix]))
                            v = got[s]
                            if abs(v - want) <= tol:
                                continue
                            inp = {"ode": text, "deltas": [delta], "points": [pt], "dts": [dt]}
                            # a power whose base is exactly 0 here: sympy's derivative b**e * (e b'/b) is 0 * inf = nan in the generated code
                            zb = ":zero-base-of-a-power" if ref.zero_power_base(f"d{s}_dt", pt["t"], pt["states"], pt["params"]) else ""
                            other = x + dt * f if branch == "rl" else (x + (f / g) * math.expm1(g * dt) if g != 0 else math.nan)
                            if not math.isfinite(v):
                                add("non-finite" + zb, f"GRL value for {s} is {v} although f={f}, g={g} are finite", inp, want, v, f"state {s}, branch {branch}")
                            elif math.isfinite(other) and abs(v - other) <= 1e-9 * (abs(x) + abs(other - x)) + 8e-16 * abs(f / g if g else 0):
                                kind = "delta-not-honoured:rl-applied-below-delta" if branch == "euler" else "delta-not-honoured:euler-applied-above-delta"
                                if branch == "euler":
                                    # why: read the guard of this state in the generated text - absent (the listed finding: the generator decided
                                    # the linearisation can never be zero), present with another threshold than the requested delta, or present
                                    gm = re.search(rf"abs\(d{re.escape(s)}_dt_linearized\)\s*>\s*([-+0-9.eE]+)", m.code)
                                    if gm is None:
                                        kind += ":guard-omitted"
                                    else:
                                        try:
                                            kind += ":guard-present" if float(gm.group(1)) == float(delta) else ":guard-uses-another-delta"
                                        except ValueError:
                                            kind += ":guard-present"
                                add(kind + zb, f"|g|={abs(g)} vs delta={delta}: expected the {branch} update for {s}", inp, want, v, f"f={f} g={g} rate: {ref.assigns['d' + s + '_dt'].expr_text[:100]}")
                            else:
                                gt = ref.own_derivative(s, pt["t"], pt["states"], pt["params"], total=True)[1]
                                add("grl-mismatch", f"GRL value for {s} differs from x + (f/g)(exp(g dt) - 1)", inp, want, v,
                                    f"f={f} g={g} (g through intermediates={gt}) branch={branch} rate: {ref.assigns['d' + s + '_dt'].expr_text[:100]}", feature=True)
                            if shr:
                                break
                        if shr and res["failures"]:
                            break
                    if shr and res["failures"]:
                        break
            if shr and res["failures"]:
                break
    for pl in plains:
        pl.close()
    return res


run, replay = cm.make_api(globals())
