"""C07: hybrid Rush-Larsen == GRL on the stiff slots, explicit Euler elsewhere."""
from __future__ import annotations

import math
import random

import backends as be
import common as cm
import modelgen as mg

ID = "C07"
USES_SHRINK = True
CASE_TIMEOUT = 60
DTS = [0.01, 1.0, -0.5]
RULE = """Models from modelgen.gen_model with own-state terms (forms as in C06 except floor/Mod of the own state, for which no GRL can be
generated at all), 1-5 states.  For each model one module per stiff set S is generated with explicit_euler, generalized_rush_larsen and
hybrid_rush_larsen(stiff_states=S, delta 1e-8 or 1e-3): S = empty (also stiff_states=None), all states, every singleton (<= 3), random
subsets, and each of them with foreign names added (an undeclared name, a parameter name, an intermediate name, 't', a d<x>_dt name).
One case = one (model, back end [numpy; C every 2nd model], S, point, dt in {0.01, 1, -0.5}): slot X of hybrid_rush_larsen must equal
slot X of the module's own generalized_rush_larsen if X in S, of explicit_euler otherwise (rtol 1e-12); adding foreign names must not
change the generated step values.  Any exception generating the hybrid scheme although Euler and GRL generate is a failure.  For one
proper stiff subset per model the hybrid module is ALSO generated with remove_unused=True and its hybrid step compared BY NAME (each module's own
state_index) with the plain module's (C07:<be>:hybrid-differs:remove_unused).
Non-trivial: 0 < |S intersect states| < n_states or foreign names present, and GRL != Euler at the point; distinct by sha1(text, back
end, S, delta, point, dt)."""


def cases(tier, seed, focus):
    n = 160 if tier == "quick" else 2000
    forms = [f for f in mg.OWN_FORMS if f not in ("floor", "Mod")]
    for i in range(n):
        k = seed * 100003 + i
        yield {"mseed": k, "opts": {"own": 0.8, "own_forms": forms[i % len(forms):] + forms[: i % len(forms)], "n_states": [1, 5], "n_params": [1, 4], "n_inter": [0, 5],
                                    "force": list(mg.feature_cycle(k, 1)), "indep": 0.25, "deriv_ref": 0.15}, "npts": 2, "backends": ["numpy"] + (["c"] if i % 2 == 0 else []), "tags": ["C07"]}


def stiff_sets(ref, rng):
    S = list(ref.states)
    out = [[], None, list(S)]
    for s in S[:3]:
        out.append([s])
    for _ in range(2):
        if len(S) > 1:
            out.append(sorted(rng.sample(S, rng.randint(1, len(S) - 1))))
    foreign = ["not_a_state", "t", f"d{S[0]}_dt"] + list(ref.params)[:1] + ref.inter_names[:1]
    base = list(out)
    for b in base[:4]:
        out.append((b or []) + rng.sample(foreign, rng.randint(1, len(foreign))))
    seen, uniq = set(), []
    for o in out:
        key = repr(o)
        if key not in seen:
            seen.add(key)
            uniq.append(o)
    return uniq


def check(case):
    res = cm.new_result()
    try:
        c = cm.materialize(case)
        ref = mg.RefModel(c["ode"])
    except Exception as e:  # noqa: BLE001
        res["errors"].append(f"reference cannot read generated model: {cm.exc_name(e)}: {cm.short(e)}")
        return res
    text = c["ode"]
    shr = not case.get("_noshrink")
    res["sample"] = {"ode": text, "points": c["points"][:1]}
    try:
        ode = cm.load(text)
    except Exception as e:  # noqa: BLE001
        cm.note(res, f"skipped:loader-rejects:{cm.exc_name(e)}")
        return res
    rng = random.Random(cm.sha(text))
    sets = c.get("stiff_sets") or stiff_sets(ref, rng)
    deltas = c.get("deltas", [1e-8] if int(cm.sha(text), 16) % 2 else [1e-3])
    dts = c.get("dts", DTS)
    for bk in c.get("backends", ["numpy"]):
        if bk == "c" and ref.c_unsafe():
            # an integer-literal quotient in the text: the C value of the rate itself is wrong (listed finding of C02), nothing to learn here
            cm.note(res, "skipped:c:integer-quotient-territory(C02)")
            continue
        def add(kind, what, inp, exp=None, act=None, detail=""):
            f = cm.fail(f"C07:{bk}:{kind}", what, dict(inp, backends=[bk]), exp, act, detail)
            if shr:
                f["_shrink"] = {"base": f"C07:{bk}:{kind}"}
            res["failures"].append(f)

        for delta in deltas:
            try:
                be.build(ode, bk, ["explicit_euler", "generalized_rush_larsen"], delta=delta).close()
            except be.Stage as e:
                cm.note(res, f"skipped:{bk}:euler/grl-{e.stage}-fails(C01/C02/C06)")
                break
            if not (shr and res["failures"]) and (c.get("remove_unused") or "stiff_sets" not in c):
                check_remove_unused(ode, bk, delta, sets, ref, c, dts, text, res, add)
            if c.get("remove_unused"):
                continue
            for S in sets:
                inp0 = {"ode": text, "stiff_sets": [S], "deltas": [delta]}
                try:
                    m = be.build(ode, bk, ["explicit_euler", "generalized_rush_larsen", "hybrid_rush_larsen"], delta=delta, stiff_states=S)
                except be.Stage as e:
                    res["evals"] += 1
                    pwc = cm.PW_COLLAPSES if e.stage == "codegen" and "_print_Piecewise" in cm.exc_site(e.exc) and cm.piecewise_collapses(cm.model_exprs(ode) + cm.own_state_derivative_exprs(ode)) else ""
                    add(f"generation-raises{pwc}:{cm.exc_site(e.exc) if e.stage == 'codegen' else e.stage}", f"hybrid_rush_larsen(stiff_states={S}) cannot be generated although Euler and GRL can", dict(inp0, points=[]), "scheme", cm.exc_name(e.exc), str(e))
                    continue
                inS = set(S or []) & set(ref.states)
                foreign = [x for x in (S or []) if x not in ref.states]
                with m:
                    for pt in c["points"]:
                        pt = cm.restrict_point(pt, ref)
                        for dt in dts:
                            try:
                                eu = m.scheme("explicit_euler", pt, dt)
                                rl = m.scheme("generalized_rush_larsen", pt, dt)
                            except be.Stage:
                                continue
                            if not all(math.isfinite(v) for v in list(eu.values()) + list(rl.values())):
                                continue
                            res["evals"] += 1
                            inp = dict(inp0, points=[pt], dts=[dt])
                            if (0 < len(inS) < len(ref.states) or foreign) and any(eu[k] != rl[k] for k in eu):
                                res["nontrivial"].append(cm.sha([text, bk, S, delta, pt, dt]))
                            try:
                                hy = m.scheme("hybrid_rush_larsen", pt, dt)
                            except be.Stage as e:
                                add(f"call-raises:{cm.exc_name(e.exc)}", "hybrid_rush_larsen raises although Euler and GRL run", inp, "values", cm.exc_name(e.exc), str(e))
                                continue
                            want = {k: (rl[k] if k in inS else eu[k]) for k in eu}
                            bad = {k: hy[k] for k in want if not cm.vclose(hy[k], want[k], 0.0, 1e-12)}
                            if bad:
                                kinds = set()
                                for k in bad:
                                    if k in inS:
                                        kinds.add("stiff-slot-not-grl" + (":is-euler" if cm.close(hy[k], eu[k], 1e-12) else ""))
                                    else:
                                        kinds.add("nonstiff-slot-not-euler" + (":is-grl" if cm.close(hy[k], rl[k], 1e-12) else ""))
                                kind = sorted(kinds)[0]
                                if not inS and not foreign:
                                    kind = "empty-set-not-euler"
                                elif inS == set(ref.states) and not foreign:
                                    kind = "all-stiff-not-grl"
                                elif foreign and kind.startswith("nonstiff"):
                                    kind = "foreign-name-has-effect"
                                add(kind, f"hybrid_rush_larsen(stiff_states={S}) slot(s) {sorted(bad)} wrong", inp, {k: want[k] for k in bad}, bad, f"euler={ {k: eu[k] for k in bad} } grl={ {k: rl[k] for k in bad} }")
                                if shr:
                                    break
                        if shr and res["failures"]:
                            break
                if shr and res["failures"]:
                    break
            if shr and res["failures"]:
                break
    return res


def check_remove_unused(ode, bk, delta, sets, ref, c, dts, text, res, add):
    """hybrid step of the module generated with remove_unused=True against the plain module, by name"""
    proper = [S for S in sets if S and 0 < len(set(S) & set(ref.states)) < len(ref.states)] or [S for S in sets if S]
    if not proper:
        return
    S = proper[0]
    schemes = ["explicit_euler", "generalized_rush_larsen", "hybrid_rush_larsen"]
    try:
        mp = be.build(ode, bk, schemes, delta=delta, stiff_states=S)
    except be.Stage:
        return
    with mp:
        try:
            mr = be.build(ode, bk, schemes, delta=delta, stiff_states=S, remove_unused=True)
        except be.Stage as e:
            cm.note(res, f"skipped:{bk}:remove_unused-module-{e.stage}-fails(C12)")
            return
        with mr:
            for pt in c["points"]:
                pt = cm.restrict_point(pt, ref)
                for dt in dts:
                    try:
                        hp = mp.scheme("hybrid_rush_larsen", pt, dt)
                    except be.Stage:
                        continue
                    if not all(math.isfinite(v) for v in hp.values()):
                        continue
                    res["evals"] += 1
                    res["nontrivial"].append(cm.sha([text, bk, S, delta, pt, dt, "remove_unused"]))
                    inp = {"ode": text, "stiff_sets": [S], "deltas": [delta], "points": [pt], "dts": [dt], "remove_unused": True}
                    try:
                        hr = mr.scheme("hybrid_rush_larsen", pt, dt)
                    except be.Stage as e:
                        add(f"call-raises:{cm.exc_name(e.exc)}:remove_unused", "hybrid_rush_larsen of the remove_unused module raises", inp, "values", cm.exc_name(e.exc), str(e))
                        return
                    bad = {k: hr.get(k) for k in hp if k not in hr or not cm.vclose(hr[k], hp[k], 0.0, 1e-12)}
                    if bad:
                        add("hybrid-differs:remove_unused", f"hybrid_rush_larsen(stiff_states={S}) of the module generated with remove_unused=True differs by name from the plain module for {sorted(bad)}", inp,
                            {k: hp[k] for k in bad}, bad, f"state table {mr.state}")
                        return


run, replay = cm.make_api(globals())
