"""C02: generated C compiles (gcc default mode) and computes the reference values."""
from __future__ import annotations

import math
import re

import numpy as np

import backends as be
import common as cm
import modelgen as mg

ID = "C02"
USES_SHRINK = True
CASE_TIMEOUT = 60
SCHEMES = ["explicit_euler", "generalized_rush_larsen", "hybrid_rush_larsen"]
RULE = """Models: modelgen.gen_model (1-5 states, 0-5 parameters incl. value expressions like 1/4, 2*pi, exp(1); 0-8 intermediates;
components; all grammar features in rotation) plus a fixed list of one-line probe models (integer-literal quotients and exponents
1/4, x**(1/2), x**(3/2); Mod/floor/abs with negative operands and negative divisors; nested conditionals; And/Or with 2-4 operands;
Not/Eq; unary minus / power precedence).  For each model gotran2c.get_code(format none, schemes explicit_euler +
generalized_rush_larsen + hybrid_rush_larsen(stiff = first state)) is compiled with `gcc -shared -fPIC -O0` and loaded with ctypes.
One case = one (model, point) at which init_state_values / init_parameter_values / NUM_* constants / index functions are compared
with the reference reading of the text, rhs and monitor_values with the reference evaluator (rtol 1e-9), and the three schemes (dt in
{0.01, 1}) with the NumPy module generated from the same model (rtol 1e-9).  Points where the NumPy module itself disagrees with
the reference in the same way are skipped (C01's domain).  A mismatch is named by re-evaluating the reference under the hypothesised
C semantics (integer division of integer literals, fmod sign); otherwise the model is shrunk and named after its main construct.
Non-trivial: model has >= 1 intermediate or nesting depth >= 2 and rhs != 0; distinct by sha1(text, point)."""

PROBES = [
    "1/4*x", "x*1/4", "x**(1/2)", "x**(3/2)", "(x**2 + 1)**(1/3)", "2/3 + y", "3/2*y", "x/3", "x**2/2", "1/4", "2**(1/2)", "7/2*x - 1/3",
    "Mod(x, 3)", "Mod(-x, 3)", "Mod(x, -3)", "Mod(-x, -3)", "Mod(y, 0.7)", "Mod(x*y, 2) - Mod(x, y)",
    "floor(x)", "floor(-x)", "floor(x/2)", "floor(-x/2)", "abs(x)", "abs(-x)", "abs(x - 5)", "Abs(y)*x", "abs(floor(x))", "abs(floor(x) - 3)", "floor(abs(x))",
    "Conditional(Lt(x, 1), Conditional(Gt(y, 3), 1, 2), Conditional(Le(y, 2), 3, 4))", "Conditional(Lt(x, 0), Conditional(Lt(y, 0), 1, 2), 3)",
    "Conditional(And(Gt(x, 0), Lt(y, 1)), 1, 2)", "Conditional(And(Gt(x, 0), Lt(y, 1), Ge(x, 0.5)), 1, 2)", "Conditional(And(Gt(x, 0), Lt(y, 1), Ge(x, 0.5), Le(y, 0.2)), 1, 2)",
    "Conditional(Or(Lt(x, 0), Gt(y, 2)), 1, 2)", "Conditional(Or(Lt(x, 0), Gt(y, 2), Ge(x, 5)), 1, 2)", "Conditional(Not(Lt(x, y)), 1, 2)", "Conditional(Not(Eq(x, y)), 1, 2)",
    "Conditional(Eq(x, 2), 1, 2)", "Conditional(Not(And(Lt(x, 0), Gt(y, 0))), x, y)", "Conditional(Or(And(Lt(x, 0), Gt(y, 0)), Ge(x, 3)), x, y)",
    "Lt(x, y) + 1", "Gt(x, 1)*Lt(y, 3)*5", "ContinuousConditional(Gt(x, 1), 2, 3, 0.5)", "ContinuousConditional(Le(x, y), x, y, 2)",
    "-x**2", "2**-x", "x**y", "x**-2", "(-x)**2", "x**2**0.5", "x - -y", "x/-y**2", "exp(-x)*log(y**2 + 1) + ln(y**2 + 2)", "sqrt(y**2) + sin(x)*cos(y) - tan(0.3*x)",
    "asin(0.3*sin(x)) + acos(0.2*cos(y)) - atan(x*y)", "pi*x", "t*x + time", "1e300*x*1e-300", "x**3", "x**4.0", "x**0.5", "x**(-1/2)", "1/x**2", "x/y/2", "1/(1/4)",
]


def probe_text(e):
    return f"parameters(a=2.0, b=1/4, c=-3/2)\nstates(x=1.5, y=2.0)\nw0 = {e}\ndx_dt = w0 + a\ndy_dt = b - y + c\n"


PROBE_POINTS = [
    {"t": 0.5, "states": {"x": 1.5, "y": 2.0}, "params": {"a": 2.0, "b": 0.25, "c": -1.5}},
    {"t": 2.0, "states": {"x": -2.5, "y": 0.5}, "params": {"a": 2.0, "b": 0.25, "c": -1.5}},
    {"t": 1.0, "states": {"x": 4.0, "y": -1.25}, "params": {"a": -1.0, "b": 0.5, "c": 1.0}},
    {"t": 0.0, "states": {"x": -7.0, "y": 3.0}, "params": {"a": 1.0, "b": 0.25, "c": -1.5}},
    {"t": 3.0, "states": {"x": 2.0, "y": 2.0}, "params": {"a": 1.0, "b": 0.25, "c": -1.5}},
]


def cases(tier, seed, focus):
    n = 260 if tier == "quick" else 3000
    for e in PROBES:
        yield {"ode": probe_text(e), "points": PROBE_POINTS, "tags": ["C02"]}
    for i in range(n):
        k = seed * 100003 + i
        yield {"mseed": k, "opts": {"force": list(mg.feature_cycle(k)), "int_states": i % 3 == 0}, "npts": 4, "tags": ["C02"]}


def check(case):
    res = cm.new_result()
    try:
        c = cm.materialize(case)
        ref = mg.RefModel(c["ode"])
    except Exception as e:  # noqa: BLE001
        res["errors"].append(f"reference cannot read generated model: {cm.exc_name(e)}: {cm.short(e)}")
        return res
    text = c["ode"]
    shr = not case.get("_noshrink")
    res["sample"] = {"ode": text, "points": c["points"][:1]}

    def add(kind, what, inp, exp=None, act=None, detail="", base=None):
        f = cm.fail(f"C02:{kind}", what, inp, exp, act, detail)
        if shr and base:
            f["_shrink"] = {"base": f"C02:{base}"}
        res["failures"].append(f)

    try:
        ode = cm.load(text)
    except Exception as e:  # noqa: BLE001
        cm.note(res, f"skipped:loader-rejects:{cm.exc_name(e)}")
        return res
    stiff = [ref.state_names[0]]
    try:
        npm = be.build(ode, "numpy", SCHEMES, stiff_states=stiff)
    except be.Stage as e:
        cm.note(res, f"skipped:numpy-{e.stage}-fails(C01/C06)")
        npm = None
        try:
            npm0 = be.build(ode, "numpy")
        except be.Stage:
            return res
    schemes = SCHEMES if npm is not None else []
    if npm is None:
        npm = npm0
    try:
        cmod = be.build(ode, "c", schemes, **({"stiff_states": stiff} if schemes else {}))
    except be.Stage as e:
        res["evals"] += 1
        if e.stage == "codegen":
            add(f"codegen-raises:{cm.exc_site(e.exc)}", "C code generation raises although NumPy generation succeeds", {"ode": text}, "C source", cm.exc_name(e.exc), str(e), base=f"codegen-raises:{cm.exc_site(e.exc)}")
        else:
            kind = f"compile-error:{cm.compile_key(e.exc, set(ref.states) | set(ref.params) | set(ref.assigns))}"
            add(kind, "generated C does not compile with gcc -shared -fPIC -O0", {"ode": text}, "compiles", str(e.exc), e.detail, base=kind)
        return res
    with cmod:
        # ---- static part: counts, index functions, init values -----------------------------
        res["evals"] += 1
        inp0 = {"ode": text, "points": []}
        s0, p0 = ref.defaults()
        try:
            if cmod.lib.const("NUM_STATES") != len(ref.states) or cmod.lib.const("NUM_PARAMS") != len(ref.params) or cmod.lib.const("NUM_MONITORED") != len(ref.assigns):
                add("num-constants-wrong", "NUM_STATES/NUM_PARAMS/NUM_MONITORED differ from the model", inp0, [len(ref.states), len(ref.params), len(ref.assigns)],
                    [cmod.lib.const("NUM_STATES"), cmod.lib.const("NUM_PARAMS"), cmod.lib.const("NUM_MONITORED")])
            for which, names in (("state", ref.state_names), ("parameter", ref.param_names), ("monitor", list(ref.assigns))):
                idx = [cmod.index(which, n) for n in names]
                if sorted(idx) != list(range(len(names))):
                    add(f"{which}-index-not-a-bijection", f"{which}_index is not a bijection onto 0..n-1", inp0, list(range(len(names))), idx)
                if names and cmod.index(which, names[0] + "_nope") != -1:
                    add(f"{which}-index-accepts-unknown", f"{which}_index does not return -1 for an unknown name", inp0, -1, cmod.index(which, names[0] + "_nope"))
            for fn, got, want in (("init_state_values", cmod.init_states(), s0), ("init_parameter_values", cmod.init_params(), p0)):
                bad = {k: got.get(k) for k in want if not cm.close(got.get(k, math.nan), want[k], 1e-12)}
                if bad:
                    exprs = {k: (ref.states.get(k) or ref.params.get(k)).expr_text for k in bad}
                    kind = "init:c-integer-division" if all(_intdiv_explains(exprs[k], bad[k]) for k in bad) else "init:value-mismatch"
                    add(kind, f"{fn} stores a value different from the declared default ({exprs})", inp0, {k: want[k] for k in bad}, bad, base=kind)
        except be.Stage as e:
            add(f"static-call-raises:{cm.exc_name(e.exc)}", "calling an index/init function fails", inp0, None, str(e))
        # ---- numeric part ------------------------------------------------------------------------
        nontriv_model = bool(ref.inter_names) or ref.max_depth() >= 2
        for pt in c["points"]:
            pt = cm.restrict_point(pt, ref)
            try:
                want, frag = ref.evaluate(pt["t"], pt["states"], pt["params"])
                scale = ref.last_maxabs
            except mg.RefError:
                continue
            if frag:
                continue
            res["evals"] += 1
            inp = {"ode": text, "points": [pt]}
            if nontriv_model and any(want[f"d{s}_dt"] != 0 for s in ref.states):
                res["nontrivial"].append(cm.sha([text, pt]))
            atol = 1e-13 * scale + 1e-300
            try:
                np_mon = npm.monitor_values(pt)
            except be.Stage:
                np_mon = None
            try:
                got_rhs = cmod.rhs(pt)
                got_mon = cmod.monitor_values(pt)
            except be.Stage as e:
                add(f"call-raises:{cm.exc_name(e.exc)}", "calling generated C function fails", inp, None, str(e))
                continue
            bad = {}
            for n, v in got_mon.items():
                if not cm.close(v, want[n], 1e-9, atol):
                    if np_mon is not None and cm.close(np_mon.get(n, math.nan), v, 1e-9, atol):
                        cm.note(res, "skipped:numpy-disagrees-with-reference-too(C01)")
                        continue
                    bad[n] = v
            for s, v in got_rhs.items():
                if not cm.close(v, want[f"d{s}_dt"], 1e-9, atol) and f"d{s}_dt" not in bad:
                    if np_mon is not None and cm.close(np_mon.get(f"d{s}_dt", math.nan), v, 1e-9, atol):
                        continue
                    bad[f"rhs[{s}]"] = v
            if bad:
                names = [n for n in bad if n in ref.assigns] or [f"d{n[4:-1]}_dt" for n in bad]
                kind = diagnose(ref, pt, {n: bad[n] for n in bad if n in ref.assigns}, atol)
                if kind is None and any(re.search(r"(?<![A-Za-z_])abs\(", ln) for ln in c_lines(cmod.code, names)):
                    kind = "c-int-abs"
                if kind is None and "Mod" not in ref.features() and any(re.search(r"(?<![\w.])\(?-?\d+\)?/\(?-?\d+\)?(?![\w.])", ln) for ln in c_lines(cmod.code, names)):
                    kind = "c-integer-division"  # an integer-literal quotient is printed on the failing line
                kind = kind or f"value-mismatch:{cm.main_feature(text, names)}"
                add(kind, f"C rhs/monitor_values differ from the reference for {sorted(bad)[:3]}", inp, {n: want.get(n) for n in names}, bad,
                    "C lines: " + "; ".join(c_lines(cmod.code, names))[:500], base="value-mismatch" if kind.startswith("value-mismatch") else kind)
                if shr:
                    break
                continue
            # schemes against the NumPy module
            for sch in schemes:
                for dt in (0.01, 1.0):
                    try:
                        a = npm.scheme(sch, pt, dt)
                    except be.Stage:
                        continue
                    if not all(math.isfinite(v) for v in a.values()):
                        continue
                    try:
                        b = cmod.scheme(sch, pt, dt)
                    except be.Stage as e:
                        add(f"call-raises:{cm.exc_name(e.exc)}", f"calling C {sch} fails", inp, None, str(e))
                        continue
                    badk = {k: b[k] for k in a if not cm.close(a[k], b[k], 1e-9, 1e-9 * abs(pt["states"][k]) + atol)}
                    if badk:
                        kind = f"scheme-mismatch:{sch}"
                        add(kind, f"C {sch}(dt={dt}) differs from the NumPy module although rhs agrees", dict(inp, dt=dt), {k: a[k] for k in badk}, badk,
                            "C lines: " + "; ".join(c_lines(cmod.code, [f"d{k}_dt_linearized" for k in badk], fn=sch))[:500], base=kind)
                        break
    return res


def on_crash(case):
    res = cm.new_result()
    try:
        c = cm.materialize(case)
        res["evals"] = 1
        res["failures"].append(cm.fail("C02:c-crash", "calling the compiled C functions kills the process (signal, e.g. SIGFPE from an integer division by zero)",
                                       {"ode": c["ode"], "points": c["points"]}, "values", "process died"))
    except Exception as e:  # noqa: BLE001
        res["errors"].append(f"worker crash and cannot materialize: {e}")
    return res


def _intdiv_explains(expr_text, got):
    try:
        v = mg._num(mg.ev(mg.parse_expr(expr_text), mg.Ctx(mg._no_lookup, int_div=True)))
        return cm.close(v, got, 1e-12)
    except Exception:  # noqa: BLE001
        return False


def diagnose(ref, pt, bad, atol):
    """does a hypothesised C semantics reproduce every wrong value?"""
    if not bad:
        return None
    for kind, sw in (("c-integer-division", {"int_div": True}), ("c-fmod-sign", {"c_fmod": True}), ("c-integer-division+fmod-sign", {"int_div": True, "c_fmod": True})):
        try:
            alt, _ = ref.evaluate(pt["t"], pt["states"], pt["params"], names=list(bad), **sw)
        except mg.RefError:
            continue
        if all(cm.close(alt[n], bad[n], 1e-9, atol) for n in bad):
            return kind
    return None


def c_lines(code, names, fn="monitor_values"):
    m = re.search(r"void " + fn + r"\(.*?\n\}\n", code, re.S)
    body = m.group(0) if m else code
    out = []
    for n in names:
        mm = re.search(r"const double " + re.escape(n) + r" = (.*?);\n", body, re.S)
        if mm:
            out.append(f"{n} = " + " ".join(mm.group(1).split())[:200])
    return out


def slug(msg):
    return re.sub(r"[^A-Za-z0-9]+", "-", msg).strip("-")[:50].lower()


run, replay = cm.make_api(globals())
