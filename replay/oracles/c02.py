"""C02: generated C compiles (gcc default mode) and computes the reference values."""
from __future__ import annotations

import math
import re

import numpy as np

import backends as be
import common as cm
import modelgen as mg

ID = "C02"
USES_SHRINK = True
CASE_TIMEOUT = 60
SCHEMES = ["explicit_euler", "generalized_rush_larsen", "hybrid_rush_larsen"]
RULE = """Two kinds of models.  (1) GENERAL models: modelgen.gen_model(c_safe=True) (1-5 states, 0-5 parameters incl. value expressions, 0-8
intermediates, components, all grammar features in rotation, a fraction with intermediates that mention a d<state>_dt name) and the
hand-written GENERAL_PROBES.  They never touch a KNOWN defect class of the C back end: every integer literal is written as a float
(7.0 / 2.0, x**(1.0/2.0); literal exponents x**2 stay), no quotient has two C-int operands, Mod only has syntactically positive
operands, no abs() has floor() inside, no comparison has the same name on both sides (sympy would fold it to a bare true / false); a
general model whose loaded expressions nevertheless contain a bare boolean constant is skipped (counted in info).  A failure of a
general model therefore always means something else is wrong: C02:value-mismatch:<construct>, C02:scheme-mismatch:<scheme>,
C02:init:value-mismatch, C02:compile-error:..., C02:c-crash:no-integer-quotient (a killed worker is C02:c-crash:integer-division-by-zero
only when the reference, re-evaluated with C int semantics for integer-literal quotients, divides by zero where the text is defined;
C02:c-crash:integer-quotient-territory for any other crash of a model with an integer-literal quotient; no signature is a prefix of another).  (2) DEDICATED probe models (DEFECT_PROBES), one line
each, for the known classes: integer-literal quotients / exponents (also in parameter defaults), Mod / fmod with negative operands,
abs() of integer-valued expressions, Mod of two integer-valued operands, bare boolean constants.  Whether a text is in known-defect
territory is decided from the text itself (modelgen.c_unsafe + boolean constants in the loaded expressions), so stored failures
replay without extra keys; in territory a mismatch is named by re-evaluating the reference under the hypothesised C semantics
(C02:c-integer-division, C02:c-fmod-sign, C02:c-integer-division+fmod-sign), by the C source line (C02:c-int-abs), else
C02:known-defect-territory:<classes>:value-mismatch:<construct>.  For each model gotran2c.get_code(format none, schemes explicit_euler +
generalized_rush_larsen + hybrid_rush_larsen(stiff = first state)) is compiled with `gcc -shared -fPIC -O0` and loaded with ctypes.
One case = one (model, point) at which init_state_values / init_parameter_values / NUM_* constants / index functions are compared
with the reference reading of the text, rhs and monitor_values with the reference evaluator (rtol 1e-9, atol 1e-12 x (1 + largest
operand)), and the three schemes (dt in {0.01, 1}) with the NumPy module generated from the same model.  Points where the NumPy module
itself disagrees with the reference in the same way are skipped (C01's domain).  Non-trivial: model has >= 1 intermediate or nesting
depth >= 2 and rhs != 0; distinct by sha1(text, point)."""

# ---- dedicated probes of the KNOWN C defect classes (each group has its own signatures) -----------------------------------------------
DEFECT_PROBES = {
    "int-quotient": ["1/4*x", "1/(1/4)", "x*1/4", "x**(1/2)", "x**(3/2)", "(x**2 + 1)**(1/3)", "2/3 + y", "3/2*y", "1/4", "2**(1/2)", "7/2*x - 1/3", "x**(-1/2)", "x**(1/3)", "1/3*x",
                     "7 / 2 * ContinuousConditional(Gt(x, 1), 2, 3, 0.5)", "7 / 2 * Conditional(Lt(x, y), x, y)", "Conditional(Lt(x, y), 1, 2)/Conditional(Lt(x, 0), 3, 4)", "Lt(x, y)/2",
                     "1 - 1/4", "(1 + 2)/4*x", "x/3", "x**2/2", "3/x", "(x + 1)/2"],
    "mod-sign": ["Mod(x, 3)", "Mod(-x, 3)", "Mod(x, -3)", "Mod(-x, -3)", "Mod(y, 0.7)", "Mod(x*y, 2) - Mod(x, y)", "abs(Mod(x, 2))", "Mod(x, 2.0)*3.5", "7 / 2 * Mod(x, 2)"],
    "int-abs": ["abs(floor(x))", "abs(floor(x) - 3)", "Abs(floor(x)*2.0)", "abs(floor(x)*floor(y))", "sqrt(abs(floor(x)))"],
    "int-mod": ["Mod(floor(x), 2)", "Mod(floor(x) + 7, 3)"],
    "bool-constant": ["Eq(2, 2E1)", "Gt(2 + x, x)", "Conditional(Eq(2, 0.1), x, y)", "Lt(1, 2)*x", "Le(x, x + 1) + y"],
}
# ---- general probes: no known-defect class is touched (asserted by the territory analysis at run time) --------------------------
GENERAL_PROBES = [
    "1.0/4.0*x", "x*1.0/4.0", "x**(1.0/2.0)", "x**(3.0/2.0)", "(x**2 + 1.0)**(1.0/3.0)", "7.0 / 2.0 * ContinuousConditional(Gt(x, 1.0), 2.0, 3.0, 0.5)", "x/3.0", "x**2/2.0",
    "Mod(abs(x) + 1.0, 3.0)", "Mod(y**2 + 0.5, 0.7)", "Mod(exp(0.1*x), (1.0 + y**2))", "Mod(abs(x*y), 2.0) - Mod(x**2, (abs(y) + 0.5))",
    "floor(x)", "floor(-x)", "floor(x/2.0)", "floor(-x/2.0)", "abs(x)", "abs(-x)", "abs(x - 5.0)", "Abs(y)*x", "floor(abs(x))", "floor(x)*abs(y)", "floor(x)/2.0", "floor(x)**2",
    "Conditional(Lt(x, 1.0), Conditional(Gt(y, 3.0), 1.0, 2.0), Conditional(Le(y, 2.0), 3.0, 4.0))", "Conditional(Lt(x, 0.0), Conditional(Lt(y, 0.0), 1.0, 2.0), 3.0)",
    "Conditional(And(Gt(x, 0.0), Lt(y, 1.0)), 1.0, 2.0)", "Conditional(And(Gt(x, 0.0), Lt(y, 1.0), Ge(x, 0.5)), 1.0, 2.0)", "Conditional(And(Gt(x, 0.0), Lt(y, 1.0), Ge(x, 0.5), Le(y, 0.2)), 1.0, 2.0)",
    "Conditional(Or(Lt(x, 0.0), Gt(y, 2.0)), 1.0, 2.0)", "Conditional(Or(Lt(x, 0.0), Gt(y, 2.0), Ge(x, 5.0)), 1.0, 2.0)", "Conditional(Not(Lt(x, y)), 1.0, 2.0)", "Conditional(Not(Eq(x, y)), 1.0, 2.0)",
    "Conditional(Eq(x, 2.0), 1.0, 2.0)", "Conditional(Not(And(Lt(x, 0.0), Gt(y, 0.0))), x, y)", "Conditional(Or(And(Lt(x, 0.0), Gt(y, 0.0)), Ge(x, 3.0)), x, y)",
    "Lt(x, y) + 1.0", "Gt(x, 1.0)*Lt(y, 3.0)*5.0", "Lt(x, y)/2.0", "ContinuousConditional(Gt(x, 1.0), 2.0, 3.0, 0.5)", "ContinuousConditional(Le(x, y), x, y, 2.0)",
    "-x**2", "2.0**-x", "x**y", "x**-2", "(-x)**2", "x**2**0.5", "x - -y", "x/-y**2", "exp(-x)*log(y**2 + 1.0) + ln(y**2 + 2.0)", "sqrt(y**2) + sin(x)*cos(y) - tan(0.3*x)",
    "asin(0.3*sin(x)) + acos(0.2*cos(y)) - atan(x*y)", "pi*x", "t*x + time", "1e300*x*1e-300", "x**3", "x**4.0", "x**0.5", "x**(-1.0/2.0)", "1.0/x**2", "x/y/2.0", "1.0/(1.0/4.0)",
    "cos(acos(0.0*x))", "a*dy_dt + x",
    # a branch that is switched off exactly where it is not finite: the conditional must really select, not multiply by 0
    "Conditional(Gt(x, 0.0), 2.0*log(x), 0.0)", "Conditional(Le(y, 1.0), 0.0, sqrt(y - 1.0))", "Conditional(Eq(x, y), 1.5, 2.0/(x - y))",
    "Conditional(Gt(x, 0.0), 2.0*log(x), 0)", "Conditional(Le(y, 1.0), 0, sqrt(y - 1.0))", "Conditional(Gt(x, 0), log(x), 0)*a",
    "Conditional(Lt(x, 0.0), 0.0, x**0.5) + Conditional(Ge(y, 0.0), 0.0, log(-y))", "3.0 + Conditional(Gt(abs(x), 3.0), 1.0/(abs(x) - 3.0), 0.0)*0.0",
]


def probe_text(e, defect=False):
    pars = "a=2.0, b=1/4, c=-3/2" if defect == "init" else "a=2.0, b=0.25, c=-1.5"
    return f"parameters({pars})\nstates(x=1.5, y=2.0)\nw0 = {e}\ndx_dt = w0 + a\ndy_dt = b - y + c\n"


PROBE_POINTS = [
    {"t": 0.5, "states": {"x": 1.5, "y": 2.0}, "params": {"a": 2.0, "b": 0.25, "c": -1.5}},
    {"t": 2.0, "states": {"x": -2.5, "y": 0.5}, "params": {"a": 2.0, "b": 0.25, "c": -1.5}},
    {"t": 1.0, "states": {"x": 4.0, "y": -1.25}, "params": {"a": -1.0, "b": 0.5, "c": 1.0}},
    {"t": 0.0, "states": {"x": -7.0, "y": 3.0}, "params": {"a": 1.0, "b": 0.25, "c": -1.5}},
    {"t": 3.0, "states": {"x": 2.0, "y": 2.0}, "params": {"a": 1.0, "b": 0.25, "c": -1.5}},
]


def cases(tier, seed, focus):
    n = 260 if tier == "quick" else 3000
    fixed = [{"ode": probe_text("x*y", defect="init"), "points": PROBE_POINTS[:1], "probe": "init-int-quotient", "tags": ["C02:init"]}]
    groups = dict(DEFECT_PROBES, general=GENERAL_PROBES)
    for j in range(max(len(v) for v in groups.values())):  # round robin over the groups: every dedicated class is reached early
        for grp, exprs in groups.items():
            if j < len(exprs):
                tags = ["C02:value-mismatch", "C02:scheme-mismatch", "C02"] if grp == "general" else ["C02:c-", "C02:compile-error", "C02:known-defect-territory", "C02:codegen-raises"]
                fixed.append({"ode": probe_text(exprs[j]), "points": PROBE_POINTS, "probe": grp, "tags": tags})

    def gen(i):
        k = seed * 100003 + i
        return {"mseed": k, "opts": {"force": list(mg.feature_cycle(k)), "int_states": i % 3 == 0, "c_safe": True, "deriv_ref": 0.15}, "npts": 4, "tags": ["C02:value-mismatch", "C02:scheme-mismatch", "C02"]}

    gi = 0
    for c in fixed:  # fixed probes interleaved 1:2 with generated general models
        yield c
        for _ in range(2):
            if gi < n:
                yield gen(gi)
                gi += 1
    while gi < n:
        yield gen(gi)
        gi += 1


def has_bool_const(e) -> bool:
    """a bare true / false in a loaded sympy expression (other than the closing `True` condition of a Piecewise)"""
    import sympy

    if e is sympy.true or e is sympy.false:
        return True
    if isinstance(e, sympy.Piecewise):
        last = len(e.args) - 1
        for i, pair in enumerate(e.args):
            ex, c = pair.args
            if has_bool_const(ex):
                return True
            if i == last and c is sympy.true:
                continue
            if has_bool_const(c):
                return True
        return False
    return any(has_bool_const(a) for a in getattr(e, "args", ()))


def territory(ref, ode=None) -> list:
    """KNOWN C defect classes the model is in: syntactic classes of modelgen.c_unsafe + 'bool-constant' (sympy folded a
    comparison of the loaded model to a bare true / false)"""
    terr = set(ref.c_unsafe())
    # 'bool-constant' (true / false without <stdbool.h>) was repaired in gotranx (fix: commit 7834552): no longer a territory
    return sorted(terr)


def check(case):
    res = cm.new_result()
    try:
        c = cm.materialize(case)
        ref = mg.RefModel(c["ode"])
    except Exception as e:  # noqa: BLE001
        res["errors"].append(f"reference cannot read generated model: {cm.exc_name(e)}: {cm.short(e)}")
        return res
    text = c["ode"]
    shr = not case.get("_noshrink")
    res["sample"] = {"ode": text, "points": c["points"][:1]}
    terr = []

    def add(kind, what, inp, exp=None, act=None, detail="", base=None):
        if not terr:
            inp = dict(inp, general=True)
        f = cm.fail(f"C02:{kind}", what, inp, exp, act, detail)
        if shr and base:
            f["_shrink"] = {"base": f"C02:{base}"}
        res["failures"].append(f)

    try:
        ode = cm.load(text)
    except Exception as e:  # noqa: BLE001
        cm.note(res, f"skipped:loader-rejects:{cm.exc_name(e)}")
        return res
    terr = territory(ref, ode)
    tprefix = f"known-defect-territory:{'+'.join(terr)}:" if terr else ""
    if terr and ("mseed" in case or case.get("probe") == "general" or case.get("general")):
        # a general model (or a shrinking candidate of a failing one: stored inputs of general models carry "general": true) must not be
        # in known-defect territory: generated ones only get there when sympy folds a comparison to a bare boolean constant
        cm.note(res, f"skipped:general-model-in-known-defect-territory:{'+'.join(terr)}")
        if case.get("probe") == "general":
            res["errors"].append(f"GENERAL_PROBES entry is in known-defect territory {terr}: {text!r}")
        return res
    stiff = [ref.state_names[0]]
    try:
        npm = be.build(ode, "numpy", SCHEMES, stiff_states=stiff)
    except be.Stage as e:
        cm.note(res, f"skipped:numpy-{e.stage}-fails(C01/C06)")
        npm = None
        try:
            npm0 = be.build(ode, "numpy")
        except be.Stage:
            return res
    schemes = SCHEMES if npm is not None else []
    if npm is None:
        npm = npm0
    try:
        cmod = be.build(ode, "c", schemes, **({"stiff_states": stiff} if schemes else {}))
    except be.Stage as e:
        res["evals"] += 1
        if e.stage == "codegen":
            ck = f"codegen-raises:{cm.exc_site(e.exc)}{cm.codegen_exception_class(e.exc, cm.model_exprs(ode), ref)}"  # listed mechanisms get their suffix
            add(ck, "C code generation raises although NumPy generation succeeds", {"ode": text}, "C source", cm.exc_name(e.exc), str(e), base=ck)
        else:
            kind = f"compile-error:{cm.compile_key(e.exc, set(ref.states) | set(ref.params) | set(ref.assigns))}"
            add(kind, "generated C does not compile with gcc -shared -fPIC -O0" + (f" (model in known-defect territory {terr})" if terr else ""), {"ode": text}, "compiles", str(e.exc), e.detail, base=kind)
        return res
    with cmod:
        # ---- static part: counts, index functions, init values -----------------------------
        res["evals"] += 1
        inp0 = {"ode": text, "points": []}
        s0, p0 = ref.defaults()
        try:
            if cmod.lib.const("NUM_STATES") != len(ref.states) or cmod.lib.const("NUM_PARAMS") != len(ref.params) or cmod.lib.const("NUM_MONITORED") != len(ref.assigns):
                add("num-constants-wrong", "NUM_STATES/NUM_PARAMS/NUM_MONITORED differ from the model", inp0, [len(ref.states), len(ref.params), len(ref.assigns)],
                    [cmod.lib.const("NUM_STATES"), cmod.lib.const("NUM_PARAMS"), cmod.lib.const("NUM_MONITORED")])
            for which, names in (("state", ref.state_names), ("parameter", ref.param_names), ("monitor", list(ref.assigns))):
                idx = [cmod.index(which, n) for n in names]
                if sorted(idx) != list(range(len(names))):
                    add(f"{which}-index-not-a-bijection", f"{which}_index is not a bijection onto 0..n-1", inp0, list(range(len(names))), idx)
                if names and cmod.index(which, names[0] + "_nope") != -1:
                    add(f"{which}-index-accepts-unknown", f"{which}_index does not return -1 for an unknown name", inp0, -1, cmod.index(which, names[0] + "_nope"))
            for fn, got, want in (("init_state_values", cmod.init_states(), s0), ("init_parameter_values", cmod.init_params(), p0)):
                bad = {k: got.get(k) for k in want if not cm.vclose(got.get(k, math.nan), want[k], 0.0, 1e-12)}
                if bad:
                    exprs = {k: (ref.states.get(k) or ref.params.get(k)).expr_text for k in bad}
                    kind = "init:c-integer-division" if "int-quotient" in terr and all(_intdiv_explains(exprs[k], bad[k]) for k in bad) else tprefix + "init:value-mismatch"
                    add(kind, f"{fn} stores a value different from the declared default ({exprs})", inp0, {k: want[k] for k in bad}, bad, base=kind)
        except be.Stage as e:
            add(f"static-call-raises:{cm.exc_name(e.exc)}", "calling an index/init function fails", inp0, None, str(e))
        # ---- numeric part ------------------------------------------------------------------------
        nontriv_model = bool(ref.inter_names) or ref.max_depth() >= 2
        for pt in c["points"]:
            pt = cm.restrict_point(pt, ref)
            try:
                want, frag = ref.evaluate(pt["t"], pt["states"], pt["params"])
                scale = ref.last_maxabs
            except mg.RefError:
                continue
            if frag:
                continue
            res["evals"] += 1
            inp = {"ode": text, "points": [pt]}
            if nontriv_model and any(want[f"d{s}_dt"] != 0 for s in ref.states):
                res["nontrivial"].append(cm.sha([text, pt]))
            atol = cm.ref_atol(scale)
            if not terr and "mod-negative-operand" in ref.last_flags:
                cm.note(res, "skipped:general-model-point-with-negative-Mod-operand")
                continue
            try:
                np_mon = npm.monitor_values(pt)
            except be.Stage:
                np_mon = None
            try:
                got_rhs = cmod.rhs(pt)
                got_mon = cmod.monitor_values(pt)
            except be.Stage as e:
                add(f"call-raises:{cm.exc_name(e.exc)}", "calling generated C function fails", inp, None, str(e))
                continue
            bad = {}
            for n, v in got_mon.items():
                if not cm.close(v, want[n], 1e-9, atol):
                    if np_mon is not None and cm.close(np_mon.get(n, math.nan), v, 1e-9, atol):
                        cm.note(res, "skipped:numpy-disagrees-with-reference-too(C01)")
                        continue
                    bad[n] = v
            for s, v in got_rhs.items():
                if not cm.close(v, want[f"d{s}_dt"], 1e-9, atol) and f"d{s}_dt" not in bad:
                    if np_mon is not None and cm.close(np_mon.get(f"d{s}_dt", math.nan), v, 1e-9, atol):
                        continue
                    bad[f"rhs[{s}]"] = v
            if bad:
                names = [n for n in bad if n in ref.assigns] or [f"d{n[4:-1]}_dt" for n in bad]
                kind = None
                if terr:  # only a model in known-defect territory can be explained by a known defect
                    kind = diagnose(ref, pt, {n: bad[n] for n in bad if n in ref.assigns}, atol, terr)
                    if kind is None and "int-abs" in terr and any(re.search(r"(?<![A-Za-z_])abs\(", ln) for ln in c_lines(cmod.code, names)):
                        kind = "c-int-abs"
                    if kind is None and "int-quotient" in terr and "mod-sign" not in terr and any(re.search(r"(?<![\w.])\(?-?\d+\)?/\(?-?\d+\)?(?![\w.])", ln) for ln in c_lines(cmod.code, names)):
                        kind = "c-integer-division"  # an integer-literal quotient is printed on the failing line
                kind = kind or f"{tprefix}value-mismatch:{cm.main_feature(text, names)}"
                add(kind, f"C rhs/monitor_values differ from the reference for {sorted(bad)[:3]}", inp, {n: want.get(n) for n in names}, bad,
                    "C lines: " + "; ".join(c_lines(cmod.code, names))[:500], base="value-mismatch" if kind.startswith("value-mismatch") else None if terr else kind)
                if shr:
                    break
                continue
            # schemes against the NumPy module
            for sch in schemes:
                for dt in (0.01, 1.0):
                    try:
                        a = npm.scheme(sch, pt, dt)
                    except be.Stage:
                        continue
                    if not all(math.isfinite(v) for v in a.values()):
                        continue
                    try:
                        b = cmod.scheme(sch, pt, dt)
                    except be.Stage as e:
                        add(f"call-raises:{cm.exc_name(e.exc)}", f"calling C {sch} fails", inp, None, str(e))
                        continue
                    badk = {k: b[k] for k in a if not cm.close(a[k], b[k], 1e-9, 1e-9 * abs(pt["states"][k]) + atol)}
                    if badk:
                        kind = f"{tprefix}scheme-mismatch:{sch}"
                        add(kind, f"C {sch}(dt={dt}) differs from the NumPy module although rhs agrees", dict(inp, dt=dt), {k: a[k] for k in badk}, badk,
                            "C lines: " + "; ".join(c_lines(cmod.code, [f"d{k}_dt_linearized" for k in badk], fn=sch))[:500], base=kind)
                        break
    return res


def on_crash(case):
    res = cm.new_result()
    try:
        c = cm.materialize(case)
        res["evals"] = 1
        try:
            ref = mg.RefModel(c["ode"])
            terr = territory(ref)
        except Exception:  # noqa: BLE001
            ref, terr = None, []
        # the listed crash: the reference, re-evaluated with C int semantics for integer-literal quotients, divides by zero (`1/(1/4)`)
        # where the text itself is defined.  Any other crash gets another signature (no listed prefix is a prefix of it).
        sig = "C02:c-crash:integer-quotient-territory" if "int-quotient" in terr else "C02:c-crash:no-integer-quotient"
        if ref is not None and "int-quotient" in terr:
            for pt in c["points"][:1] + [{"t": 0.0, "states": ref.defaults()[0], "params": ref.defaults()[1]}]:
                pt = cm.restrict_point(pt, ref)
                try:
                    ref.evaluate(pt["t"], pt["states"], pt["params"])
                except mg.RefError:
                    continue
                try:
                    ref.evaluate(pt["t"], pt["states"], pt["params"], int_div=True)
                except mg.RefError as e:
                    if "zero" in str(e).lower():
                        sig = "C02:c-crash:integer-division-by-zero"
                        break
        res["failures"].append(cm.fail(sig, "calling the compiled C functions kills the process (signal, e.g. SIGFPE from an integer division by zero)" + ("" if "int-quotient" in terr else " - and the model has no integer-literal quotient"),
                                       dict({"ode": c["ode"], "points": c["points"]}, **({} if terr else {"general": True})), "values", "process died"))
    except Exception as e:  # noqa: BLE001
        res["errors"].append(f"worker crash and cannot materialize: {e}")
    return res


def _intdiv_explains(expr_text, got):
    try:
        v = mg._num(mg.ev(mg.parse_expr(expr_text), mg.Ctx(mg._no_lookup, int_div=True)))
        return cm.close(v, got, 1e-12)
    except Exception:  # noqa: BLE001
        return False


def diagnose(ref, pt, bad, atol, terr=("int-quotient", "mod-sign")):
    """does a hypothesised C semantics (of a class the model is in) reproduce every wrong value?"""
    if not bad:
        return None
    for kind, sw, need in (("c-integer-division", {"int_div": True}, {"int-quotient"}), ("c-fmod-sign", {"c_fmod": True}, {"mod-sign"}),
                           ("c-integer-division+fmod-sign", {"int_div": True, "c_fmod": True}, {"int-quotient", "mod-sign"})):
        if not need <= set(terr):
            continue
        try:
            alt, _ = ref.evaluate(pt["t"], pt["states"], pt["params"], names=list(bad), **sw)
        except mg.RefError:
            continue
        if all(cm.close(alt[n], bad[n], 1e-9, atol) for n in bad):
            return kind
    return None


def c_lines(code, names, fn="monitor_values"):
    m = re.search(r"void " + fn + r"\(.*?\n\}\n", code, re.S)
    body = m.group(0) if m else code
    out = []
    for n in names:
        mm = re.search(r"const double " + re.escape(n) + r" = (.*?);\n", body, re.S)
        if mm:
            out.append(f"{n} = " + " ".join(mm.group(1).split())[:200])
    return out


def slug(msg):
    return re.sub(r"[^A-Za-z0-9]+", "-", msg).strip("-")[:50].lower()


run, replay = cm.make_api(globals())
