"""C20: sympytools.states_matrix / rhs_matrix / jacobi_matrix are those of the model."""
from __future__ import annotations

import math

import numpy as np

import backends as be
import common as cm
import modelgen as mg

ID = "C20"
CASE_TIMEOUT = 90
SMOOTH = ["exp", "log", "ln", "sqrt", "sin", "cos", "atan", "tan", "pow", "sci", "t", "time", "unary", "intquot", "ContinuousConditional", "Gt", "Lt", "Ge", "Le"]
RULE = """(a) Chain models: x' = i_d, i_k = 0.9*i_(k-1) + 0.1*y (+ a diamond every 5th link), depth d = 1..40 (quick: 1..40, every depth), with 2
states; (b) modelgen models (1-4 states, 0-4 parameters, 0-8 intermediates in chain / diamond / random shapes; smooth functions, powers,
ContinuousConditional; every 3rd model also Conditional / abs / floor / Mod).  For each model: states_matrix(ode) must list the state
symbols in the order of the generated state_index table; rhs_matrix(ode) must be produced (any acyclic depth), contain no intermediate
symbol, and - evaluated with sympy at 3 points - equal the generated NumPy rhs entry by entry (rtol 1e-9, atol 1e-12 x (1 + largest
magnitude)); jacobi_matrix(ode) must be produced and equal the finite differences of the generated rhs WITH AN ERROR ESTIMATE: central
differences D(h), D(h/2) with h = 1e-4 (1 + |x_j|), Richardson value FD = (4 D(h/2) - D(h))/3; an entry is accepted when
|J - FD| <= 1e-6 (1 + |J|) + 50 |D(h) - D(h/2)| + rounding (8 eps max|f| / h) and skipped when the two estimates disagree by more than 1e-3
relative (next to a discontinuity).  General models do not use `pi` in expressions at all (parameter values like 2*pi stay): the known sympy
problem (rhs_matrix substitutes the intermediates and re-evaluates sin/cos/tan of a sum that now contains pi, dropping terms) is exercised by
the dedicated PI_TRIG models; a mismatch of a model in which pi reaches a trigonometric argument (directly or through the intermediates
mentioned there) is reported as C20:rhs-matrix-differs:trig-of-unevaluated-sum-with-pi.  One case = one (model, check, point).
rhs-matrix-raises / jacobian-raises:AttributeError get :boolean-used-arithmetically when the message names a sympy Boolean AND the text of
the derivatives (with what they depend on) uses a relational / logical value as a number (modelgen.boolean_in_arithmetic: `Ge(0.4 + u, u)*u`);
any other AttributeError keeps the bare signature.  Models whose NumPy module cannot be generated are skipped.  Non-trivial: the model has >= 1 intermediate; distinct by sha1(text, check,
point)."""


def chain_text(d, diamond=True):
    lines = ["parameters(a=0.9, b=0.1)", "states(x=0.5, y=-0.25)", "i1 = a*x + b*y"]
    for k in range(2, d + 1):
        if diamond and k % 5 == 0 and k > 2:
            lines.append(f"i{k} = a*i{k-1} + b*i{k-2}*y")
        else:
            lines.append(f"i{k} = a*i{k-1} + b*y")
    lines += [f"dx_dt = i{d} - x", "dy_dt = x - y*a"]
    return "\n".join(lines) + "\n"


# dedicated models of the KNOWN sympy problem: (intermediate, rate expression); pi reaches a trigonometric argument directly or through
# the substituted intermediate
PI_TRIG = [("2 - pi + x", "cos(i1)"), ("a*x + 2 - pi + b", "sin(i1)"), ("2 - pi + x", "tan(0.1*y) + cos(i1)"), ("x + pi", "cos(i1 + y)"), ("pi - x", "cos(i1 + y + 2)"), ("x + y + pi", "sin(i1)"),
           ("a*x + b", "sin(i1 + pi + y)"), ("a*x + b", "cos(2 - pi + i1)"), ("a*x + b", "cos(pi*i1)"), ("a*x + b", "sin(2*pi*t + i1)"), ("pi", "cos(x + i1 + y)"), ("pi/2", "sin(x + i1 + y)")]
NO_PI = [f for f in mg.ALL_FEATURES if f != "pi"]


def pi_text(i1, e):
    return f"parameters(a=0.9, b=0.1)\nstates(x=0.5, y=-0.25)\ni1 = {i1}\ndx_dt = {e} - x\ndy_dt = x - y*a\n"


def cases(tier, seed, focus):
    for i1, e in PI_TRIG:
        yield {"ode": pi_text(i1, e), "npts": 2, "tags": ["C20:rhs-matrix-differs:trig-of-unevaluated-sum-with-pi", "C20:jacobian-differs"]}
    for d in range(1, 41):
        yield {"ode": chain_text(d), "npts": 2, "depth": d, "tags": ["C20:rhs-matrix-raises", "C20:jacobian-raises"]}
    n = 150 if tier == "quick" else 1500
    for i in range(n):
        k = seed * 100003 + i
        yield {"mseed": k, "opts": {"features": SMOOTH if i % 3 else NO_PI, "n_states": [1, 4], "n_params": [0, 4], "n_inter": [0, 8], "depth": 2, "annotations": False}, "npts": 3, "tags": ["C20"]}
    if tier == "thorough":
        for d in range(41, 81, 3):
            yield {"ode": chain_text(d), "npts": 1, "depth": d, "tags": ["C20:rhs-matrix-raises"]}


def sym_eval(expr, subs):
    v = expr.xreplace(subs)
    v = complex(v.evalf(17, chop=False)) if v.free_symbols == set() else None
    if v is None or abs(v.imag) > 0:
        raise ValueError("not a real number")
    return v.real


def check(case):
    import sympy
    from gotranx import sympytools

    res = cm.new_result()
    try:
        c = cm.materialize(case)
        ref = mg.RefModel(c["ode"])
    except Exception as e:  # noqa: BLE001
        res["errors"].append(f"reference cannot read generated model: {cm.exc_name(e)}: {cm.short(e)}")
        return res
    text = c["ode"]
    res["sample"] = {"ode": text if len(text) < 1500 else text[:1500] + "...", "points": c["points"][:1]}
    depth = c.get("depth")

    def add(kind, what, pts=(), exp=None, act=None, detail=""):
        inp = {"ode": text, "points": list(pts)}
        if depth:
            inp["depth"] = depth
        res["failures"].append(cm.fail(f"C20:{kind}", what, inp, exp, act, detail))

    try:
        ode = cm.load(text)
        m = be.build(ode, "numpy")
    except Exception as e:  # noqa: BLE001
        cm.note(res, f"skipped:model-fails:{cm.exc_name(e)}")
        return res
    nontriv = bool(ref.inter_names)
    # states_matrix ------------------------------------------------------------------------------------
    res["evals"] += 1
    if nontriv:
        res["nontrivial"].append(cm.sha([text, "states"]))
    try:
        sm = sympytools.states_matrix(ode)
        order = [str(s) for s in sm]
        gen = [n for n, _ in sorted(m.state.items(), key=lambda kv: kv[1])]
        if order != gen:
            add("state-order-differs", "states_matrix order differs from the generated state_index order", (), gen, order)
    except Exception as e:  # noqa: BLE001
        add(f"states-matrix-raises:{cm.exc_name(e)}", "states_matrix raises", (), "matrix", cm.exc_name(e), cm.short(e))
        return res
    # rhs_matrix -------------------------------------------------------------------------------------------
    res["evals"] += 1

    def boolean_class(e):
        """':boolean-used-arithmetically' when a sympy Boolean is handled as a number (`'BooleanTrue' object has no attribute 'diff'`) and
        the TEXT of the derivatives (with what they depend on) uses a relational / logical value as a number: the listed finding (the
        relational becomes decidable once the intermediates are substituted); anything else keeps the bare signature"""
        return ":boolean-used-arithmetically" if isinstance(e, AttributeError) and "Boolean" in str(e) and ref.boolean_used_arithmetically(ref.deriv_names) else ""

    try:
        with cm.quiet():
            rm = sympytools.rhs_matrix(ode)
    except Exception as e:  # noqa: BLE001
        add(f"rhs-matrix-raises:{cm.exc_name(e)}{boolean_class(e)}", f"rhs_matrix raises for an acyclic model (dependency depth {depth or dep_depth(ref)})", (), "matrix", cm.exc_name(e), cm.short(e))
        rm = None
    try:
        with cm.quiet():
            jm = sympytools.jacobi_matrix(ode)
    except Exception as e:  # noqa: BLE001
        if rm is not None:
            add(f"jacobian-raises:{cm.exc_name(e)}{boolean_class(e)}", "jacobi_matrix raises although rhs_matrix works", (), "matrix", cm.exc_name(e), cm.short(e))
        jm = None
    if rm is None:
        return res
    inter_syms = {a.symbol for a in ode.intermediates}
    left = sorted(str(s) for s in rm.free_symbols & inter_syms)
    if left:
        add("rhs-matrix-keeps-intermediates", "rhs_matrix still contains intermediate symbols", (), [], left)
        return res
    sym = {s.name: s.symbol for s in ode.states}
    sym.update({p.name: p.symbol for p in ode.parameters})
    for pt in c["points"]:
        pt = cm.restrict_point(pt, ref)
        try:
            s, p = m.arrays(pt)
            f0 = m.raw("rhs", s, pt["t"], p)
        except be.Stage:
            continue
        if not np.all(np.isfinite(f0)):
            continue
        subs = {sym[k]: sympy.Float(v, 17) for k, v in list(pt["states"].items()) + list(pt["params"].items())}
        subs[ode.t] = sympy.Float(pt["t"], 17)
        res["evals"] += 1
        if nontriv:
            res["nontrivial"].append(cm.sha([text, "rhs", pt]))
        try:
            with cm.quiet():
                vals = [sym_eval(rm[i], subs) for i in range(rm.shape[0])]
        except Exception as e:  # noqa: BLE001
            cm.note(res, f"skipped:sympy-evaluation-fails:{cm.exc_name(e)}")
            continue
        scale = float(np.max(np.abs(s))) if len(s) else 0.0
        bad = {order[i]: vals[i] for i in range(len(order)) if not cm.vclose(vals[i], f0[i], scale)}
        terr = ":trig-of-unevaluated-sum-with-pi" if ref.pi_reaches_trig() else ""
        if bad:
            add("rhs-matrix-differs" + terr, f"rhs_matrix evaluated at a point differs from the generated rhs for {sorted(bad)}", [pt], {k: float(f0[order.index(k)]) for k in bad}, bad)
            continue
        if jm is None:
            continue
        if jm.shape != (len(order), len(order)):
            add("jacobian-shape", "jacobi_matrix has the wrong shape", [pt], [len(order)] * 2, list(jm.shape))
            continue
        res["evals"] += 1
        if nontriv:
            res["nontrivial"].append(cm.sha([text, "jac", pt]))
        try:
            with cm.quiet():
                J = np.array([[sym_eval(jm[i, j], subs) for j in range(len(order))] for i in range(len(order))])
        except Exception as e:  # noqa: BLE001
            cm.note(res, f"skipped:sympy-evaluation-fails:{cm.exc_name(e)}")
            continue
        # finite differences with an error estimate: D(h), D(h/2), Richardson extrapolation
        n = len(order)
        D = []
        fmax = np.abs(f0).reshape(-1, 1) * np.ones((1, n))
        hs = np.array([1e-4 * (1 + abs(s[j])) for j in range(n)])
        kink = np.zeros((len(order), n), dtype=bool)
        try:
            for fac in (1.0, 0.5):
                Jh = np.zeros_like(J)
                for j in range(n):
                    h = fac * hs[j]
                    sp, sm_ = s.copy(), s.copy()
                    sp[j] += h
                    sm_[j] -= h
                    fp, fm = m.raw("rhs", sp, pt["t"], p), m.raw("rhs", sm_, pt["t"], p)
                    Jh[:, j] = (fp - fm) / (2 * h)
                    fmax[:, j] = np.maximum(fmax[:, j], np.maximum(np.abs(fp), np.abs(fm)))
                    if fac == 0.5:
                        # one-sided slopes: where they disagree the point sits on a branch boundary of a Conditional (a kink or a
                        # jump), the rhs has no derivative there and a central difference is the mean of two different slopes
                        fwd, bwd = (fp - f0) / h, (f0 - fm) / h
                        with np.errstate(all="ignore"):
                            kink[:, j] = ~(np.abs(fwd - bwd) <= 0.05 * np.maximum(np.abs(fwd), np.abs(bwd)) + 1e-5)
                D.append(Jh)
        except be.Stage:
            cm.note(res, "skipped:rhs-raises-next-to-the-point")
            continue
        FD = (4 * D[1] - D[0]) / 3
        est = np.abs(D[0] - D[1])
        rounding = 8 * 2.2e-16 * fmax / (0.5 * hs.reshape(1, -1))
        with np.errstate(all="ignore"):
            unreliable = ~np.isfinite(FD) | (est > 1e-3 * np.maximum(np.abs(D[0]), np.abs(D[1])) + 1e-7) | kink
            tol = 1e-6 * (1 + np.abs(J)) + 50 * est + rounding
            wrong = ~unreliable & (np.abs(J - FD) > tol)
        if np.any(unreliable):
            cm.note(res, "jacobian-entries-skipped:finite-differences-unreliable", int(np.sum(unreliable)))
        badj = [(order[i], order[j], float(J[i, j]), float(FD[i, j]), float(tol[i, j])) for i in range(n) for j in range(n) if wrong[i, j]]
        if badj:
            add("jacobian-differs" + terr, f"jacobi_matrix entries differ from (Richardson) finite differences of the generated rhs: d(d{badj[0][0]}_dt)/d{badj[0][1]}", [pt], [b[3] for b in badj[:4]], [b[2] for b in badj[:4]],
                str([(b[0], b[1], f"tol={b[4]:.3g}") for b in badj[:4]]))
    m.close()
    return res


def dep_depth(ref):
    memo = {}

    def d(n):
        if n not in ref.assigns:
            return 0
        if n not in memo:
            memo[n] = 0
            memo[n] = 1 + max([d(x) for x in ref.assigns[n].deps] + [0])
        return memo[n]

    return max([d(n) for n in ref.deriv_names] + [0])


run, replay = cm.make_api(globals())
