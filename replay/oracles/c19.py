"""C19: generator-internal identifiers used as model names: behave like a renamed model, or generation raises."""
from __future__ import annotations

import math
import random

import backends as be
import common as cm
import modelgen as mg

ID = "C19"
CASE_TIMEOUT = 90
FRESH = "zq1"
SCHEMES = ["explicit_euler", "generalized_rush_larsen"]
NAMES = ["dt", "t", "time", "states", "parameters", "values", "shape", "missing_variables", "numpy", "math", "len", "name", "state", "parameter", "monitor", "missing",
         "lambda", "def", "for", "if", "return", "double", "int", "float", "const", "void", "exp", "pow", "log", "fabs", "jax", "_values_0", "_values_1", "values_0",
         "truex", "falsey", "true", "false", "xtruey", "dx_dt_linearized", "dy_dt_linearized", "dzq1_dt_linearized", "state_index", "init_state_values", "rhs", "key", "value",
         "None", "True", "print", "abs", "E", "I", "S", "N", "pi_", "inf", "nan", "M_PI", "NUM_STATES", "restrict", "name_", "strcmp", "self"]
TEMPLATES = {
    "state": "parameters(a=1.5, b=0.5)\nstates({N}=0.7, y=-0.4)\ni1 = a*{N} + y\nd{N}_dt = -b*{N} + i1*0.25 + sin(t)\ndy_dt = {N} - y*a + exp(-{N}*{N})\n",
    "parameter": "parameters({N}=1.5, b=0.5)\nstates(x=0.7, y=-0.4)\ni1 = {N}*x + y\ndx_dt = -b*x + i1*0.25 + sin(t)\ndy_dt = x - y*{N} + exp(-{N}*x)\n",
    "intermediate": "parameters(a=1.5, b=0.5)\nstates(x=0.7, y=-0.4)\n{N} = a*x + y\ndx_dt = -b*x + {N}*0.25 + sin(t)\ndy_dt = x - y*a + exp(-{N}*{N}) + abs(y)**1.5\n",
}
RULE = """Fixed identifier list (generator locals dt, t, time, states, parameters, values, shape, missing_variables; module names numpy, math,
jax; builtins / module globals len, name, state, parameter, monitor, missing, key, value, state_index, rhs, init_state_values; Python
and C keywords lambda, def, for, if, return, double, int, float, const, void, restrict; C library names exp, pow, log, fabs, strcmp,
M_PI, NUM_STATES; generator temporaries _values_0, _values_1, d<x>_dt_linearized; names containing true/false; sympy constants E, I,
S, N) x role (state, parameter, intermediate) x back end (numpy, C; jax for every 3rd identifier), plus, in thorough, the same identifiers
substituted for a random state / parameter / intermediate of modelgen models.  For each, a three-template model (two states, one or
two parameters, one intermediate, sin(t), exp, abs; no use of t when the identifier is t or time) is written once with the identifier and once with the fresh name zq1.  If loading or
generating the identifier variant raises, the case passes.  Otherwise the module must import/compile and index functions, init values,
rhs, monitor_values, explicit_euler and generalized_rush_larsen must equal the fresh-name module by name (identifier <-> zq1) at 3
points (rtol 1e-12).  One case = one (identifier, role, back end).  The fresh-name module must itself work on the back end, otherwise
the case is skipped.  Non-trivial: every case; distinct by (identifier, role, back end, model).  Before the fixed list, the generated code itself is asked (discover): the NumPy module of three 'rich' templates (own-state
derivatives with repeated sub-expressions, which a common-subexpression pass would pull into temporaries) is parsed and every name its
rhs / monitor / scheme functions bind - assignment targets and formals that are no model name - that is not in the fixed list is tried
as a state, parameter and intermediate of the rich templates in the same way."""


def _same(got, want, rtol, atol=1e-12) -> bool:
    """two generated modules are compared with each other: NaN where the renamed model gives NaN is the same behaviour"""
    if got is None:
        return False
    if math.isnan(float(want)):
        return math.isnan(float(got))
    return cm.close(got, want, rtol, atol)


# templates whose own-state derivatives repeat sub-expressions (what a common-subexpression pass would pull out into temporaries)
RICH = {
    "state": "parameters(a=1.5, b=0.5)\nstates({N}=0.7, y=-0.4)\ni1 = a*{N} + y\nd{N}_dt = -b*{N}*exp(a*{N}) + exp(a*{N})/(1 + exp(a*{N})) + i1*0.25\ndy_dt = {N} - y*a*exp(b*y) + exp(b*y)/(2 + exp(b*y))\n",
    "parameter": "parameters({N}=1.5, b=0.5)\nstates(x=0.7, y=-0.4)\ni1 = {N}*x + y\ndx_dt = -b*x*exp({N}*x) + exp({N}*x)/(1 + exp({N}*x)) + i1*0.25\ndy_dt = x - y*{N}*exp(b*y) + exp(b*y)/(2 + exp(b*y))\n",
    "intermediate": "parameters(a=1.5, b=0.5)\nstates(x=0.7, y=-0.4)\n{N} = a*x + y\ndx_dt = -b*x*exp(a*x) + exp(a*x)/(1 + exp(a*x)) + {N}*0.25\ndy_dt = x - y*a*exp(b*y) + exp(b*y)/(2 + exp(b*y)) + {N}\n",
}


def cases(tier, seed, focus):
    k = 0
    # first: let the generated code itself say which names it uses for its own variables (see discover)
    yield {"discover": True, "probe": True, "identifier": "", "role": "state", "backends": ["numpy", "c"], "tags": ["C19"]}
    for i, nm in enumerate(NAMES):
        for role in TEMPLATES:
            bes = ["numpy", "c"] + (["jax"] if (i % 3 == 0 or nm.startswith("_values") or nm in ("jax", "numpy")) else [])
            yield {"identifier": nm, "role": role, "backends": bes, "tags": [f"C19:{b}" for b in bes]}
    if tier == "thorough":
        rng = random.Random(seed)
        for j in range(400):
            nm = NAMES[j % len(NAMES)]
            yield {"identifier": nm, "role": ["state", "parameter", "intermediate"][j % 3], "mseed": seed * 100003 + j, "backends": ["numpy", "c"], "tags": ["C19"]}


def texts(c):
    nm, role = c["identifier"], c["role"]
    if "base" in c:
        return c["base"], c["variant"]
    if "mseed" in c:
        m = mg.gen_model(int(c["mseed"]), mg.GenOpts(n_states=(2, 3), n_params=(1, 3), n_inter=(1, 3), annotations=False, own=0.5, own_forms=("linear", "exp", "square")))
        ref = m.ref()
        pool = {"state": ref.state_names, "parameter": ref.param_names, "intermediate": ref.inter_names}[role]
        if not pool:
            return None, None
        import re

        old = pool[0]
        sub = lambda new: re.sub(r"(?<![A-Za-z0-9_])(d?)" + re.escape(old) + r"(_dt)?(?![A-Za-z0-9_])", lambda mm: (mm.group(1) + new + (mm.group(2) or "")) if (mm.group(1) == "" or mm.group(2)) else mm.group(0), m.text)  # noqa: E731
        return sub(FRESH), sub(nm)
    tpl = (RICH if c.get("tpl") == "rich" else TEMPLATES)[role]
    if nm in ("t", "time"):  # the model must not use the same spelling for the time variable
        tpl = tpl.replace(" + sin(t)", "")
    return tpl.format(N=FRESH), tpl.format(N=nm)


def discover():
    """identifiers that the generated NumPy functions bind themselves (assignment targets and formals that are no model name), read
    from the code generated for the rich templates with the fresh name: whatever a generator or scheme introduces shows up here"""
    import ast as _ast

    found = set()
    for role, tpl in RICH.items():
        text = tpl.format(N=FRESH)
        try:
            ode = cm.load(text)
            code = cm.py_code(ode, SCHEMES)
            ref = mg.RefModel(text)
        except Exception:  # noqa: BLE001
            continue
        model_names = set(ref.states) | set(ref.params) | set(ref.assigns)
        for fn in [n for n in _ast.walk(_ast.parse(code)) if isinstance(n, _ast.FunctionDef)]:
            if fn.name.endswith("_index") or fn.name.startswith("init_"):
                continue  # model names are only strings / keywords there
            for n in _ast.walk(fn):
                if isinstance(n, _ast.Name) and isinstance(n.ctx, _ast.Store) and n.id not in model_names:
                    found.add(n.id)
                elif isinstance(n, _ast.arg) and n.arg not in model_names:
                    found.add(n.arg)
    return sorted(found)


def check(case):
    if case.get("discover"):
        res = cm.new_result()
        names = [n for n in discover() if n not in NAMES]
        cm.note(res, f"discovered-generator-names:{len(names)}")
        for nm_ in names:
            for role_ in RICH:
                sub = check({"identifier": nm_, "role": role_, "tpl": "rich", "backends": case.get("backends", ["numpy"])})
                for k_ in ("failures", "errors", "nontrivial"):
                    res[k_] += sub[k_]
                res["evals"] += sub["evals"]
        return res
    res = cm.new_result()
    c = dict(case)
    nm, role = c["identifier"], c["role"]
    base_text, var_text = texts(c)
    if base_text is None:
        return res
    res["sample"] = {"identifier": nm, "role": role, "variant": var_text}
    try:
        base_ode = cm.load(base_text)
        ref = mg.RefModel(base_text)
    except Exception as e:  # noqa: BLE001
        res["errors"].append(f"fresh-name model does not load: {cm.exc_name(e)}: {cm.short(e)}")
        return res
    try:
        var_ode = cm.load(var_text)
    except Exception as e:  # noqa: BLE001 - rejected: fine
        res["evals"] += 1
        cm.note(res, f"rejected-at-load:{cm.exc_name(e)}")
        return res
    import random as _r

    pts = mg.valid_points(ref, _r.Random(7), 3)
    ren = lambda n: nm if n == FRESH else (f"d{nm}_dt" if n == f"d{FRESH}_dt" else n)  # noqa: E731
    for bk in c.get("backends", ["numpy"]):
        def add(mode, what, exp=None, act=None, detail=""):
            res["failures"].append(cm.fail(f"C19:{bk}:{mode}:{nm}", what, {"identifier": nm, "role": role, "backends": [bk], "base": base_text, "variant": var_text, "tpl": c.get("tpl")}, exp, act, detail))

        try:
            b = be.build(base_ode, bk, SCHEMES)
            for pt in pts[:1]:
                b.rhs(pt), b.monitor_values(pt) if bk != "jax" else None
        except be.Stage as e:
            cm.note(res, f"skipped:{bk}:fresh-name-model-fails")
            continue
        res["evals"] += 1
        res["nontrivial"].append(cm.sha([nm, role, bk, var_text]))
        try:
            v = be.build(var_ode, bk, SCHEMES)
        except be.Stage as e:
            if e.stage == "codegen":
                cm.note(res, f"rejected-at-generation:{cm.exc_name(e.exc)}")
            else:
                add("generated-code-invalid", f"{role} named {nm!r}: generation succeeds but the {bk} code does not {'compile' if e.stage == 'compile' else 'import'}", "working module or a generation error",
                    cm.exc_name(e.exc), (str(e) + " " + e.detail)[:500])
            b.close()
            continue
        with b, v:
            try:
                if sorted(ren(n) for n in b.state) != sorted(v.state) or sorted(ren(n) for n in b.parameter) != sorted(v.parameter) or sorted(ren(n) for n in b.monitor) != sorted(v.monitor):
                    add("tables-differ", f"{role} named {nm!r}: index tables differ from the renamed model", [sorted(b.state), sorted(b.parameter), sorted(b.monitor)], [sorted(v.state), sorted(v.parameter), sorted(v.monitor)])
                    continue
                ib, iv = b.init_states(), v.init_states()
                pb, pv = b.init_params(), v.init_params()
                badi = {ren(k): iv.get(ren(k)) for k in ib if not _same(iv.get(ren(k)), ib[k], 1e-12)}
                badi.update({ren(k): pv.get(ren(k)) for k in pb if not _same(pv.get(ren(k)), pb[k], 1e-12)})
                if badi:
                    add("silently-wrong", f"{role} named {nm!r}: init values differ from the renamed model", None, badi, "init")
                    continue
            except be.Stage as e:
                add("call-raises", f"{role} named {nm!r}: {e.detail} raises {cm.exc_name(e.exc)}", "values", cm.exc_name(e.exc), str(e))
                continue
            done = False
            for pt in pts:
                vpt = {"t": pt["t"], "states": {ren(k): x for k, x in pt["states"].items()}, "params": {ren(k): x for k, x in pt["params"].items()}}
                for fn, dt in (("rhs", None), ("monitor_values", None), ("explicit_euler", 0.3), ("generalized_rush_larsen", 0.3)):
                    if bk == "jax" and fn == "monitor_values":
                        continue
                    try:
                        want = b.monitor_values(pt) if fn == "monitor_values" else b.rhs(pt) if fn == "rhs" else b.scheme(fn, pt, dt)
                    except be.Stage:
                        continue
                    try:
                        got = v.monitor_values(vpt) if fn == "monitor_values" else v.rhs(vpt) if fn == "rhs" else v.scheme(fn, vpt, dt)
                    except be.Stage as e:
                        add("call-raises", f"{role} named {nm!r}: {fn} raises {cm.exc_name(e.exc)} (renamed model works)", "values", cm.exc_name(e.exc), str(e))
                        done = True
                        break
                    bad = {ren(k): got.get(ren(k)) for k in want if not _same(got.get(ren(k)), want[k], 1e-12, 1e-300)}
                    if bad:
                        add("silently-wrong", f"{role} named {nm!r}: {fn} differs from the same model with the name {FRESH}", {ren(k): want[k] for k in want if ren(k) in bad}, bad, f"{fn} dt={dt} point={vpt}")
                        done = True
                        break
                if done:
                    break
    return res


run, replay = cm.make_api(globals())
