"""C14: generated NumPy functions are vectorised: column j of a batched call == the call on column j."""
from __future__ import annotations

import random

import numpy as np

import backends as be
import common as cm
import modelgen as mg

ID = "C14"
USES_SHRINK = True
CASE_TIMEOUT = 60
SCHEMES = ["explicit_euler", "generalized_rush_larsen", "hybrid_rush_larsen"]
RULE = """Models from modelgen.gen_model (1-4 states, 0-4 parameters, 0-6 intermediates, conditionals / And / Or with 2-4 operands / Not /
floor / Mod / abs forced in rotation, own-state terms incl. abs so that Rush-Larsen linearisations contain sign()) plus one-line probe
models whose columns are chosen on both sides of every condition.  The NumPy module (rhs, monitor_values, missing_values,
explicit_euler, generalized_rush_larsen, hybrid_rush_larsen) is called with states of shape (n_states, N), N = 5 columns (default point,
random, integer-valued and sign-flipped points, each valid on its own), in three input modes: shared parameters + scalar t,
per-column parameters (n_parameters, N) + scalar t, per-column parameters + per-column t.  One case = one (model, function, mode): the
call must succeed, return shape (n_out, N), and column j must equal (rtol 1e-8, atol 1e-12 x (1 + magnitude)) the result of calling the same function on column j
alone.  Non-trivial: at least two columns give different single-column results; distinct by sha1(text, function, mode, columns)."""

PROBES = [
    "Conditional(Gt(x, 0), 1, 2)", "Conditional(And(Gt(x, 0), Lt(y, 1)), 1, 2)", "Conditional(And(Gt(x, 0), Lt(y, 1), Ge(x, 0.5)), 1, 2)", "Conditional(And(Gt(x, 0), Lt(y, 1), Ge(a, 0.5)), 1, 2)",
    "Conditional(Or(Lt(x, 0), Gt(y, 2)), 1, 2)", "Conditional(Or(Lt(x, 0), Gt(y, 2), Ge(x, 2.5)), x, y)", "Conditional(Or(Lt(x, 0), Gt(y, 2), Ge(a, 2.5)), x, y)", "Conditional(Not(Lt(x, y)), 1, 2)", "Conditional(Not(Eq(x, y)), 1, 2)",
    "Conditional(Not(And(Lt(x, 0), Gt(y, 0))), x, y)", "Conditional(Or(And(Lt(x, 0), Gt(y, 0)), Ge(x, 3)), x, y)", "Conditional(Lt(x, 1), Conditional(Gt(y, 1), 1, 2), 3)", "Conditional(Eq(x, 1.5), 1, 2)",
    "Lt(x, y) + 1", "ContinuousConditional(Gt(x, 1), 2, 3, 0.5)", "Mod(x, 3)", "Mod(x, y)", "floor(x/2)", "floor(x) - floor(y)", "abs(x - 1)", "-abs(x)*x", "abs(x)*abs(y)", "x**(1/3)", "1/4*x", "exp(-x)*log(y**2 + 1)",
    "Conditional(Gt(t, 1), x, y)", "Conditional(Gt(a, 1), x, y)", "pi*x + t + time", "2.5", "a", "t",
]
PROBE_COLS = [(1.5, 2.0), (-2.5, 0.5), (0.0, -1.0), (3.0, 3.0), (0.5, 1.5), (1.5, 1.5)]


def probe_text(e):
    return f"parameters(a=2.0, b=1/4)\nstates(x=1.5, y=2.0)\nw0 = {e}\ndx_dt = w0 - abs(x)\ndy_dt = b - y*abs(x) + w0\n"


def cases(tier, seed, focus):
    n = 260 if tier == "quick" else 3000
    for e in PROBES:
        cols = [{"t": 0.5 + 0.5 * j, "states": {"x": x, "y": y}, "params": {"a": [2.0, 0.3, 3.0][j % 3], "b": 0.25}} for j, (x, y) in enumerate(PROBE_COLS)]
        yield {"ode": probe_text(e), "points": cols, "tags": ["C14"]}
    forms = ["abs", "linear", "cond", "exp", "ccond", "square", "cond_own_in_cond_only", "sqrt"]
    for i in range(n):
        k = seed * 100003 + i
        force = [["And3", "Or3", "Not", "floor", "Mod", "abs", "nestcond", "And2", "Or2", "Eq", "ContinuousConditional", "relarith"][i % 12]]
        yield {"mseed": k, "opts": {"force": force, "n_states": [1, 4], "n_params": [0, 4], "n_inter": [0, 6], "own": 0.6, "own_forms": forms[i % len(forms):] + forms[: i % len(forms)],
                                    "int_states": i % 2 == 0}, "npts": 5, "spread": 1.0, "tags": ["C14"]}


def check(case):
    res = cm.new_result()
    try:
        c = cm.materialize(case)
        ref = mg.RefModel(c["ode"])
    except Exception as e:  # noqa: BLE001
        res["errors"].append(f"reference cannot read generated model: {cm.exc_name(e)}: {cm.short(e)}")
        return res
    text = c["ode"]
    shr = not case.get("_noshrink")
    only = c.get("only")
    cols = [cm.restrict_point(p, ref) for p in c["points"]]
    res["sample"] = {"ode": text, "points": cols[:2]}
    if len(cols) < 2:
        cm.note(res, "skipped:fewer-than-2-valid-columns")
        return res
    try:
        ode = cm.load(text)
    except Exception as e:  # noqa: BLE001
        cm.note(res, f"skipped:loader-rejects:{cm.exc_name(e)}")
        return res
    req = [k for k in (c.get("missing") or {}) if k in ref.assigns or k in ref.states or k in ref.params]
    req = {k: i for i, k in enumerate(req)} or {k: i for i, k in enumerate(ref.inter_names[:2] + ref.state_names[:1])}
    stiff = [ref.state_names[0]]
    schemes = SCHEMES
    try:
        m = be.build(ode, "numpy", schemes, stiff_states=stiff, missing_values=req)
    except be.Stage:
        schemes = []
        try:
            m = be.build(ode, "numpy", missing_values=req)
        except be.Stage as e:
            cm.note(res, f"skipped:numpy-{e.stage}-fails(C01)")
            return res

    def add(kind, what, inp, exp=None, act=None, detail=""):
        f = cm.fail(f"C14:{kind}", what, dict(inp, missing=req), exp, act, detail)
        if shr:
            f["_shrink"] = {"base": f"C14:{kind}"}
        res["failures"].append(f)

    S = np.array([m.arrays(p)[0] for p in cols]).T  # (n_states, N)
    P = np.array([m.arrays(p)[1] for p in cols]).T  # (n_params, N)
    T = np.array([p["t"] for p in cols])
    N = len(cols)
    fns = [("rhs", None, m.n_states), ("monitor_values", None, m.n_mon), ("missing_values", None, len(req))] + [(s, 0.1, m.n_states) for s in schemes]
    modes = {"shared-params": lambda: (S, cols[0]["t"], P[:, 0].copy()), "column-params": lambda: (S, cols[0]["t"], P), "column-params-and-t": lambda: (S, T, P)}
    for fn, dt, n_out in fns:
        for mode, mk in modes.items():
            if only and [fn, mode] != list(only):
                continue
            s, t, p = mk()
            if mode != "shared-params" and P.shape[0] == 0:
                continue
            single = []
            try:
                for j in range(N):
                    pj = p if p.ndim == 1 else p[:, j].copy()
                    tj = t if np.ndim(t) == 0 else float(t[j])
                    single.append(m.raw(fn, S[:, j].copy(), tj, pj, dt=dt))
            except be.Stage:
                cm.note(res, "skipped:single-column-call-fails(C01)")
                continue
            single = np.array(single).T  # (n_out, N)
            if not np.all(np.isfinite(single)):
                continue
            res["evals"] += 1
            inp = {"ode": text, "points": cols, "only": [fn, mode]}
            if np.any(single != single[:, :1]):
                res["nontrivial"].append(cm.sha([text, fn, mode, cols]))
            try:
                got = m.raw(fn, s.copy(), t, p.copy(), dt=dt)
            except be.Stage as e:
                add(f"batch-call-raises:{cm.exc_name(e.exc)}:{cm.msg_key(e.exc)}", f"{fn} raises for states of shape {S.shape} ({mode}) although every column works alone", inp, "array", cm.exc_name(e.exc), str(e))
                continue
            if got.shape != (n_out, N):
                add(f"wrong-shape:{grp(fn)}", f"{fn} returns shape {got.shape} for states of shape {S.shape} ({mode}); expected {(n_out, N)}", inp, [n_out, N], list(got.shape))
                continue
            scale = 0.0
            for col in cols:  # absolute-error scale: the largest operand of an addition / Mod / trigonometric function met at any column
                try:
                    ref.evaluate(col["t"], col["states"], col["params"])
                    scale = max(scale, float(ref.last_maxabs))
                except Exception:  # noqa: BLE001
                    pass
            bad = [(i, j) for i in range(n_out) for j in range(N) if not cm.vclose(got[i, j], single[i, j], scale, 1e-8)]  # numpy's vectorised pow/exp may differ from the scalar path by an ulp, which sin/cos of a large argument amplifies; a vectorisation fault is an O(1) difference
            if bad:
                add(f"column-differs:{grp(fn)}", f"{fn} ({mode}): entries {bad[:4]} of the batched result differ from the single-column calls", inp,
                    [cm.tolist(single[i]) for i in sorted({i for i, _ in bad})][:3], [cm.tolist(got[i]) for i in sorted({i for i, _ in bad})][:3])
        if shr and res["failures"]:
            break
    return res


def grp(fn):
    return fn if fn in ("rhs", "monitor_values", "missing_values") else "scheme"


run, replay = cm.make_api(globals())
