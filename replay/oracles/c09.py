"""C09: generated code / slot layout are reproducible across processes (PYTHONHASHSEED), across
repetition in one process and independent of earlier calls in the same process."""
from __future__ import annotations

import glob
import itertools
import json
import os
import random
import re
import subprocess
from concurrent.futures import ThreadPoolExecutor

import backends as bk
import common as cm
import modelgen as mg

ID = "C09"
NPROC = 5  # every hashseed case runs up to 4 child interpreters concurrently
CASE_TIMEOUT = 150
RULE = """(1) hashseed: modelgen models (2-6 states, 2-6 parameters, 3-10 intermediates in chain/diamond/random DAGs,
1-3 components, shuffled definition order; quick ~40 groups of 3 models, thorough ~450 groups) and the repository
.ode files (quick: lorentz, fitzhughnagumo, beeler_reuter with all configurations and ORdmm_Land rhs-only; thorough:
all six files, all configurations) are generated in one fresh interpreter per PYTHONHASHSEED (quick 0..3, thorough
0..7) through gotran2py/gotran2c.get_code(format none) under configurations {numpy, C} x {no scheme, [explicit_euler,
generalized_rush_larsen, hybrid_rush_larsen(stiff = first state)]} x remove_unused {False, True} (every generated
model: numpy/no-scheme plus two rotating configurations); the texts must be byte-identical, and the state / parameter /
monitor index tables read from the texts must be equal.  (2) repeat/history, in process: generate twice from one ODE
object, from a re-loaded ODE object, and A, B, A -> same text for A.  (3) scheme names: for every ordered pair of
aliases of one scheme function (20 pairs) f = get_scheme(a); get_scheme(b); CodeGenerator(ode).scheme(f) must equal
the text produced right after get_scheme(a) (numpy and C generators); get_code(scheme=<orderings of all five Scheme
members>) must emit the functions in the requested order under the requested names, each identical to the
single-scheme output, also after other get_code calls.  One case (eval) = one (model, configuration) compared
across all hash seeds, or one in-process sequence.  A case is non-trivial when the model has >= 2 assignments with >= 2
dependencies each (only there can set iteration order leak); distinct by sha1(model text, configuration / sequence)."""

SCHEMES3 = ["explicit_euler", "generalized_rush_larsen", "hybrid_rush_larsen"]
CONFIGS = [  # [backend, with schemes, remove_unused]
    ["py", False, False], ["c", False, False], ["py", True, False], ["c", True, True], ["py", False, True], ["c", True, False],
    ["py", True, True], ["c", False, True],
]
ALIASES = [["forward_euler", "forward_explicit_euler", "euler", "explicit_euler"],
           ["forward_generalized_rush_larsen", "generalized_rush_larsen"],
           ["forward_rush_larsen", "rush_larsen", "hybrid_rush_larsen"]]
MEMBERS = ["explicit_euler", "generalized_rush_larsen", "forward_explicit_euler", "forward_generalized_rush_larsen", "hybrid_rush_larsen"]
SMALL_FILES = ["/repo/tests/odefiles/lorentz.ode", "/repo/tests/odefiles/fitzhughnagumo.ode", "/repo/tests/odefiles/beeler_reuter_1977.ode"]
LORENTZ = "parameters(sigma=12.0, rho=21.0, beta=2.4)\nstates(x=1.0, y=2.0, z=3.05)\ndx_dt = sigma*(y - x)\ndy_dt = x*(rho - z) - y\ndz_dt = x*y - beta*z\n"
GEN = {"n_states": [2, 6], "n_params": [2, 6], "n_inter": [3, 10], "n_comps": [1, 3], "shuffle": 0.7, "depth": 2}
SMALLGEN = {"n_states": [2, 3], "n_params": [1, 2], "n_inter": [2, 4], "n_comps": [0, 1], "shuffle": 0.8, "depth": 1, "annotations": False}

CHILD = r"""
import sys, json
sys.path.insert(0, %r)
import common as cm
items = json.load(open(sys.argv[1]))
out = []
for it in items:
    r = {}
    try:
        ode = cm.load(it["ode"])
        kw = {"remove_unused": it["remove_unused"]}
        if it["schemes"]:
            kw["stiff_states"] = it["stiff_states"]
        r["code"] = (cm.c_code if it["backend"] == "c" else cm.py_code)(ode, it["schemes"], **kw)
    except Exception as e:
        r["exc"] = cm.exc_site(e)
        r["msg"] = cm.short(e)
    out.append(r)
json.dump(out, open(sys.argv[2], "w"))
""" % cm.HERE


def repo_files():
    seen, out = set(), []
    for f in sorted(glob.glob("/repo/**/*.ode", recursive=True)):
        h = cm.sha(open(f).read())
        if h not in seen and "/.git/" not in f:
            seen.add(h)
            out.append(f)
    return out


# names that differ only in case (legal and common: K / k, Cm / cm, V / v): whatever orders name-unique sets must still tell them apart
CASE_VARIANT_ODE = (
    "parameters(K=1.5, k=0.5, Cm=2.0, cm=0.25, R=3.0, r=0.1)\nstates(V=-0.3, v=0.7, N=0.2, n=0.9)\n"
    "I_K = K*V - k*v\ni_k = Cm*N + cm*n\nG = R*I_K\ng = r*i_k\n"
    "dV_dt = -I_K + g\ndv_dt = i_k - G*v\ndN_dt = V - N*R\ndn_dt = v - n*r\n")
CASE_VARIANT_ODE2 = (
    "parameters(\"A\", Ko=5.4, ko=0.3)\nparameters(\"B\", GNa=11.0, gna=0.7)\nstates(\"A\", X=1.0, x=2.0)\nstates(\"B\", Y=0.5, y=1.5)\n"
    "expressions(\"A\")\nW = Ko*X + y\nw = ko*x + Y\ndX_dt = -W\ndx_dt = -w\n"
    "expressions(\"B\")\nU = GNa*Y - w\nu = gna*y - W\ndY_dt = U\ndy_dt = u\n")


def cases(tier, seed, focus):
    quick = tier == "quick"
    hs = list(range(4 if quick else 8))
    rng = random.Random(f"C09/{seed}")
    tg_h = ["C09:hashseed"]
    hist = list(history_cases(seed, quick))
    files = SMALL_FILES if quick else repo_files()
    filecases = [{"kind": "hashseed", "files": [f], "configs": list(range(len(CONFIGS))), "hashseeds": hs, "tags": tg_h} for f in files]
    if quick:
        filecases.insert(0, {"kind": "hashseed", "files": ["/repo/tests/odefiles/ORdmm_Land.ode"], "configs": [0, 1], "hashseeds": hs, "tags": tg_h})
    else:  # large files: one case per configuration pair
        big = [c for c in filecases if os.path.getsize(c["files"][0]) > 10000]
        filecases = [c for c in filecases if c not in big]
        for c in big:
            for k in range(0, len(CONFIGS), 2):
                filecases.append(dict(c, configs=[k, k + 1]))
    ngroups = 40 if quick else 450
    gens = [{"kind": "hashseed", "models": [{"ode": CASE_VARIANT_ODE, "configs": [0, 1, 2]}, {"ode": CASE_VARIANT_ODE2, "configs": [0, 1]}], "hashseeds": hs, "tags": tg_h}]
    for g in range(ngroups):
        ms = []
        for j in range(3):
            k = seed * 100003 + g * 3 + j
            ms.append({"mseed": k, "opts": SMALLGEN if j == 0 else GEN, "configs": [0] + rng.sample(range(1, len(CONFIGS)), 2)})
        gens.append({"kind": "hashseed", "models": ms, "hashseeds": hs, "tags": tg_h})
    nrep = 12 if quick else 120
    reps = [{"kind": "repeat", "models": [{"mseed": seed * 100003 + 50000 + 2 * i + j, "opts": GEN} for j in range(2)], "config": i % len(CONFIGS),
             "tags": ["C09:repeat", "C09:history-dependent-output"]} for i in range(nrep)]
    # interleave: cheap in-process kinds first, the file cases early
    streams = [iter(hist), iter(filecases), iter(gens[0::2]), iter(reps), iter(gens[1::2])]
    while streams:
        for s in list(streams):
            c = next(s, None)
            if c is None:
                streams.remove(s)
            else:
                yield c


def history_cases(seed, quick):
    rng = random.Random(f"C09h/{seed}")
    t1, t2 = ["C09:history-dependent-scheme"], ["C09:history-dependent-get_code", "C09:order-dependent"]
    for gen in ("py", "c"):
        for grp in ALIASES:
            for a, b in itertools.permutations(grp, 2):
                yield {"kind": "scheme-name", "gen": gen, "seq": [a, b], "tags": t1, "sample": (a, b, gen) == ("forward_euler", "euler", "py")}
        # controls: name restored / other function touched
        yield {"kind": "scheme-name", "gen": gen, "seq": ["forward_euler", "euler", "forward_euler"], "tags": t1}
        yield {"kind": "scheme-name", "gen": gen, "seq": ["euler", "rush_larsen", "generalized_rush_larsen"], "tags": t1}
    perms = list(itertools.permutations(MEMBERS))
    rng.shuffle(perms)
    n = 6 if quick else 40
    for i in range(n):
        yield {"kind": "get_code-order", "gen": ["py", "c"][i % 2], "order": list(perms[i]), "before": list(perms[-1 - i]), "tags": t2, "sample": i == 0}
    for i in range(n):
        k = rng.randint(2, 4)
        yield {"kind": "get_code-order", "gen": ["py", "c"][i % 2], "order": rng.sample(MEMBERS, k), "before": rng.sample(MEMBERS, k), "tags": t2}


# --------------------------------------------------------------------------------------
def model_text(m):
    if "ode" in m:
        return m["ode"]
    if "file" in m:
        return open(m["file"]).read()
    return cm.materialize({"mseed": m["mseed"], "opts": m.get("opts"), "points": []})["ode"]


def nontrivial(text):
    try:
        ref = mg.RefModel(text)
    except Exception:  # noqa: BLE001
        return False, None
    return sum(1 for a in ref.assigns.values() if len(a.deps) >= 2) >= 2, ref


def item(text, cfg, ref):
    backend, with_s, ru = cfg
    stiff = [ref.state_names[0]] if (ref is not None and ref.state_names) else None
    return {"ode": text, "backend": backend, "schemes": SCHEMES3 if with_s else [], "remove_unused": bool(ru), "stiff_states": stiff}


def run_child(items, hashseed, d):
    job, out = os.path.join(d, f"job{hashseed}.json"), os.path.join(d, f"out{hashseed}.json")
    with open(job, "w") as f:
        json.dump(items, f)
    env = dict(os.environ, PYTHONHASHSEED=str(hashseed))
    r = subprocess.run([cm.PY, "-c", CHILD, job, out], capture_output=True, text=True, env=env, cwd=d)
    if r.returncode != 0 or not os.path.exists(out):
        raise RuntimeError(f"child (PYTHONHASHSEED={hashseed}) failed rc={r.returncode}: {r.stderr[-400:]}")
    return json.load(open(out))


def tables(code, backend):
    if backend == "c":
        return {k: bk.c_index_table(code, k) for k in ("state", "parameter", "monitor")}
    ns = cm.exec_py(code)
    return {k: dict(ns[k]) for k in ("state", "parameter", "monitor")}


def first_diff(a, b):
    la, lb = a.splitlines(), b.splitlines()
    for i, (x, y) in enumerate(zip(la, lb)):
        if x != y:
            return f"line {i + 1}: {x.strip()[:110]!r} vs {y.strip()[:110]!r}"
    return f"length {len(la)} vs {len(lb)} lines"


def check_hashseed(case, res):
    if "config" in case:  # stored form: one model, one configuration
        items_src = [(case, {"ode": case["ode"]} if "ode" in case else {"file": case["file"]}, case["config"])]
    else:
        items_src = []
        for f in case.get("files") or []:
            items_src += [(None, {"file": f}, CONFIGS[k]) for k in case["configs"]]
        for m in case.get("models") or []:
            items_src += [(None, m, CONFIGS[k]) for k in m["configs"]]
    items, meta = [], []
    for _, m, cfg in items_src:
        text = model_text(m)
        nt, ref = nontrivial(text)
        items.append(item(text, cfg, ref))
        meta.append((m, text, cfg, nt))
    if res["sample"] is None and items:
        res["sample"] = {"kind": "hashseed", "ode": items[0]["ode"][:2000], "config": meta[0][2], "hashseeds": case["hashseeds"]}
    hs = list(case["hashseeds"])
    with cm.tempdir("c09_") as d:
        with ThreadPoolExecutor(max_workers=4) as ex:
            futs = {h: ex.submit(run_child, items, h, d) for h in hs}
            outs = {}
            for h, fu in futs.items():
                try:
                    outs[h] = fu.result()
                except Exception as e:  # noqa: BLE001
                    res["errors"].append(f"C09 child: {cm.short(e, 500)}")
    hs = [h for h in hs if h in outs]
    if len(hs) < 2:
        return
    for i, (m, text, cfg, nt) in enumerate(meta):
        res["evals"] += 1
        rs = {h: outs[h][i] for h in hs}
        h0 = hs[0]
        if all("exc" in r for r in rs.values()) and len({r["exc"] for r in rs.values()}) == 1:
            cm.note(res, "skipped:base-model-fails")
            continue
        if nt:
            res["nontrivial"].append(cm.sha([text, cfg]))
        other = next((h for h in hs[1:] if rs[h] != rs[h0]), None)
        if other is None:
            continue
        inp = {"kind": "hashseed", "config": cfg, "hashseeds": [h0, other]}
        if "file" in m:
            inp["file"] = m["file"]
            cm.note(res, f"hashseed-dependent-file:{os.path.basename(m['file'])}")
        else:
            inp["ode"] = text
        a, b = rs[h0], rs[other]
        nd = len({json.dumps(r, sort_keys=True) for r in rs.values()})
        if "exc" in a or "exc" in b:
            res["failures"].append(cm.fail("C09:hashseed-dependent-exception", "code generation raises under one PYTHONHASHSEED and not (or differently) under another", inp,
                                           a.get("exc", "code"), b.get("exc", "code"), f"{a.get('msg', '')} | {b.get('msg', '')}"))
            continue
        try:
            ta, tb = tables(a["code"], cfg[0]), tables(b["code"], cfg[0])
        except Exception as e:  # noqa: BLE001
            res["errors"].append(f"C09: cannot read index tables: {cm.exc_name(e)}: {cm.short(e)}")
            continue
        detail = f"{nd} distinct texts over PYTHONHASHSEED {hs}; first difference {first_diff(a['code'], b['code'])}"
        bad = [k for k in ("state", "parameter", "monitor") if ta[k] != tb[k]]
        if bad:
            k = bad[0]
            moved = sorted(n for n in ta[k] if ta[k].get(n) != tb[k].get(n))[:6]
            res["failures"].append(cm.fail(f"C09:hashseed-dependent-layout:{k}", f"the {k} index table of the generated module depends on PYTHONHASHSEED", inp,
                                           {n: ta[k].get(n) for n in moved}, {n: tb[k].get(n) for n in moved}, detail))
        else:
            # which kind of difference: the same lines in the same order whose tokens are merely permuted inside a line (operand order of
            # a commutative operator chosen by the dependency's printer) - or anything else (statements reordered, different text)
            import re as _re
            la, lb = a["code"].splitlines(), b["code"].splitlines()
            tok = lambda l: sorted(_re.findall(r"[A-Za-z_]\w*|\d+(?:\.\d+)?(?:[eE][-+]?\d+)?|\S", l))  # noqa: E731
            within = len(la) == len(lb) and all(x == y or tok(x) == tok(y) for x, y in zip(la, lb))
            kind = "operand-order-within-a-line" if within else "other"
            res["failures"].append(cm.fail(f"C09:hashseed-dependent-output:{kind}", "generated text depends on PYTHONHASHSEED (index tables equal)", inp,
                                           cm.sha(a["code"]), cm.sha(b["code"]), detail))


# --------------------------------------------------------------------------------------
def gen_code(ode, cfg, ref):
    it = item("", cfg, ref)
    kw = {"remove_unused": it["remove_unused"]}
    if it["schemes"]:
        kw["stiff_states"] = it["stiff_states"]
    return (cm.c_code if cfg[0] == "c" else cm.py_code)(ode, it["schemes"], **kw)


def check_repeat(case, res):
    cfg = case["config"] if isinstance(case["config"], list) else CONFIGS[case["config"]]
    texts = [case["ode"], case.get("other")] if "ode" in case else [model_text(m) for m in case["models"]]
    A, B = texts[0], texts[1]
    nt, ref = nontrivial(A)
    res["sample"] = {"kind": "repeat", "ode": A, "other": B, "config": cfg}
    try:
        ode = cm.load(A)
        t1 = gen_code(ode, cfg, ref)
    except Exception:  # noqa: BLE001
        cm.note(res, "skipped:base-model-fails")
        return
    res["evals"] += 1
    if nt:
        res["nontrivial"].append(cm.sha([A, cfg, "repeat"]))
    inp = {"kind": "repeat", "ode": A, "other": B, "config": cfg}

    def again(label, sig, what, fresh):
        try:
            t = gen_code(cm.load(A) if fresh else ode, cfg, ref)
        except Exception as e:  # noqa: BLE001
            res["failures"].append(cm.fail(sig + ":exception", what + " (second generation raises)", inp, "same text", cm.exc_site(e), cm.short(e)))
            return
        if t != t1:
            res["failures"].append(cm.fail(sig, what, inp, cm.sha(t1), cm.sha(t), f"{label}: {first_diff(t1, t)}"))

    again("same ODE object", "C09:repeat-differs:same-object", "generating twice from the same ODE object gives different text", False)
    again("re-loaded text", "C09:repeat-differs:reload", "loading the same text again and generating gives different text", True)
    if B:
        try:
            gen_code(cm.load(B), cfg, nontrivial(B)[1])
        except Exception:  # noqa: BLE001
            pass
        again("after generating another model", "C09:history-dependent-output", "text for model A changes after generating model B in the same process", True)


def def_names(code, gen):
    pat = r"^def (\w+)\(" if gen == "py" else r"^void (\w+)\("
    return re.findall(pat, code, re.M)


def func_text(code, gen, name):
    pat = (r"^def " if gen == "py" else r"^void ") + re.escape(name) + r"\(.*?(?=^def |^void |^int |\Z)"
    m = re.search(pat, code, re.M | re.S)
    return m.group(0).rstrip() if m else None


def generator(gen, ode):
    from gotranx.codegen.c import CCodeGenerator
    from gotranx.codegen.python import PythonCodeGenerator

    return CCodeGenerator(ode, format=cm.CFormat.none) if gen == "c" else PythonCodeGenerator(ode, format=cm.PyFormat.none)


def check_scheme_name(case, res):
    from gotranx.schemes import get_scheme

    text = case.get("ode") or LORENTZ
    gen, seq = case["gen"], list(case["seq"])
    inp = {"kind": "scheme-name", "gen": gen, "seq": seq, "ode": text}
    res["sample"] = inp if case.get("sample") else None
    res["evals"] += 1
    res["nontrivial"].append(cm.sha(["scheme-name", gen, seq, text]))
    with cm.quiet():
        ode = cm.load(text)
        want = generator(gen, ode).scheme(get_scheme(seq[0]))  # text right after get_scheme(a)
        f = get_scheme(seq[0])
        for n in seq[1:]:
            get_scheme(n)
        got = generator(gen, ode).scheme(f)
    if got == want:
        return
    nw, ng = def_names(want, gen), def_names(got, gen)
    call = f"f = get_scheme({seq[0]!r}); " + "; ".join(f"get_scheme({n!r})" for n in seq[1:]) + "; CodeGenerator(ode).scheme(f)"
    if nw != ng:
        res["failures"].append(cm.fail("C09:history-dependent-scheme-name", "a scheme function handle emits a different function name after a later get_scheme call for an alias", inp, nw, ng, call))
    else:
        res["failures"].append(cm.fail("C09:history-dependent-scheme-output", "scheme text changes after a later get_scheme call", inp, cm.sha(want), cm.sha(got), call + " :: " + first_diff(want, got)))


def check_get_code_order(case, res):
    text = case.get("ode") or LORENTZ
    gen, order, before = case["gen"], list(case["order"]), list(case.get("before") or [])
    inp = {"kind": "get_code-order", "gen": gen, "order": order, "before": before, "ode": text}
    res["sample"] = inp if case.get("sample") else None
    res["evals"] += 1
    res["nontrivial"].append(cm.sha(["get_code-order", gen, order, before, text]))
    ode = cm.load(text)
    code = (cm.c_code if gen == "c" else cm.py_code)
    kw = {"stiff_states": [mg.RefModel(text).state_names[0]]}
    t0 = code(ode, order, **kw)
    names = [n for n in def_names(t0, gen) if n in MEMBERS or any(n in g for g in ALIASES)]
    if names != order:
        res["failures"].append(cm.fail("C09:get_code-scheme-names", "get_code(scheme=[...]) does not emit the requested scheme functions in the requested order", inp, order, names))
        return
    for s in order:
        single = func_text(code(ode, [s], **kw), gen, s)
        if func_text(t0, gen, s) != single:
            res["failures"].append(cm.fail("C09:order-dependent-scheme-output", f"function {s} emitted within a list of schemes differs from the single-scheme output", inp,
                                           cm.sha(single or ""), cm.sha(func_text(t0, gen, s) or ""), first_diff(single or "", func_text(t0, gen, s) or "")))
            return
    if before:
        code(ode, before, **kw)
    t1 = code(ode, order, **kw)
    if t1 != t0:
        res["failures"].append(cm.fail("C09:history-dependent-get_code", "get_code(scheme=order) gives a different text after get_code(scheme=before) in the same process", inp,
                                       def_names(t0, gen), def_names(t1, gen), first_diff(t0, t1)))


def check(case):
    res = cm.new_result()
    kind = case.get("kind")
    try:
        {"hashseed": check_hashseed, "repeat": check_repeat, "scheme-name": check_scheme_name, "get_code-order": check_get_code_order}[kind](case, res)
    except Exception as e:  # noqa: BLE001
        import traceback

        res["errors"].append(f"C09 {kind}: harness exception {cm.exc_name(e)}: {cm.short(e)} :: {traceback.format_exc()[-500:]}")
    return res


from oracles._b_helpers import scoped_api  # noqa: E402

run, replay = scoped_api(globals(), "c09run_")
