"""C13: C.to_ode() and (model - C) are complementary sub-models reproducing the full model."""
from __future__ import annotations

import math

import numpy as np

import backends as be
import common as cm
import modelgen as mg

ID = "C13"
CASE_TIMEOUT = 90
SCHEMES = ["explicit_euler", "generalized_rush_larsen"]
RULE = """Multi-component models from modelgen.gen_model (2-3 named components, sometimes plus the default component; 2-5 states spread
over the components, 1-5 parameters, 1-8 intermediates referencing names of other components).  For every component C of a model:
sub = C.to_ode(), rest = model - C.  Checks (one case = one (model, component, back end, check, point)): (a) sub.missing_variables
and rest.missing_variables are exactly the names used but not defined inside that part (reference reading of the text: names in the
right-hand sides of the part's assignments minus its own states / parameters / assignments / t / time), numbered 0..n-1; (b) the
states of sub and rest are disjoint and together all states; (c) with backend numpy (always), jax (every 5th model) and C (every 2nd
model; the generated C must compile) each part is generated with rhs, monitor_values, explicit_euler, generalized_rush_larsen and
missing_values for the names the other part misses; fed with its own missing values - taken from the full model's states /
parameters / monitor_values by name, and alternatively from the other part's generated missing_values function - rhs, monitor_values
and both schemes (dt 0.05) must equal the full model's values by name (rtol 1e-9, atol 1e-12 x (1 + magnitude)), and missing_values must return the full model's
value of every requested name.  Models whose full module cannot be generated are skipped.  Non-trivial: the part has >= 1 missing
variable; distinct by sha1(text, component, back end, check, point)."""


def cases(tier, seed, focus):
    n = 90 if tier == "quick" else 1000
    for i in range(n):
        k = seed * 100003 + i
        bes = ["numpy"] + (["c"] if i % 2 == 0 else []) + (["jax"] if i % 5 == 4 else [])
        yield {"mseed": k, "opts": {"n_comps": [2, 3], "min_comps_used": 2, "n_states": [2, 5], "n_params": [1, 5], "n_inter": [1, 8], "own": 0.4,
                                    "own_forms": [f for f in mg.OWN_FORMS if f not in ("floor", "Mod")],
                                    "features": [f for f in mg.ALL_FEATURES if f not in ("And3", "Or3")] if i % 2 else None,
                                    "force": list(mg.feature_cycle(k, 1))}, "npts": 2, "backends": bes, "tags": ["C13"]}


def part_names(ref, comp_name, inside=True):
    """reference reading: (defined names, used-but-undefined names, state names) of a part"""
    def sel(comps):
        return (comp_name in comps) if inside else any(c != comp_name for c in comps)

    states = [k for k, d in ref.states.items() if sel(d.comps)]
    params = [k for k, d in ref.params.items() if sel(d.comps)]
    assigns = [k for k, a in ref.assigns.items() if sel(a.comps)]
    defined = set(states) | set(params) | set(assigns) | {"t", "time"}
    used = set()
    for a in assigns:
        used |= set(ref.assigns[a].deps)
    return defined, sorted(used - defined), states, assigns


def check(case):
    res = cm.new_result()
    try:
        c = cm.materialize(case)
        ref = mg.RefModel(c["ode"])
    except Exception as e:  # noqa: BLE001
        res["errors"].append(f"reference cannot read generated model: {cm.exc_name(e)}: {cm.short(e)}")
        return res
    text = c["ode"]
    res["sample"] = {"ode": text, "points": c["points"][:1]}
    try:
        ode = cm.load(text)
    except Exception as e:  # noqa: BLE001
        cm.note(res, f"skipped:loader-rejects:{cm.exc_name(e)}")
        return res
    comp_names = [cp.name for cp in ode.components]
    if len(comp_names) < 2:
        cm.note(res, "skipped:single-component")
        return res
    only_comp = c.get("component")
    only_bk = c.get("backends", ["numpy"])
    try:
        full = be.build(ode, "numpy", SCHEMES)
    except be.Stage as e:
        cm.note(res, f"skipped:full-model-{e.stage}-fails(C01/C06)")
        return res
    pts = []
    for pt in c["points"]:
        pt = cm.restrict_point(pt, ref)
        try:
            mon = full.monitor_values(pt)
            sch = {s: full.scheme(s, pt, 0.05) for s in SCHEMES}
            if all(math.isfinite(v) for v in mon.values()):
                pts.append((pt, mon, sch))
        except be.Stage:
            pass
    for cname in comp_names:
        if only_comp is not None and cname != only_comp:
            continue
        def add(kind, what, extra=None, exp=None, act=None, detail=""):
            inp = {"ode": text, "component": cname, "points": [], "backends": only_bk}
            inp.update(extra or {})
            res["failures"].append(cm.fail(f"C13:{kind}", what, inp, exp, act, detail))

        comp = ode.get_component(cname)
        try:
            with cm.quiet():
                sub = comp.to_ode()
                rest = ode - comp
        except Exception as e:  # noqa: BLE001
            res["evals"] += 1
            add(f"split-raises:{cm.exc_site(e)}", f"to_ode() / model - component raises for component {cname!r}", None, "two sub-models", cm.exc_name(e), cm.short(e))
            continue
        parts = {"sub": (sub, part_names(ref, cname, True)), "rest": (rest, part_names(ref, cname, False))}
        # (a) missing variables, (b) partition -----------------------------------------------------------
        res["evals"] += 1
        res["nontrivial"].append(cm.sha([text, cname, "structure"]))
        for pname, (o, (defined, missing, states, assigns)) in parts.items():
            got = dict(o.missing_variables)
            if sorted(got) != missing:
                add(f"missing-variables-wrong:{pname}", f"{pname}.missing_variables of component {cname!r} are not the used-but-undefined names", None, missing, sorted(got))
            elif sorted(got.values()) != list(range(len(got))):
                add(f"missing-variables-not-numbered:{pname}", f"{pname}.missing_variables indices are not 0..n-1", None, list(range(len(got))), got)
            if sorted(s.name for s in o.states) != sorted(states):
                add(f"states-wrong:{pname}", f"{pname} of component {cname!r} has the wrong states", None, sorted(states), sorted(s.name for s in o.states))
        ssub, srest = {s.name for s in sub.states}, {s.name for s in rest.states}
        if ssub & srest or (ssub | srest) != set(ref.states):
            add("states-not-partitioned", f"states of sub and rest for component {cname!r} do not partition the model's states", None, sorted(ref.states), [sorted(ssub), sorted(srest)])
        # (c) numerics ----------------------------------------------------------------------------------------
        for bk in only_bk:
            built = {}
            ok = True
            if bk == "c" and ref.c_unsafe():
                # an integer-literal quotient in the text: the C values are wrong already for the full model (listed finding of C02)
                cm.note(res, "skipped:c:integer-quotient-territory(C02)")
                continue
            if bk != "numpy":  # the back end must work for the full model, otherwise it is C02/C03's business
                try:
                    with be.build(ode, bk, SCHEMES) as fb:
                        if pts:
                            fb.rhs(pts[0][0])
                            for sname in SCHEMES:
                                fb.scheme(sname, pts[0][0], 0.05)
                            if bk != "jax":
                                fb.monitor_values(pts[0][0])
                except (be.Stage, IndexError) as e:
                    cm.note(res, f"skipped:{bk}:full-model-fails-on-this-backend(C02/C03)")
                    continue
            for pname, other in (("sub", "rest"), ("rest", "sub")):
                o = parts[pname][0]
                want_missing = dict(parts[other][0].missing_variables)
                try:
                    built[pname] = be.build(o, bk, SCHEMES, **({"missing_values": want_missing} if want_missing else {}))
                except be.Stage as e:
                    ok = False
                    res["evals"] += 1
                    if e.stage == "compile":
                        k = f"{bk}:compile-error:{cm.compile_key(e.exc, set(ref.states) | set(ref.params) | set(ref.assigns))}"
                    else:
                        k = f"{bk}:{e.stage}-raises:{cm.exc_site(e.exc) if e.stage == 'codegen' else cm.exc_name(e.exc)}"
                    add(k, f"{bk} module of the {pname} part of component {cname!r} cannot be built ({e.stage}) although the full model can", {"backends": [bk]}, "module", cm.exc_name(e.exc), (str(e) + " " + e.detail)[:500])
            if ok:
                try:
                    numerics(res, add, text, cname, bk, parts, built, pts, full)
                except Exception as e:  # noqa: BLE001
                    res["errors"].append(f"numerics harness error: {cm.exc_name(e)}: {cm.short(e)}")
            for b in built.values():
                b.close()
    full.close()
    return res


def value_of(name, pt, mon):
    if name in pt["states"]:
        return pt["states"][name]
    if name in pt["params"]:
        return pt["params"][name]
    return mon[name]


def numerics(res, add, text, cname, bk, parts, built, pts, full):
    for pt, mon, sch in pts:
        feeds = {}
        for pname in ("sub", "rest"):
            o = parts[pname][0]
            mv = dict(o.missing_variables)
            arr = np.zeros(len(mv))
            for n, i in mv.items():
                arr[i] = value_of(n, pt, mon)
            feeds[pname] = (mv, arr)
        for pname, other in (("sub", "rest"), ("rest", "sub")):
            m = built[pname]
            mv, arr = feeds[pname]
            extra = {"points": [pt], "backends": [bk]}
            nontriv = bool(mv)
            s, p = m.arrays(pt)
            miss = arr if mv else None
            # missing_values function of this part (what the other part needs)
            want_out = dict(parts[other][0].missing_variables)
            arr_from_fn = None
            if want_out:
                res["evals"] += 1
                if nontriv:
                    res["nontrivial"].append(cm.sha([text, cname, bk, pname, "missing_values", pt]))
                try:
                    out = m.raw("missing_values", s, pt["t"], p, n_out=len(want_out), missing=miss)
                    n = len(out) - 2 if bk == "c" else len(out)
                    if n != len(want_out):
                        add(f"{bk}:missing_values-wrong-length", f"missing_values of the {pname} part returns {n} entries for {len(want_out)} requested names", extra, len(want_out), n)
                    else:
                        bad = {k: float(out[i]) for k, i in want_out.items() if not cm.vclose(out[i], value_of(k, pt, mon), 0.0)}
                        if bad:
                            add(f"{bk}:missing_values-differ", f"missing_values of the {pname} part of {cname!r} differ from the full model", extra, {k: value_of(k, pt, mon) for k in bad}, bad)
                        else:
                            arr_from_fn = out[: len(want_out)]
                except be.Stage as e:
                    add(f"{bk}:call-raises:{cm.exc_name(e.exc)}:missing_values", f"missing_values of the {pname} part raises", extra, "array", cm.exc_name(e.exc), str(e))
            feeds[pname] = feeds[pname] + (arr_from_fn,)
            for fn, dt in (("rhs", None), ("monitor_values", None), ("explicit_euler", 0.05), ("generalized_rush_larsen", 0.05)):
                res["evals"] += 1
                if nontriv:
                    res["nontrivial"].append(cm.sha([text, cname, bk, pname, fn, pt]))
                try:
                    if fn == "monitor_values":
                        got = m.monitor_values(pt, missing=miss)
                        want = {k: mon[k] for k in got}
                    elif fn == "rhs":
                        got = m.rhs(pt, missing=miss)
                        want = {k: mon[f"d{k}_dt"] for k in got}
                    else:
                        got = m.scheme(fn, pt, dt, missing=miss)
                        want = {k: sch[fn][k] for k in got}
                except be.Stage as e:
                    add(f"{bk}:call-raises:{cm.exc_name(e.exc)}:{fn if dt is None else 'scheme'}", f"{fn} of the {pname} part raises when fed its missing values", extra, "array", cm.exc_name(e.exc), str(e))
                    continue
                except IndexError as e:
                    add(f"{bk}:wrong-length:{fn if dt is None else 'scheme'}", f"{fn} of the {pname} part returns fewer entries than its index table has names", extra, None, cm.short(e))
                    continue
                except KeyError as e:
                    add(f"{bk}:name-not-in-full-model:{fn if dt is None else 'scheme'}", f"{fn} of the {pname} part reports a name the full model does not have: {e}", extra)
                    continue
                if fn == "monitor_values" and set(got) != set(parts[pname][1][3]):
                    add(f"{bk}:monitor-names-wrong", f"monitor table of the {pname} part differs from its assignments", extra, sorted(parts[pname][1][3]), sorted(got))
                bad = {k: got[k] for k in want if not cm.vclose(got[k], want[k], 0.0)}
                if bad:
                    add(f"{bk}:{fn if dt is None else 'scheme'}-differs", f"{fn} of the {pname} part of {cname!r} differs from the full model", extra, {k: want[k] for k in bad}, bad)
    return


run, replay = cm.make_api(globals())
