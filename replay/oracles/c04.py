"""C04: names and array slots agree across every generated function, back end and argument order."""
from __future__ import annotations

import itertools
import math
import random
import re

import numpy as np

import backends as be
import common as cm
import modelgen as mg

ID = "C04"
CASE_TIMEOUT = 90
RHS_ORDERS = ["".join(p) for p in itertools.permutations("stp")]
SCHEME_ORDERS = ["".join(p) for p in itertools.permutations("stpd")]
RULE = """Models from modelgen.gen_model (1-5 states with pairwise different derivative values at the test point, 0-5 parameters, 0-8
intermediates, components).  Per model and back end (numpy and C always, jax for every 4th model): (1) state/parameter/monitor index
functions are bijections onto 0..n-1 and refuse unknown names (KeyError; C: -1), the declared tables/NUM_* constants equal the
array lengths; (2) init_state_values / init_parameter_values put every declared default in the slot its index function reports, a
keyword override lands in that slot and nowhere else; (3) rhs and explicit_euler / generalized_rush_larsen write the value for state
X (reference evaluator, by name) into slot state_index(X); monitor_values writes every intermediate and derivative into slot
monitor_index(name); (4) every RHSArgument order (6, for rhs and monitor_values) and every SchemeArgument order (24, numpy and C; 3
random ones for jax) only permutes the formals: calling with correspondingly permuted actuals returns the identical array.  One case
= one (model, back end, check).  A wrong slot is reported only when the produced values are a permutation of the expected ones
(wrong values are C01/C02/C03).  The init and result-slot checks (2), (3) are ALSO made on a module generated with remove_unused=True,
BY NAME through that module's own index functions: rhs(...)[state_index(X)] must be the reference derivative of X, explicit_euler(...)
[state_index(X)] = X + dt dX, init values sit in the slot of state_index (signatures end in :remove_unused).  Half of the models have the shape
"derivatives independent of each other + unused intermediates that mention states / parameters in various orders" (there a sorter that is run
on the reduced assignment set orders the derivatives differently), a fifth has intermediates that mention a d<state>_dt name.
Non-trivial: >= 2 states (slot checks) ; distinct by sha1(text, back end, check)."""


def cases(tier, seed, focus):
    n = 130 if tier == "quick" else 1500
    for i in range(n):
        k = seed * 100003 + i
        bes = ["numpy", "c"] + (["jax"] if i % 4 == 0 else [])
        feats = [f for f in mg.ALL_FEATURES if f not in ("intquot", "Mod")] if i % 3 else None  # keep C value defects (C02) from hiding slot checks
        yield {"mseed": k, "opts": {"n_states": [2, 5] if i % 5 else [1, 1], "force": list(mg.feature_cycle(k, 2)), "features": feats, "indep": 0.5 if i % 5 else 0.0, "deriv_ref": 0.2, "c_safe": bool(i % 3)}, "npts": 3, "backends": bes, "tags": ["C04"]}


def check(case):
    res = cm.new_result()
    try:
        c = cm.materialize(case)
        ref = mg.RefModel(c["ode"])
    except Exception as e:  # noqa: BLE001
        res["errors"].append(f"reference cannot read generated model: {cm.exc_name(e)}: {cm.short(e)}")
        return res
    text = c["ode"]
    res["sample"] = {"ode": text, "backends": c.get("backends")}
    try:
        ode = cm.load(text)
    except Exception as e:  # noqa: BLE001
        cm.note(res, f"skipped:loader-rejects:{cm.exc_name(e)}")
        return res
    # a point with pairwise distinct derivative values (otherwise a slot swap is invisible)
    pt = None
    for cand in c["points"]:
        cand = cm.restrict_point(cand, ref)
        try:
            vals, frag = ref.evaluate(cand["t"], cand["states"], cand["params"])
        except mg.RefError:
            continue
        dv = [vals[f"d{s}_dt"] for s in ref.states]
        if not frag and all(abs(a - b) > 1e-6 * (abs(a) + abs(b) + 1e-9) for a, b in itertools.combinations(dv, 2)):
            pt = cand
            break
    if pt is None and c["points"]:
        pt = cm.restrict_point(c["points"][0], ref)
        vals, _ = ref.evaluate(pt["t"], pt["states"], pt["params"])
        cm.note(res, "weak:derivatives-not-distinct")
    if pt is None:
        cm.note(res, "skipped:no-valid-point")
        return res
    rng = random.Random(cm.sha(text))
    only = c.get("only")
    for bk in c.get("backends", ["numpy", "c"]):
        def add(kind, what, exp=None, act=None, detail="", chk=""):
            res["failures"].append(cm.fail(f"C04:{bk}:{kind}", what, {"ode": text, "points": [pt], "backends": [bk], "only": chk}, exp, act, detail))

        def unit(name):
            if only and only != name:
                return False
            res["evals"] += 1
            if len(ref.states) >= 2:
                res["nontrivial"].append(cm.sha([text, bk, name]))
            return True

        schemes = ["explicit_euler", "generalized_rush_larsen"]
        try:
            m = be.build(ode, bk, schemes)
        except be.Stage:
            schemes = []
            try:
                m = be.build(ode, bk)
            except be.Stage as e:
                cm.note(res, f"skipped:{bk}:{e.stage}-fails(C01/C02/C03)")
                continue
        with m:
            # (1) index functions ---------------------------------------------------------------------
            if unit("index"):
                for which, names in (("state", ref.state_names), ("parameter", ref.param_names), ("monitor", list(ref.assigns))):
                    try:
                        idx = [m.index(which, n) for n in names]
                    except Exception as e:  # noqa: BLE001
                        add(f"{which}-index-raises", f"{which}_index raises for a declared name", "index", cm.exc_name(e), cm.short(e), "index")
                        continue
                    if sorted(idx) != list(range(len(names))):
                        add(f"{which}-index-not-bijective", f"{which}_index is not a bijection onto 0..n-1", list(range(len(names))), idx, chk="index")
                    bogus = (names[0] if names else "q") + "_zz"
                    try:
                        r = m.index(which, bogus)
                        if not (bk == "c" and r == -1):
                            add(f"{which}-index-accepts-unknown", f"{which}_index({bogus!r}) returns {r}", "KeyError / -1", r, chk="index")
                    except KeyError:
                        pass
                    except Exception as e:  # noqa: BLE001
                        add(f"{which}-index-wrong-exception", f"{which}_index({bogus!r}) raises {cm.exc_name(e)}, documented KeyError", "KeyError", cm.exc_name(e), chk="index")
                if bk == "c":
                    got = [m.lib.const("NUM_STATES"), m.lib.const("NUM_PARAMS"), m.lib.const("NUM_MONITORED")]
                    if got != [len(ref.states), len(ref.params), len(ref.assigns)]:
                        add("declared-count-wrong", "NUM_STATES/NUM_PARAMS/NUM_MONITORED differ from the model", [len(ref.states), len(ref.params), len(ref.assigns)], got, chk="index")
                elif [len(m.state), len(m.parameter), len(m.monitor)] != [len(ref.states), len(ref.params), len(ref.assigns)]:
                    add("declared-count-wrong", "state/parameter/monitor tables differ in size from the model", [len(ref.states), len(ref.params), len(ref.assigns)], [len(m.state), len(m.parameter), len(m.monitor)], chk="index")
            # (2) init functions, (3) result slots: on the plain module and on the module generated with remove_unused=True -----------
            s, p = m.arrays(pt)
            slot_checks(m, bk, "", ref, pt, vals, schemes, unit, add, res, rng)
            if not only or str(only).endswith(":remove_unused"):
                try:
                    mr = be.build(ode, bk, schemes, remove_unused=True)
                except be.Stage as e:
                    cm.note(res, f"skipped:{bk}:remove_unused-module-{e.stage}-fails(C12)")
                    mr = None
                if mr is not None:
                    with mr:
                        slot_checks(mr, bk, ":remove_unused", ref, pt, vals, schemes, unit, add, res, rng)
            # (4) argument orders ----------------------------------------------------------------------------
            if unit("orders"):
                try:
                    check_orders(m, bk, ode, s, p, pt, rng, schemes, add, res, vals)
                except be.Stage as e:
                    cm.note(res, f"skipped:{bk}:order-variants-{e.stage}-fail")
    return res


def slot_checks(m, bk, suffix, ref, pt, vals, schemes, unit, add, res, rng):
    """(2) init functions and (3) result slots of module m, by name through m's own index functions; suffix '' or ':remove_unused'"""
    if unit("init" + suffix):
        s0, p0 = ref.defaults()
        for fn, want, which in (("init_state_values", s0, "state"), ("init_parameter_values", p0, "parameter")):
            if not want and bk == "jax":
                continue
            chk = "init" + suffix
            try:
                arr = m.lib.init(fn, len(want)) if bk == "c" else np.asarray(m.ns[fn](), dtype=float)
                n = len(arr) - 2 if bk == "c" else len(arr)
                if n != len(want) or (bk == "c" and not np.all(np.isnan(arr[len(want):]))):
                    add(f"init-length:{which}{suffix}", f"{fn} fills {n} slots, model declares {len(want)}", len(want), n, chk=chk)
                    continue
                bad = {k: float(arr[m.index(which, k)]) for k in want if not slot_ok(arr[m.index(which, k)], want[k], ref, which, k)}
                if bad:
                    kind = "init-slot-permuted" if perm(list(bad.values()), [want[k] for k in bad]) else "init-value"
                    if kind == "init-slot-permuted":
                        add(f"{kind}:{which}{suffix}", f"{fn} puts defaults into slots other than {which}_index reports", {k: want[k] for k in bad}, bad, chk=chk)
                    else:
                        cm.note(res, f"skipped:{bk}:init-value-differs(C02)")
                if bk != "c" and want and not suffix:
                    for key in rng.sample(sorted(want), min(2, len(want))):
                        arr2 = np.asarray(m.ns[fn](**{key: 1234.5}), dtype=float)
                        exp = np.array(arr, dtype=float)
                        exp[m.index(which, key)] = 1234.5
                        if not np.array_equal(arr2, exp):
                            add(f"init-override:{which}", f"{fn}({key}=1234.5) does not change exactly slot {which}_index({key!r})", cm.tolist(exp), cm.tolist(arr2), chk=chk)
                    try:
                        m.ns[fn](**{"no_such_name_zz": 1.0})
                        add(f"init-override-unknown-accepted:{which}", f"{fn}(no_such_name_zz=1.0) is accepted", "KeyError", "no exception", chk=chk)
                    except KeyError:
                        pass
                    except Exception as e:  # noqa: BLE001
                        if bk != "jax":
                            add(f"init-override-unknown-wrong-exception:{which}", f"{fn}(no_such_name_zz=1.0) raises {cm.exc_name(e)}", "KeyError", cm.exc_name(e), chk=chk)
            except Exception as e:  # noqa: BLE001
                add(f"init-raises:{which}{suffix}", f"{fn} raises", "array", cm.exc_name(e), cm.short(e), chk)
    s, p = m.arrays(pt)
    if unit("slots" + suffix):
        chk = "slots" + suffix
        dt = 0.125
        checks = [("rhs", None, {x: vals[f"d{x}_dt"] for x in ref.states}, "state"), ("monitor_values", None, dict(vals), "monitor")]
        if schemes:
            checks.append(("explicit_euler", dt, {x: pt["states"][x] + dt * vals[f"d{x}_dt"] for x in ref.states}, "state"))
        for fn, d, want, which in checks:
            try:
                arr = m.raw(fn, s, pt["t"], p, dt=d, n_out=len(want))
            except be.Stage:
                cm.note(res, f"skipped:{bk}:{fn}-call-fails(C02/C03/C12)")
                continue
            n = len(arr) - 2 if bk == "c" else len(arr)
            if bk == "c" and not np.all(np.isnan(arr[len(want):])):
                add(f"writes-past-end:{fn}{suffix}", f"{fn} writes beyond the declared {len(want)} slots", len(want), cm.tolist(arr), chk=chk)
            if bk != "c" and n != len(want):
                if bk == "jax":
                    cm.note(res, f"skipped:jax:{fn}-wrong-length(C03)")
                else:
                    add(f"result-length:{fn}{suffix}", f"{fn} returns {n} entries, declared count is {len(want)}", len(want), n, chk=chk)
                continue
            try:
                got = {k: float(arr[m.index(which, k)]) for k in want}
            except Exception as e:  # noqa: BLE001 - the index function of this module does not know a declared name
                add(f"{which}-index-raises{suffix}", f"{which}_index raises for a declared name", "index", cm.exc_name(e), cm.short(e), chk)
                continue
            bad = {k: got[k] for k in want if not cm.vclose(got[k], want[k], ref.last_maxabs, 1e-9) and not cm.close(got[k], want[k], 1e-9, 1e-9)}
            if bad:
                if len(bad) >= 2 and perm(list(bad.values()), [want[k] for k in bad]):
                    add(f"result-slot-permuted:{fn}{suffix}", f"{fn}" + (" of the module generated with remove_unused=True" if suffix else "") + f" writes results into slots other than {which}_index reports",
                        {k: want[k] for k in bad}, bad, f"{which} table {getattr(m, which)}", chk=chk)
                else:
                    cm.note(res, f"skipped:{bk}:{fn}-values-differ-from-reference(C01/C02)")
        if schemes:
            try:  # GRL slot: compare with the numpy GRL by name is C06/C02; here only: every slot written, none twice
                arr = m.raw("generalized_rush_larsen", s, pt["t"], p, dt=dt)
                # (not in integer-quotient territory: there `dh_dt_linearized = 1/3` is 0 in C and the unguarded Rush-Larsen quotient is 0/0 -
                # a NaN that was written, both causes are listed findings of C02 / C06)
                if bk == "c" and not ref.c_unsafe() and (np.any(np.isnan(arr[: len(ref.states)])) and not any(math.isnan(v) for v in vals.values())):
                    add(f"slot-not-written:generalized_rush_larsen{suffix}", "a state slot is left unwritten by generalized_rush_larsen", "all slots", cm.tolist(arr), chk=chk)
            except be.Stage:
                pass


def slot_ok(got, want, ref, which, k):
    return cm.close(got, want, 1e-12)


def perm(got, want):
    got, want = sorted(got), sorted(want)
    return len(got) == len(want) and all(cm.close(a, b, 1e-9, 1e-9) for a, b in zip(got, want))


def check_orders(m, bk, ode, s, p, pt, rng, schemes, add, res, vals):
    from gotranx.schemes import get_scheme

    gen = be.generator(ode, bk)
    ro = RHS_ORDERS
    so = SCHEME_ORDERS if bk != "jax" else rng.sample(SCHEME_ORDERS, 3)
    if bk == "jax":
        ro = rng.sample(RHS_ORDERS, 2)
    variants = []  # (fname, order, dt, base fn)
    pieces = []
    with cm.quiet():
        for o in ro:
            for fn in ("rhs", "monitor_values"):
                pieces.append((fn, o, None, getattr(gen, fn)(order=o)))
        if schemes:
            for o in so:
                pieces.append(("explicit_euler", o, 0.25, gen.scheme(get_scheme("explicit_euler"), order=o)))
    base = {fn: m.raw(fn, s, pt["t"], p, dt=d, n_out=(m.n_mon if fn == "monitor_values" else m.n_states)) for fn, d in (("rhs", None), ("monitor_values", None))}
    if schemes:
        base["explicit_euler"] = m.raw("explicit_euler", s, pt["t"], p, dt=0.25)
    if len(base["monitor_values"]) < len(vals) or not all(cm.close(base["monitor_values"][m.index("monitor", k)], v, 1e-9, 1e-9) for k, v in vals.items()):
        cm.note(res, f"skipped:{bk}:orders-not-checked-values-differ-from-reference(C01/C02/C03)")
        return
    for fn, d in (("rhs", None), ("monitor_values", None)) + ((("explicit_euler", 0.25),) if schemes else ()):
        again = m.raw(fn, s, pt["t"], p, dt=d, n_out=(m.n_mon if fn == "monitor_values" else m.n_states))
        if not np.array_equal(again, base[fn], equal_nan=True):
            cm.note(res, f"skipped:{bk}:nondeterministic-default-result(C02)")
            return
    if bk == "c":
        src = m.code
        for fn, o, d, code in pieces:
            src += "\n" + re.sub(r"void " + fn + r"\(", f"void {fn}__{o}(", code, count=1)
        lib = cm.CLib(src)
        if not lib.ok():
            add("order-variant-compile-error", "C module with argument-order variants does not compile", "compiles", be.first_error(lib.stderr), lib.stderr[:400], "orders")
            lib.close()
            return
        try:
            for fn, o, d, code in pieces:
                got = lib.call(f"{fn}__{o}", o, len(base[fn]) - 2, s=s, t=pt["t"], p=p, d=d)
                cmp_order(fn, o, got, base[fn], code, add)
        finally:
            lib.close()
        return
    for fn, o, d, code in pieces:
        ns = cm.exec_py(gen.imports() + "\n" + code)
        vals = {"s": s, "t": pt["t"], "p": p, "d": d}
        try:
            with cm.quiet():
                got = np.asarray(ns[fn](*[vals[ch] for ch in o]), dtype=float)
        except Exception as e:  # noqa: BLE001
            add(f"order-variant-raises:{group(fn)}", f"{fn}(order={o}) raises when called with the arguments in that order", "array", cm.exc_name(e), cm.short(e) + " | " + formals(code, fn), "orders")
            continue
        cmp_order(fn, o, got, base[fn], code, add)


def cmp_order(fn, o, got, base, code, add):
    same = got.shape == base.shape and np.array_equal(got, base, equal_nan=True)
    if not same:
        add(f"order-changes-result:{group(fn)}", f"{fn} generated with order={o} and called accordingly differs from the default order", cm.tolist(base), cm.tolist(got), formals(code, fn), "orders")
    f = formals(code, fn)
    letters = {"states": "s", "t": "t", "parameters": "p", "dt": "d"}
    seq = "".join(letters.get(x, "?") for x in f if x in letters)
    if seq != o:
        add(f"order-formals-wrong:{group(fn)}", f"{fn}(order={o}) has formals {f}", o, seq, "", "orders")


def formals(code, fn):
    m = re.search(r"(?:def|void) " + fn + r"\((.*?)\)", code, re.S)
    if not m:
        return []
    return [re.split(r"[\s\*]+", a.strip())[-1] for a in m.group(1).split(",")]


def group(fn):
    return fn if fn in ("rhs", "monitor_values") else "scheme"


run, replay = cm.make_api(globals())
