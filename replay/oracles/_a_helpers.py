"""Helpers shared by the C08 / C10 / C17 oracles: a line/block view of a model text (`parse_doc`), the
reference reading of membership / definitions / well-formedness (built on modelgen, never on gotranx),
what is observed of gotranx (membership, generated code, slot layout) and an in-process time limit."""
from __future__ import annotations

import contextlib
import re
import signal
import time

import common as cm
import modelgen as mg

TAME = ("exp", "log", "sqrt", "sin", "cos", "abs", "floor", "Mod", "Conditional", "Lt", "Gt", "Le", "Ge", "And2", "Or2",
        "pow", "intquot", "sci", "pi", "t", "time", "unary")
# rotation of generator options: multi-component / single-component, all features / tame subset, depth 2-3
OPTS = [
    {"depth": 2, "n_comps": [2, 3], "n_inter": [2, 6]},
    {"depth": 2, "n_comps": [0, 0], "n_inter": [1, 6]},
    {"depth": 2, "n_comps": [1, 3], "n_inter": [2, 8], "features": list(TAME)},
    {"depth": 3, "n_comps": [0, 2], "n_inter": [0, 5], "features": list(TAME)},
    {"depth": 2, "n_comps": [2, 3], "n_inter": [3, 8], "n_states": [2, 5], "min_comps_used": 1},
    {"depth": 1, "n_comps": [0, 3], "n_inter": [0, 4], "n_states": [1, 2], "n_params": [0, 2]},
]


# exception names used only to TAG cases for --focus (an unlisted name matches no tag, then std_run runs every case)
EXCS = ("ZeroDivisionError", "TokenError", "DefinitionSyntaxError", "AssertionError", "UnexpectedToken", "UnexpectedCharacters", "UnexpectedEOF",
        "StateNotFoundInComponent", "ComponentNotCompleteError", "MissingSymbolError", "DuplicateSymbolError", "DimensionalityError", "OverflowError",
        "ValueError", "TypeError", "KeyError", "AttributeError", "RecursionError", "UndefinedUnitError", "CycleError", "IndexError", "SyntaxError",
        "MemoryError", "OffsetUnitCalculusError", "NameError", "UnexpectedInput")


def model_opts(i: int) -> dict:
    return dict(OPTS[i % len(OPTS)])


def model_text(case: dict) -> str:
    """text of a seeded ({"mseed", "opts"}) model"""
    opts = dict(case.get("opts") or {})
    for k in ("n_states", "n_params", "n_inter", "n_comps", "features", "force", "own_forms"):
        if opts.get(k) is not None:
            opts[k] = tuple(opts[k])
    return mg.gen_model(int(case["mseed"]), mg.GenOpts(**opts)).text


# --------------------------------------------------------------------------------------
# Doc: items of a model text.  kinds: comment | blank | states | parameters | header | assign
# --------------------------------------------------------------------------------------
_Q = re.compile(r"\"[^\"]*\"|'[^']*'")


def parse_doc(text: str) -> list[dict]:
    """every item keeps its verbatim (possibly multi-line) text; `render(parse_doc(t)) == t` for texts
    ending in a newline.  `comp` is the reference component tuple (expressions header in force; a
    states/parameters block ends an expressions block; comment and blank lines never do)."""
    lines = text.split("\n")
    if lines and lines[-1] == "":
        lines.pop()
    items, cur, i = [], ("",), 0
    while i < len(lines):
        raw = lines[i]
        code, com = mg._strip_comment(raw)
        if not code.strip():
            items.append({"kind": "blank" if com is None else "comment", "text": raw})
            i += 1
            continue
        buf, acc = [raw], code
        while mg._depth(acc) > 0 and i + 1 < len(lines):
            i += 1
            buf.append(lines[i])
            c2, com2 = mg._strip_comment(lines[i])
            acc += "\n" + c2
            com = com2 if com2 is not None else com
        i += 1
        m = mg._HEAD.match(acc)
        if m:
            parts = [p.strip() for p in mg._split_top(acc[m.end(): acc.rindex(")")]) if p.strip()]
            comps = []
            while parts and _Q.fullmatch(parts[0]):
                comps.append(parts.pop(0)[1:-1])
            comps = tuple(comps) or ("",)
            if m.group(1) in ("expressions", "component"):
                cur = comps
                items.append({"kind": "header", "text": "\n".join(buf), "comp": comps})
            else:
                cur = ("",)
                ents = []
                for p in parts:
                    am = mg._ASSIGN.match(p)
                    if not am:
                        raise mg.RefError(f"bad declaration {p!r}")
                    ents.append({"name": am.group(1), "text": p, "value": decl_value(am.group(2))})
                items.append({"kind": m.group(1), "text": "\n".join(buf), "comp": comps, "entries": ents})
            continue
        am = mg._ASSIGN.match(acc)
        if not am:
            raise mg.RefError(f"cannot read line {acc!r}")
        items.append({"kind": "assign", "text": "\n".join(buf), "comp": cur, "name": am.group(1),
                      "rhs": " ".join(am.group(2).split()), "trailing": com})
    return items


def decl_value(rhs: str) -> str:
    sm = mg._SCALAR.match(rhs)
    return (mg._split_top(sm.group(1))[0] if sm else rhs).strip()


def render(items) -> str:
    return "\n".join(it["text"] for it in items) + "\n"


def decl_text(kind, comps, entry_texts) -> str:
    head = "".join(f'"{c}", ' for c in comps if c != "")
    return f"{kind}({head}" + ", ".join(entry_texts) + ")"


def header_text(comps) -> str:
    return "expressions(" + ", ".join(f'"{c}"' for c in comps) + ")"


def assign_text(name, rhs, trailing=None) -> str:
    return f"{name} = {rhs}" + (f" # {trailing}" if trailing else "")


def groups(items):
    """[(index of header | None, [indices of the assign items of that expressions block])] in text order"""
    out, cur = [], None
    for i, it in enumerate(items):
        if it["kind"] == "header":
            cur = (i, [])
            out.append(cur)
        elif it["kind"] in ("states", "parameters"):
            cur = None
        elif it["kind"] == "assign":
            if cur is None:
                cur = (None, [])
                out.append(cur)
            cur[1].append(i)
    return out


def insert_assign(items, comps, line: str) -> list[dict]:
    """new item list with an assignment line added to component `comps` (after its last line; a missing
    default block is opened right after the last declaration block, a missing named block at the end)"""
    new = dict(parse_doc(line)[0], comp=tuple(comps))
    idx = [i for i, it in enumerate(items) if it["kind"] == "assign" and it["comp"] == tuple(comps)]
    if idx:
        return items[: idx[-1] + 1] + [new] + items[idx[-1] + 1:]
    if tuple(comps) == ("",):
        first_head = min([i for i, it in enumerate(items) if it["kind"] == "header"] + [len(items)])
        d = [i for i, it in enumerate(items[:first_head]) if it["kind"] in ("states", "parameters")]
        k = d[-1] + 1 if d else 0
        return items[:k] + [new] + items[k:]
    return items + [{"kind": "header", "text": header_text(comps), "comp": tuple(comps)}, new]


# --------------------------------------------------------------------------------------
# reference reading
# --------------------------------------------------------------------------------------
def ref_view(text: str) -> dict:
    """reference definitions (parsed expressions, so layout inside an expression does not count) with component
    membership: what a permutation / inert edit must preserve"""
    r = mg.RefModel(text)
    return {
        "states": sorted((d.name, str(mg.parse_expr(d.expr_text)), list(d.comps)) for d in r.states.values()),
        "params": sorted((d.name, str(mg.parse_expr(d.expr_text)), list(d.comps)) for d in r.params.values()),
        "assigns": sorted((a.name, str(a.ast), list(a.comps)) for a in r.assigns.values()),
    }


def ref_membership(text: str) -> list:
    """[(component, states, parameters, assignments)] of the reference reading"""
    v = ref_view(text)
    comps = {}
    for key in ("states", "params", "assigns"):
        for name, _, cs in v[key]:
            for c in cs:
                comps.setdefault(c, {"states": [], "params": [], "assigns": []})[key].append(name)
    return sorted([c, sorted(d["states"]), sorted(d["params"]), sorted(d["assigns"])] for c, d in comps.items())


_DERIV = re.compile(r"^d(\w+)_dt$")


def violations(text: str) -> dict:
    """independent well-formedness reading of a text: {"dup": [names with two DIFFERING definitions],
    "same": [names defined twice with identical kind+text], "missing": [...], "orphan": [...],
    "undefined": [...], "cycle": [...]} (empty lists omitted)"""
    items = parse_doc(text)
    defs, states_of, deps = {}, {}, {}
    for it in items:
        if it["kind"] in ("states", "parameters"):
            for e in it["entries"]:
                defs.setdefault(e["name"], []).append((it["kind"], " ".join(e["value"].split())))
                deps.setdefault(e["name"], set()).update(mg.expr_vars(mg.parse_expr(e["value"])))
                if it["kind"] == "states":
                    for c in it["comp"]:
                        states_of.setdefault(c, set()).add(e["name"])
        elif it["kind"] == "assign":
            defs.setdefault(it["name"], []).append(("assign", it["rhs"]))
            deps.setdefault(it["name"], set()).update(mg.expr_vars(mg.parse_expr(it["rhs"])))
    out = {"dup": [], "same": [], "missing": [], "orphan": [], "undefined": [], "cycle": []}
    for n, ds in defs.items():
        if len(ds) > 1:
            out["dup" if len(set(ds)) > 1 else "same"].append(n)
    derivs = {}
    for it in items:
        if it["kind"] == "assign" and _DERIV.match(it["name"]):
            s = _DERIV.match(it["name"]).group(1)
            for c in it["comp"]:
                derivs.setdefault(c, set()).add(s)
                if s not in states_of.get(c, ()):
                    out["orphan"].append(it["name"])
    for c, ss in states_of.items():
        out["missing"] += [s for s in ss if s not in derivs.get(c, ())]
    for n, ds in deps.items():
        out["undefined"] += [d for d in ds if d not in defs and d not in ("t", "time")]
    color = {}

    def visit(n, stack):
        color[n] = 1
        for d in sorted(deps.get(n, ())):
            if color.get(d) == 1:
                out["cycle"].append(d)
            elif d in deps and d not in color:
                visit(d, stack + [n])
        color[n] = 2

    for n in sorted(deps):
        if n not in color:
            visit(n, [])
    return {k: sorted(set(v)) for k, v in out.items() if v}


# --------------------------------------------------------------------------------------
# what is observed of gotranx
# --------------------------------------------------------------------------------------
def membership(ode) -> list:
    return sorted([c.name, sorted(a.name for a in c.states), sorted(a.name for a in c.parameters),
                   sorted(a.name for a in c.assignments)] for c in ode.components)


def layout(code: str) -> dict:
    mod = cm.exec_py(code)
    return {k: dict(mod[k]) for k in ("state", "parameter", "monitor") if k in mod}


@contextlib.contextmanager
def time_limit(sec: float):
    """raise TimeoutError in the running Python code after `sec` seconds (cannot interrupt one long C call)"""
    def handler(signum, frame):
        raise TimeoutError(f"time limit {sec}s")

    old = signal.signal(signal.SIGALRM, handler)
    signal.setitimer(signal.ITIMER_REAL, sec)
    try:
        yield
    finally:
        signal.setitimer(signal.ITIMER_REAL, 0)
        signal.signal(signal.SIGALRM, old)


def products(text: str, limit: float | None = None, schemes=()) -> dict:
    """load + generate; {"ode", "py", "c", "layout", "member", "secs"} or {"stage": load|py|c|slow, "exc": e}"""
    t0 = time.time()
    out = {}
    try:
        with time_limit(limit) if limit else contextlib.nullcontext():
            stage = "load"
            out["ode"] = cm.load(text)
            stage = "py"
            out["py"] = cm.py_code(out["ode"])
            stage = "c"
            out["c"] = cm.c_code(out["ode"])
    except TimeoutError as e:
        return {"stage": "slow", "exc": e}
    except Exception as e:  # noqa: BLE001
        return {"stage": stage, "exc": e}
    if limit and time.time() - t0 > limit:
        return {"stage": "slow", "exc": TimeoutError("slow")}
    out["member"] = membership(out["ode"])
    out["layout"] = layout(out["py"])
    out["secs"] = time.time() - t0
    return out


def first_diff(a: str, b: str) -> str:
    la, lb = a.splitlines(), b.splitlines()
    for i, (x, y) in enumerate(zip(la, lb)):
        if x != y:
            return f"line {i + 1}: {x.strip()[:120]!r} != {y.strip()[:120]!r}"
    return f"length {len(la)} != {len(lb)} lines"
