"""C10: the order in which blocks, declaration entries and assignment lines are written does not matter."""
from __future__ import annotations

import random

import common as cm
from oracles import _a_helpers as ah

ID = "C10"
RULE = """Base models come from modelgen.gen_model (1-5 states, 0-5 parameters, 0-8 intermediates, expression depth 1-3; six option
sets in rotation: single default component and 1-3 named components, with ScalarParam / trailing unit annotations and unused
names) and are re-rendered in a fixed layout: all comment lines first (so that the comment sequence is the same in every
ordering), then one line per states/parameters block and one expressions block per component.  One case = one base + one
permutation drawn from a seed: block-order (all top-level blocks shuffled, an expressions header travelling with its lines;
un-headed default-component lines are never put directly after a headed block, where the grammar would attach them to it),
entry-order (entries of every states/parameters block shuffled), line-order (assignment lines of every expressions block
shuffled: use before definition).  The independent reader (modelgen.RefModel) must see identical definitions and component
membership in both texts, otherwise the case is a harness error.  Checked: the permuted text loads; ODE.__eq__ (same name);
(signature suffix names the differing operand: comments / component-order / component-content); numpy and C code texts identical; state / parameter / monitor index tables of the exec'ed numpy module identical; and, in every
second case, numpy code with schemes explicit_euler + generalized_rush_larsen identical when the base generates them.  Bases that gotranx cannot
load/generate (or needs > 5 s for) are skipped.  quick: up to 1500 cases (500 per permutation kind), thorough: up to 18000.
Non-trivial = permuted text differs from the base text; distinct by sha1(base, permuted)."""

CASE_TIMEOUT = 45
BASE_LIMIT = 5.0
KINDS = ("block-order", "line-order", "entry-order")
SCHEMES = ["explicit_euler", "generalized_rush_larsen"]
FAILS = ("load-raises", "eq-false", "codegen-raises", "code-differs", "layout-differs", "scheme-code-differs", "hangs")


def blocks_of(text: str):
    """(comment lines, blocks) with blocks = {"kind": states|parameters, "comp", "entries"} | {"kind": "group", "comp", "lines"}"""
    items = ah.parse_doc(text)
    comments = [it["text"].strip() for it in items if it["kind"] == "comment"]
    blocks, cur = [], None
    for it in items:
        if it["kind"] in ("states", "parameters"):
            blocks.append({"kind": it["kind"], "comp": list(it["comp"]), "entries": [e["text"] for e in it["entries"]]})
            cur = None
        elif it["kind"] == "header":
            cur = {"kind": "group", "comp": list(it["comp"]), "lines": []}
            blocks.append(cur)
        elif it["kind"] == "assign":
            if cur is None:
                cur = {"kind": "group", "comp": [""], "lines": []}
                blocks.append(cur)
            cur["lines"].append(" ".join(it["text"].split("\n")))
    return comments, [b for b in blocks if b["kind"] != "group" or b["lines"]]


def render(comments, blocks) -> str:
    out = list(comments)
    for b in blocks:
        out.append("")
        if b["kind"] == "group":
            if b["comp"] != [""]:
                out.append(ah.header_text(b["comp"]))
            out += b["lines"]
        else:
            out.append(ah.decl_text(b["kind"], b["comp"], b["entries"]))
    return "\n".join(out).lstrip("\n") + "\n"


def _shuffled(rng, xs):
    """a permutation different from the identity (when one exists)"""
    for _ in range(8):
        ys = list(xs)
        rng.shuffle(ys)
        if ys != list(xs):
            return ys
    return list(reversed(xs))


def _legal(blocks) -> bool:
    for a, b in zip(blocks, blocks[1:]):
        if b["kind"] == "group" and b["comp"] == [""] and a["kind"] == "group":
            return False
    return True


def permute(blocks, kind, rng):
    bl = [dict(b) for b in blocks]
    if kind == "block-order":
        for _ in range(30):
            cand = _shuffled(rng, bl)
            if _legal(cand) and cand != bl:
                return cand, {"order": [f"{b['kind']}{b['comp']}" for b in cand]}
        return None
    key = "entries" if kind == "entry-order" else "lines"
    hit = [b for b in bl if len(b.get(key, [])) > 1 and len(set(b[key])) > 1]
    if not hit:
        return None
    for b in hit:
        b[key] = _shuffled(rng, b[key])
    return bl, {"shuffled-blocks": len(hit)}


def cases(tier, seed, focus):
    n = 1500 if tier == "quick" else 18000
    kinds = [k for k in KINDS if not focus or k in focus] or KINDS
    for j in range(n):
        k = kinds[j % len(kinds)]
        yield {"mseed": seed * 100003 + j // len(kinds), "opts": ah.model_opts(j // len(kinds)), "perm": k, "pseed": j, "schemes": j % 2 == 0,
               "tags": [f"C10:{f}:{k}" for f in FAILS if not f.endswith("raises")] + [f"C10:{f}:{x}:{k}" for f in ("load-raises", "codegen-raises", "eq-raises") for x in ah.EXCS]}


def build(case):
    if "base" in case and "ode" in case:
        return {k: case.get(k) for k in ("base", "ode", "perm", "desc", "schemes")}
    comments, blocks = blocks_of(ah.model_text(case))
    got = permute(blocks, case["perm"], random.Random(f"{case['mseed']}/{case['perm']}/{case['pseed']}"))
    if got is None:
        return None
    return {"base": render(comments, blocks), "ode": render(comments, got[0]), "perm": case["perm"], "desc": got[1], "schemes": bool(case.get("schemes"))}


def _eq_detail(a, b):
    """(sub-kind, text): which operand of ODE.__eq__ differs"""
    if a.comments != b.comments:
        return "comments", f"comments differ: {a.comments} != {b.comments}"
    na, nb = [c.name for c in a.components], [c.name for c in b.components]
    if sorted(na) == sorted(nb) and all(a.get_component(n) == b.get_component(n) for n in na):
        return "component-order", f"the component tuples hold pairwise equal components in a different order: {na} != {nb}"
    bad = [n for n in na if n not in nb or a.get_component(n) != b.get_component(n)]
    return "component-content", f"components {bad} differ (component names {na} vs {nb})"


def check(case):
    res = cm.new_result()
    try:
        c = build(case)
        if c is None:
            cm.note(res, f"skipped:nothing-to-permute:{case['perm']}")
            return res
        kind = c["perm"]
        if kind not in KINDS:
            raise ValueError(f"unknown permutation kind {kind}")
        same_ref = ah.ref_view(c["base"]) == ah.ref_view(c["ode"])
    except Exception as e:  # noqa: BLE001
        res["errors"].append(f"harness: cannot build case {case.get('perm')}/{case.get('mseed')}: {cm.exc_name(e)}: {cm.short(e)}")
        return res
    inp = {"base": c["base"], "ode": c["ode"], "perm": kind, "desc": c["desc"], "schemes": bool(c.get("schemes"))}
    if not same_ref:
        res["errors"].append(f"harness: the permutation changed the reference reading (definitions/membership) :: {cm.short(c['ode'], 400)}")
        return res
    base = ah.products(c["base"], BASE_LIMIT)
    if "stage" in base:
        cm.note(res, "skipped:base-model-slow" if base["stage"] == "slow" else "skipped:base-model-fails")
        return res
    res["evals"] += 1
    res["sample"] = inp
    if c["ode"] != c["base"]:
        res["nontrivial"].append(cm.sha([c["base"], c["ode"]]))

    def add(sig, what, exp=None, act=None, detail="", sub=""):
        res["failures"].append(cm.fail(f"C10:{sig}:{kind}" + (f":{sub}" if sub else ""), what, inp, exp, act, f"{detail} | permutation: {c['desc']}"))

    try:
        ode = cm.load(c["ode"])
    except Exception as e:  # noqa: BLE001
        add(f"load-raises:{cm.exc_name(e)}", "the permuted text does not load although the base does", "loads", cm.exc_site(e), cm.short(e))
        return res
    try:
        equal = bool(ode == base["ode"]) and bool(base["ode"] == ode)
    except Exception as e:  # noqa: BLE001
        equal = False
        add(f"eq-raises:{cm.exc_name(e)}", "ODE.__eq__ raises", True, cm.exc_site(e), cm.short(e))
    else:
        if not equal:
            sub, text = _eq_detail(base["ode"], ode)
            add("eq-false", "ODE.__eq__ is false between a model and its permuted text", True, False, text, sub)
    for name, gen, ref_code in (("numpy", cm.py_code, base["py"]), ("C", cm.c_code, base["c"])):
        try:
            code = gen(ode)
        except Exception as e:  # noqa: BLE001
            add(f"codegen-raises:{cm.exc_name(e)}", f"{name} generation raises for the permuted text only", "code", cm.exc_site(e), cm.short(e))
            continue
        if code != ref_code:
            add("code-differs", f"generated {name} code differs between the two orderings", None, None, f"{name}: " + ah.first_diff(ref_code, code))
        if name == "numpy":
            lay = ah.layout(code)
            if lay != base["layout"]:
                add("layout-differs", "state/parameter/monitor index tables differ", base["layout"], lay)
    if not c.get("schemes"):
        return res
    try:
        with ah.time_limit(BASE_LIMIT):
            sb = cm.py_code(base["ode"], schemes=SCHEMES)
    except Exception:  # noqa: BLE001 - scheme generation is not available for this base (C06 / slow): nothing to compare
        cm.note(res, "schemes-not-generated-for-base")
        return res
    try:
        sp = cm.py_code(ode, schemes=SCHEMES)
    except Exception as e:  # noqa: BLE001
        add(f"codegen-raises:{cm.exc_name(e)}", "numpy generation with schemes raises for the permuted text only", "code", cm.exc_site(e), cm.short(e))
        return res
    if sp != sb:
        add("scheme-code-differs", f"numpy code with schemes {SCHEMES} differs between the two orderings", None, None, ah.first_diff(sb, sp))
    return res


def on_timeout(case):
    res = cm.new_result()
    try:
        c = build(case)
    except Exception as e:  # noqa: BLE001
        res["errors"].append(f"harness: timeout on a case that cannot be rebuilt: {cm.short(e)}")
        return res
    if c is not None:
        res["evals"] += 1
        res["failures"].append(cm.fail(f"C10:hangs:{c['perm']}", f"base + permuted text not processed within {CASE_TIMEOUT} s (base alone is limited to {BASE_LIMIT} s)",
                                       {k: c.get(k) for k in ("base", "ode", "perm", "desc", "schemes")}, "an answer", "none"))
    return res


run, replay = cm.make_api(globals())
