"""C15: importing a Myokit / CellML model preserves states, constants and dynamics; exporting a
gotranx model back to Myokit preserves values, units and dynamics."""
from __future__ import annotations

import math
import os
import random
import re
import shutil
import tempfile
import time

import numpy as np
import myokit
import myokit.formats.cellml
import myokit.formats.sympy
import myokit.lib.guess

import common as cm
import modelgen as mg
import gotranx
import gotranx.myokit as gm

from . import _c15_mmtgen as mmtgen

ID = "C15"
RULE = """Models: every distinct *.mmt / *.cellml file under /repo (example.mmt, noble_1962.cellml, ToRORd_dynCl_mid.cellml; the
latter with 1 point in quick), 120 hand-written feature-isolating micro .mmt models (one Myokit operator / naming / nesting /
time-variable / pacing construct each) and seeded random .mmt models from oracles/_c15_mmtgen.py: 1-3 components (+ optional
engine component), 1-4 states, 1-3 constants and 0-3 intermediates per component, nested variables up to 3 levels deep, `use
c.v as alias`, numbers with units, in / desc / label / bind, if / piecewise / nested if over state-vs-constant comparisons
(< > <= >= == !=) joined by and / or / not over *different* states (no tautological, contradictory or identical-branch
conditionals: those are C01's), all Myokit operators incl. // % log10 log(a,b) floor ceil, optional `bind pace` + [[protocol]]
with or without a labelled stimulus current.  Seeds cycle through 3 profiles: 0 = the same local name reused across components
and nested scopes, names that are attributes of the sympy module (beta gamma E I S N Q O zeta pi Ci Si re ff), their `_` twins
(beta_ next to beta), the python keyword `lambda`, time variable named time|t|T; 1 = model-wide unique plain names (so that
operators are reached); 2 = additionally no ceil / != and positive thresholds only.  Every text is first loaded and validated by
Myokit itself (rejected text = harness error).  Reference = Myokit's own model: myokit.load, the clone on which
myokit.lib.guess.add_embedded_protocol embedded the protocol during the import (recorded, because Myokit's stimulus guess is not
reproducible on a second clone), create_unique_names; the expected gotranx name of a variable is its uname, plus `_` when it is
in gotranx.myokit.reserved_names.  Checked per model: the import succeeds; naming is injective; the gotranx state set equals
Myokit's with initial_values(); every Number-valued Myokit variable is a parameter with that value (other literal constants
may be parameters or closed intermediates with that value) and every gotranx parameter is a Myokit constant; after ode.save +
gotranx.load_ode + numpy code generation, initial states / parameter values are unchanged and rhs equals
Model.evaluate_derivatives(state, inputs={time: t}) of the embedded-protocol reference at the initial state (t = 0) and at 4
(quick) / 8 (thorough) states perturbed by 1 +- 1..5 % plus a +-1e-3 shift, at times mid-pulse, after the pulse and in later
periods (models without an embeddable protocol are compared with pace = its rhs 0; times 0, 1.7, 13, 250.5), rtol 1e-7 plus
1e-12 x the largest variable magnitude; points where Myokit's evaluation is not finite or lies within 1e-9 of a discontinuity
(floor / ceil / // / % at an integer, a comparison of nearly equal computed operands) are skipped.  A wrong derivative is
localised to the first wrong variable through the generated monitor_values and named after the construct in that variable's
expression.  gotran_to_myokit is run on the imported model (skipped when the import left undefined names), on the reloaded
model and on .ode texts (lorentz / fitzhughnagumo / beeler_reuter_1977 and modelgen models, 3 of 4 with every object in 1-3
components of Myokit-valid name, units on ScalarParams, features restricted to what Myokit expresses): the result validates,
has the same states / initial values, the same constants / values, the same units (imported: the units of the Myokit original;
else myokit.parse_unit of the .ode unit with ** -> ^; models with a unit Myokit cannot parse are skipped) and its
evaluate_derivatives equals the Myokit reference (imported / reloaded) or the independent reference evaluator of modelgen
(.ode text) at 2 points.  quick: repo models + 3 .ode files + 120 micro + 400 random .mmt + 120 .ode texts (interleaved
3:2:1); thorough: 6000 random .mmt + 1500 .ode texts.  One case = one (model, point) rhs comparison or one model-level
conversion step (import, save + reload, export); non-trivial when the model has an intermediate or nested variable and the
reference derivative is finite and not identically zero; distinct by sha1(model, point).  Failing random models are
delta-debugged with Myokit (drop the protocol, drop a variable replacing its references by its value, replace a sub-expression
by its value; never creating a constant condition) while the same signature persists."""

USES_SHRINK = True
CASE_TIMEOUT = 90
ODE_FILES = ["/repo/tests/odefiles/lorentz.ode", "/repo/tests/odefiles/fitzhughnagumo.ode", "/repo/tests/odefiles/beeler_reuter_1977.ode"]
ODE_FEATURES = ["exp", "log", "ln", "sqrt", "sin", "cos", "tan", "asin", "acos", "atan", "abs", "Abs", "floor", "Mod", "Conditional",
                "Lt", "Gt", "Le", "Ge", "Eq", "Not", "And2", "Or2", "pow", "intquot", "sci", "time", "t", "unary", "nestcond"]
T_IMPORT = ["C15:import-raises", "C15:name-not-unique", "C15:state-", "C15:constant-", "C15:parameter-extra"]
T_RHS = ["C15:save-raises", "C15:reload-raises", "C15:reloaded-", "C15:codegen-raises", "C15:generated-module-invalid", "C15:rhs-"]
T_BACK = ["C15:to-myokit-"]


def repo_models():
    seen, out = set(), []
    for root, _, files in sorted(os.walk("/repo")):
        if "/." in root or "node_modules" in root:
            continue
        for f in sorted(files):
            if f.endswith((".mmt", ".cellml")):
                p = os.path.join(root, f)
                h = cm.sha(open(p, "rb").read())
                if h not in seen:
                    seen.add(h)
                    out.append(p)
    return sorted(out, key=os.path.getsize)


def cases(tier, seed, focus):
    quick = tier == "quick"
    npts = 4 if quick else 8
    tags = T_IMPORT + T_RHS + T_BACK
    # a focus on the import / reload stage stops each model after that stage (more models within the budget)
    stage = max([k for k, ts in ((2, T_IMPORT), (3, T_RHS), (4, T_BACK)) if any(cm.focus_match(t, focus) for t in ts)] or [4])
    extra = {"_stage": stage} if stage < 4 else {}
    for p in repo_models():
        big = os.path.getsize(p) > 200000
        yield dict({"repo": p, "npts": 1 if big and quick else npts, "pseed": seed, "tags": tags}, **extra)
    for f in ODE_FILES:
        yield {"ode_file": f, "tags": T_BACK}
    micro = [dict({"micro": k, "npts": npts, "pseed": seed, "tags": T_RHS + T_BACK if k.startswith("op-") else tags}, **extra) for k in mmtgen.MICRO]
    n_mmt, n_ode = (400, 120) if quick else (6000, 1500)
    gen = [dict({"gseed": seed * 100003 + i, "npts": npts, "pseed": seed, "tags": tags}, **extra) for i in range(n_mmt)]
    odes = [{"mseed": seed * 100003 + i, "tags": T_BACK} for i in range(n_ode)]
    # interleave 3 micro : 2 random : 1 .ode text, so that the cheap diagnostic micro models are all done early
    im, ig, io = iter(micro), iter(gen), iter(odes)
    live = [im, im, im, ig, ig, io]
    while live:
        for it in list(live):
            try:
                yield next(it)
            except StopIteration:
                live = [x for x in live if x is not it]


# --------------------------------------------------------------------------------------
# the Myokit side (reference)
# --------------------------------------------------------------------------------------
def expected_name(v):
    n = v.uname()
    return n + "_" if n in gm.reserved_names else n


class Embedding:
    """records (a clone of) the model that myokit.lib.guess.add_embedded_protocol produced while gotranx imported a file.
    Myokit's stimulus guess breaks ties in an order that differs between two clones of one model, so the reference must be
    the very embedding gotranx was given, not a second one"""

    def __enter__(self):
        self.got, self.orig = [], myokit.lib.guess.add_embedded_protocol

        def wrapped(model, protocol, *a, **k):
            ok = self.orig(model, protocol, *a, **k)
            self.got.append((model.clone(), bool(ok)))
            return ok

        myokit.lib.guess.add_embedded_protocol = wrapped
        return self

    def __exit__(self, *a):
        myokit.lib.guess.add_embedded_protocol = self.orig


class BadEmbedding(Exception):
    pass


class Ref:
    """Myokit's own reading of the file: protocol embedded on a clone (myokit.lib.guess), unique names"""

    def __init__(self, path, kind, embedding=()):
        self.embedded, self.protocol = False, None
        with cm.quiet():
            if kind == "mmt":
                model, protocol, _ = myokit.load(path)
                model.validate()
                if protocol is not None:
                    if embedding:
                        model, self.embedded = embedding[-1]
                    else:
                        model = model.clone()
                        self.embedded = bool(myokit.lib.guess.add_embedded_protocol(model, protocol))
                    self.protocol = protocol
                    try:
                        model.validate()
                    except Exception as e:  # noqa: BLE001 - Myokit's stimulus guess can produce an illegal reference
                        raise BadEmbedding(str(e)) from None
            else:
                model = myokit.formats.cellml.CellMLImporter().model(path)
            model.validate()
            model.create_unique_names()
        self.model, self.tvar = model, model.time()
        self.vars = [v for v in model.variables(deep=True) if v is not self.tvar]
        self.states = list(model.states())
        self.name = {v: expected_name(v) for v in self.vars}
        self.init = [float(x) for x in model.initial_values(as_floats=True)]
        self.times = [0.0, 1.7, 13.0, 250.5]
        if self.embedded:
            e = protocol.head()
            s, d, p = e.start(), e.duration(), e.period()
            self.times = [0.0, s + d / 2, s + d + 0.37 * (p - d), s + p + d / 4, s + 3 * p + d / 2, s + 2 * p - 0.1 * (p - d)]

    def constants(self):
        """(variable, value, is_number) of every literal constant"""
        out = []
        for v in self.vars:
            if not v.is_state() and v.rhs().is_literal() and not self.fragile(None, only=v.rhs()):  # incl. bound variables (pace) with a literal rhs
                try:
                    out.append((v, float(v.rhs().eval()), isinstance(v.rhs(), myokit.Number)))
                except Exception:  # noqa: BLE001 - 1 / 0 and the like
                    pass
        return out

    def nontrivial_model(self):
        return any((not v.is_state() and not v.rhs().is_literal()) or v.is_nested() for v in self.vars)

    def points(self, pseed, n):
        rng = random.Random(f"c15-pts/{pseed}")
        qn = [s.qname() for s in self.states]
        pts = [{"t": 0.0, "states": dict(zip(qn, self.init))}]
        for i in range(n):
            st = {q: v * (1 + rng.choice([-1, 1]) * 0.05 * rng.uniform(0.2, 1)) + rng.uniform(-1e-3, 1e-3) for q, v in zip(qn, self.init)}
            pts.append({"t": self.times[(i + 1) % len(self.times)], "states": st})
        return pts

    def eval(self, pt):
        """None (Myokit's evaluation is not finite, or the point is within 1e-9 of a discontinuity) or
        (derivatives by state qname, magnitude of the largest variable, values by Myokit lhs)"""
        m = self.model
        state = [float(pt["states"][s.qname()]) for s in self.states]
        try:
            with np.errstate(all="ignore"), cm.quiet():
                want = m.evaluate_derivatives(state=state, inputs={"time": pt["t"]}, ignore_errors=True)
                vals = {myokit.Name(s): x for s, x in zip(self.states, state)}
                if self.tvar is not None:
                    vals[myokit.Name(self.tvar)] = float(pt["t"])
                for grp in m.solvable_order().values():
                    for eq in grp:
                        if eq.lhs not in vals:
                            try:
                                vals[eq.lhs] = eq.rhs.eval(vals)
                            except Exception:  # noqa: BLE001
                                vals[eq.lhs] = float("nan")
                want = [float(w) for w in want]
                mags = [abs(float(x)) for x in vals.values()]
                if not all(math.isfinite(x) for x in want + mags) or self.fragile(vals):
                    return None
        except Exception:  # noqa: BLE001
            return None
        return {s.qname(): w for s, w in zip(self.states, want)}, max(mags + [1.0]), vals

    def fragile(self, vals, only=None):
        """a comparison with (nearly) equal operands that are not both plain names / numbers, or floor / ceil / // / %
        at (nearly) an integer: rounding may legitimately select the other side"""
        if not hasattr(self, "_jumps"):
            self._jumps = [e for v in self.model.variables(deep=True) for e in v.rhs().walk() if isinstance(e, RELS + JUMPS)]
        near = lambda x: abs(x - round(x)) <= 1e-9 * max(1.0, abs(x))  # noqa: E731
        for e in self._jumps if only is None else [x for x in only.walk() if isinstance(x, RELS + JUMPS)]:
            try:
                a = float(e[0].eval(vals))
                if isinstance(e, (myokit.Floor, myokit.Ceil)):
                    if near(a):
                        return True
                    continue
                b = float(e[1].eval(vals))
                if isinstance(e, RELS):
                    plain = all(isinstance(x, (myokit.Name, myokit.Number)) or (isinstance(x, myokit.PrefixMinus) and isinstance(x[0], myokit.Number)) for x in e)
                    if abs(a - b) <= 1e-9 * max(abs(a), abs(b)) and not (a == b and plain):
                        return True
                elif near(a / b):
                    return True
            except Exception:  # noqa: BLE001
                continue
        return False


RELS = (myokit.Equal, myokit.NotEqual, myokit.More, myokit.Less, myokit.MoreEqual, myokit.LessEqual)
JUMPS = (myokit.Floor, myokit.Ceil, myokit.Quotient, myokit.Remainder)
OP_PRIORITY = [("quotient", myokit.Quotient), ("remainder", myokit.Remainder), ("log10", myokit.Log10), ("log-base", "log2"), ("ceil", myokit.Ceil),
               ("floor", myokit.Floor), ("eq", myokit.Equal), ("ne", myokit.NotEqual), ("ge", myokit.MoreEqual), ("le", myokit.LessEqual),
               ("not", myokit.Not), ("and", myokit.And), ("or", myokit.Or), ("piecewise", myokit.Piecewise), ("if", myokit.If), ("gt", myokit.More), ("lt", myokit.Less), ("abs", myokit.Abs),
               ("sqrt", myokit.Sqrt), ("power", myokit.Power), ("tan", myokit.Tan), ("asin", myokit.ASin), ("acos", myokit.ACos), ("atan", myokit.ATan),
               ("sin", myokit.Sin), ("cos", myokit.Cos), ("exp", myokit.Exp), ("log", myokit.Log), ("prefix-minus", myokit.PrefixMinus),
               ("prefix-plus", myokit.PrefixPlus), ("divide", myokit.Divide), ("minus", myokit.Minus), ("times", myokit.Multiply), ("plus", myokit.Plus)]


def degenerate(model):
    """a comparison without a variable or a conditional with identical branches: those are property C01's known
    degenerate conditionals, kept out of C15's generated models and shrink candidates"""
    for v in model.variables(deep=True):
        for e in v.rhs().walk():
            if isinstance(e, (myokit.Equal, myokit.NotEqual, myokit.More, myokit.Less, myokit.MoreEqual, myokit.LessEqual)) and e.is_constant():
                return True
            if isinstance(e, myokit.If):
                e = e.piecewise()
            if isinstance(e, myokit.Piecewise):
                try:  # branches that SymPy's automatic evaluation makes identical (x * h and h * x, 0.75 - k + k and 0.75)
                    import sympy as sp

                    sy = [myokit.formats.sympy.write(p) for p in e.pieces()]
                    same = any(sp.expand(a - b) == 0 for i, a in enumerate(sy) for b in sy[:i])
                except Exception:  # noqa: BLE001
                    codes = [p.code() for p in e.pieces()]
                    same = len(set(codes)) < len(codes)
                if same:
                    return True
                mine = {r.var() for c in e.conditions() for r in c.references()}
                for p in e.pieces():  # a conditional nested in a branch and testing the same variable: unreachable branches
                    for q in p.walk():
                        if isinstance(q, (myokit.If, myokit.Piecewise)):
                            cs = [q.condition()] if isinstance(q, myokit.If) else list(q.conditions())
                            if mine & {r.var() for c in cs for r in c.references()}:
                                return True
    return False


def closure(variables):
    todo, seen = list(variables), []
    while todo:
        v = todo.pop()
        if v in seen:
            continue
        seen.append(v)
        todo += [r.var() for r in v.rhs().references()]
    return seen


def name_construct(ref: Ref, v):
    """how the gotranx name of a Myokit variable differs from the name written in the model's expressions"""
    if ref.name.get(v, v.name()) == v.name():
        return None
    where = "nested" if v.is_nested() else "toplevel"
    return f"{where}-{'reserved' if v.uname() in gm.reserved_names else 'renamed'}-name"


def construct(ref: Ref, variables, deep=True, vals=None):
    """names the construct behind a wrong value of `variables`: a nested variable whose gotranx name differs from the
    name written in the expressions (the import has to substitute it), then the time variable, then the highest-priority
    Myokit operator; deep: over the whole dependency closure, else over the expressions of `variables` alone"""
    cl = closure(variables) if deep else list(variables) + [r.var() for v in variables for r in v.rhs().references()]
    kinds = sorted({k for k in (name_construct(ref, v) for v in cl if v is not ref.tvar) if k and k.startswith("nested")})
    if kinds:
        return kinds[0]
    if ref.tvar is not None and ref.tvar in cl and ref.tvar.name() != "time":
        return "time-variable-name"
    if ref.tvar is not None and ref.tvar in cl and ref.tvar.uname() != "time":
        return "time-variable-renamed"
    types = set()
    neg = {myokit.Less: myokit.MoreEqual, myokit.More: myokit.LessEqual, myokit.LessEqual: myokit.More, myokit.MoreEqual: myokit.Less,
           myokit.Equal: myokit.NotEqual, myokit.NotEqual: myokit.Equal}
    edge = set()  # comparisons whose operands are equal at this point: only there <, <=, == differ
    for v in (cl if deep else variables):
        for e in v.rhs().walk():  # not (a < b) is a >= b for SymPy
            t = "log2" if isinstance(e, myokit.Log) and len(e) == 2 else neg[type(e[0])] if isinstance(e, myokit.Not) and type(e[0]) in neg else type(e)
            types.add(t)
            r = e[0] if isinstance(e, myokit.Not) else e
            try:
                if vals is not None and isinstance(r, RELS) and float(r[0].eval(vals)) == float(r[1].eval(vals)):
                    edge.add(t)
            except Exception:  # noqa: BLE001
                pass
    for k, t in OP_PRIORITY:
        if t in (edge or types):
            return k
    return "plain"


def culprit(ref: Ref, mod, vals, scale, t, s, p0):
    """the Myokit variables whose value in the generated module differs while everything they refer to agrees
    (compared through the generated monitor_values); [] when that cannot be told"""
    try:
        with cm.quiet():
            mon = np.asarray(mod["monitor_values"](t, s, p0), dtype=float)
        got = {}
        for v in ref.vars:
            n = "d" + ref.name[v] + "_dt" if v.is_state() else ref.name[v]
            if n in mod["monitor"]:
                got[v] = mon[mod["monitor_index"](n)]
            elif n in mod["parameter"]:
                got[v] = p0[mod["parameter_index"](n)]
        bad = [v for v in got if not cm.close(got[v], float(vals[v.lhs()]), 1e-7, 1e-12 * scale)]
        return [v for v in bad if not any(r.var() in bad for r in v.rhs().references() if not r.var().is_state())]
    except Exception:  # noqa: BLE001
        return []


# --------------------------------------------------------------------------------------
# the check
# --------------------------------------------------------------------------------------
def source(case):
    if "repo" in case:
        p = case["repo"]
        return ("cellml" if p.endswith(".cellml") else "mmt"), None, p
    if "micro" in case:
        return "mmt", mmtgen.MICRO[case["micro"]], None
    if "gseed" in case:
        return "mmt", mmtgen.gen_mmt(int(case["gseed"])), None
    return "mmt", case["mmt"], None


def fval(x):
    for f in (float, lambda e: float(e.doit()), lambda e: float(e.evalf())):
        try:
            return f(x)
        except Exception:  # noqa: BLE001
            continue
    return float("nan")


def fval_double(expr):
    """value of a closed SymPy expression in double arithmetic (SymPy's own Float arithmetic leaves 1e-125 residues)"""
    import sympy as sp

    try:
        with np.errstate(all="ignore"):
            return float(sp.lambdify([], expr, "math")())
    except Exception:  # noqa: BLE001
        return float("nan")


def check(case):
    res = cm.new_result()
    try:
        if "ode" in case or "ode_file" in case or "mseed" in case:
            return check_ode(case, res)
        d = tempfile.mkdtemp(prefix="replay_c15_", dir=RUNDIR or cm.TMPROOT)
        try:
            return check_myokit(case, res, d)
        finally:
            shutil.rmtree(d, ignore_errors=True)
    except Exception as e:  # noqa: BLE001
        import traceback

        res["errors"].append(f"C15 harness exception: {cm.exc_name(e)}: {cm.short(e)} :: {traceback.format_exc()[-500:]}")
        return res


def check_myokit(case, res, d):
    kind, text, path = source(case)
    if text is not None:
        path = os.path.join(d, "m.mmt")
        with open(path, "w") as f:
            f.write(text)
    # the import runs first so that the reference can be built on the protocol embedding Myokit made for it
    imp_exc = ode = None
    with Embedding() as emb:
        try:
            with cm.quiet():
                ode = gm.mmt_to_gotran(path) if kind == "mmt" else gm.cellml_to_gotran(path)
        except Exception as e:  # noqa: BLE001
            imp_exc = e
    try:
        ref = Ref(path, kind, emb.got)
    except BadEmbedding:
        cm.note(res, "model-skipped-because-myokit-embedded-the-protocol-into-an-invalid-model")
        return res
    except Exception as e:  # noqa: BLE001 - Myokit itself rejects the file: the generator's fault
        res["errors"].append(f"myokit rejects {'generated model ' + str({k: case[k] for k in ('micro', 'gseed') if k in case}) if text else path}: {cm.exc_name(e)}: {cm.short(e)}")
        return res
    if text is not None and degenerate(ref.model):
        cm.note(res, "model-with-degenerate-conditional-skipped")
        return res
    base_inp = {"mmt": text} if text is not None else {"repo": path}
    res["sample"] = dict(base_inp, npts=case.get("npts", 4), pseed=case.get("pseed", 0))
    shr = text is not None and "gseed" in case and not case.get("_noshrink")
    key = text if text is not None else path

    def add(sig, what, inp, exp=None, act=None, detail="", base=None):
        f = cm.fail(sig, what, inp, exp, act, detail)
        if shr:
            f["_shrink"] = {"base": base or sig}
        res["failures"].append(f)

    # ---- 1. import ----------------------------------------------------------------------------
    cm.note(res, "models")
    res["evals"] += 1
    if imp_exc is not None:
        e = imp_exc
        dup = sorted(n for n in set(ref.name.values()) if list(ref.name.values()).count(n) > 1)
        add(f"C15:import-raises:{cm.exc_site(e)}", f"{kind}_to_gotran raises for a model that Myokit loads and validates", base_inp, "a gotranx ODE",
            cm.exc_name(e), cm.short(e) + (f" | Myokit variables mapped to the same gotranx name: {dup}" if dup else ""))
        return res
    cm.note(res, "models-imported")
    # ---- 2. states / constants under their unique names -------------------------------------------
    nm = ref.name
    dup = sorted(n for n in set(nm.values()) if list(nm.values()).count(n) > 1)
    if dup:
        add("C15:name-not-unique", "two Myokit variables are given the same gotranx name", base_inp, "injective naming", dup,
            str({v.qname(): nm[v] for v in ref.vars if nm[v] in dup}))
    gst = {s.name: fval(s.value) for s in ode.states}
    gpar = {p.name: fval(p.value) for p in ode.parameters}
    gint = {i.name: i for i in ode.intermediates}
    for v, x0 in zip(ref.states, ref.init):
        if nm[v] not in gst:
            add("C15:state-missing", f"Myokit state {v.qname()} is no gotranx state `{nm[v]}`", base_inp, nm[v], sorted(gst))
        elif not cm.close(gst[nm[v]], x0, 1e-14, 0):
            add("C15:state-value-changed", f"initial value of state {v.qname()} differs", base_inp, x0, gst[nm[v]])
    extra = sorted(set(gst) - {nm[v] for v in ref.states})
    if extra:
        add("C15:state-extra", "gotranx has states that are no Myokit states", base_inp, sorted(nm[v] for v in ref.states), extra)
    cnames = set()
    for v, val, is_num in ref.constants():
        n = nm[v]
        cnames.add(n)
        if n in gpar:
            got = gpar[n]
        elif not is_num and n in gint and not gint[n].expr.free_symbols:
            got = fval_double(gint[n].expr)
            cm.note(res, "literal-constant-imported-as-intermediate")
            if math.isnan(got):  # the harness cannot evaluate the unevaluated SymPy expression: covered by the rhs comparison
                cm.note(res, "literal-constant-not-evaluable")
                continue
        else:
            add("C15:constant-missing", f"Myokit constant {v.qname()} = {v.rhs().code()} is no gotranx parameter `{n}`", base_inp, n, sorted(gpar))
            continue
        if not cm.close(got, val, 1e-14 if is_num else 1e-9, 0 if is_num else 1e-9):
            add("C15:constant-value-changed", f"value of constant {v.qname()} differs", base_inp, val, got)
    extra = sorted(set(gpar) - cnames)
    if extra:
        tn = ref.tvar is not None and (ref.tvar.uname() in extra or ref.tvar.uname() + "_" in extra)
        add("C15:parameter-extra" + (":time-variable" if tn else ""), "gotranx has parameters that are no Myokit constants" +
            (f" (the time variable {ref.tvar.qname()} became a parameter)" if tn else ""), base_inp, sorted(cnames), extra)
    # ---- 3. save, reload, numpy rhs ---------------------------------------------------------------
    pts = case.get("points") or ref.points(case.get("pseed", 0), int(case.get("npts", 4)))
    stage = case.get("_stage", 4)
    if stage < 3:
        return res
    nf = len(res["failures"])
    mod = reload_and_compare(case, res, ref, ode, d, base_inp, pts, key, add)
    if stage < 4:
        return res
    if any(f["signature"].startswith("C15:rhs-") for f in res["failures"][nf:]):
        mod = None  # exporting a reloaded model that is already wrong tells nothing new
    # ---- 4. back to Myokit ----------------------------------------------------------------------------
    defined = {x.name for x in list(ode.states) + list(ode.parameters) + list(ode.intermediates)} | {"t", "time"}
    if {sym.name for a in list(ode.state_derivatives) + list(ode.intermediates) for sym in a.expr.free_symbols} - defined:
        cm.note(res, "export-of-imported-model-skipped-because-the-import-left-undefined-names")  # reported by the reload / rhs stage
    else:
        to_myokit(res, ode, "imported", base_inp, add, ref=ref, units_of_ref=True, pts=pts[:2])
    if mod is not None:
        to_myokit(res, mod[0], "imported+reloaded", base_inp, add, ref=ref, pts=pts[:2])
    return res


def reload_and_compare(case, res, ref, ode, d, base_inp, pts, key, add):
    nm = ref.name
    f = os.path.join(d, "m.ode")
    res["evals"] += 1
    try:
        with cm.quiet():
            ode.save(f)
    except Exception as e:  # noqa: BLE001
        add(f"C15:save-raises:{cm.exc_site(e)}", "ODE.save raises for an imported model", base_inp, "an .ode file", cm.exc_name(e), cm.short(e))
        return None
    try:
        with cm.quiet():
            ode2 = gotranx.load_ode(f)
    except Exception as e:  # noqa: BLE001
        sub, detail = "", ""
        m = re.search(r"Symbol '([^']+)'", str(e))
        if m:
            vs = [v for v in ref.vars if v.name() == m.group(1)]
            ks = sorted({k for k in (name_construct(ref, v) for v in vs) if k})
            sub = ":" + (ks[0] if ks else "other")
            detail = f" | `{m.group(1)}` is the local name of {[v.qname() + ' -> ' + nm[v] for v in vs]}"
        m = re.search(r"Previous tokens: \[Token\('VARIABLE', '(\w+)'\)\]", str(e))
        if m and not sub:  # re / im / cosh: SymPy rewrote abs(exp(z)) for the complex symbols of the imported model
            sub = ":after-" + ("complex-rewrite" if m.group(1) in COMPLEX else m.group(1))
        sig = f"C15:reload-raises:{cm.exc_site(e)}"
        add(sig + sub, "the .ode file saved from the imported model cannot be loaded", base_inp, "a loadable .ode file", cm.exc_name(e), cm.short(e) + detail)
        return None
    try:
        code = cm.py_code(ode2)
    except Exception as e:  # noqa: BLE001
        m = re.search(r"Unsupported by .*?: (\w+)", str(e))
        sub = ":" + ("complex-rewrite" if m.group(1) in COMPLEX else m.group(1)) if m else ""
        add(f"C15:codegen-raises:{cm.exc_site(e)}{sub}", "numpy code generation raises for the reloaded model", base_inp, "code", cm.exc_name(e), cm.short(e))
        return None
    try:
        mod = cm.exec_py(code)
        s0, p0 = np.asarray(mod["init_state_values"](), dtype=float), np.asarray(mod["init_parameter_values"](), dtype=float)
    except Exception as e:  # noqa: BLE001
        add(f"C15:generated-module-invalid:{cm.exc_name(e)}", "generated numpy module of the reloaded model does not import", base_inp, "importable module", cm.exc_name(e), cm.short(e))
        return None
    missing = sorted(nm[v] for v in ref.states if nm[v] not in mod["state"])
    if missing or len(mod["state"]) != len(ref.states):
        add("C15:reloaded-state-missing", "states of the reloaded model differ from Myokit's", base_inp, sorted(nm[v] for v in ref.states), sorted(mod["state"]))
        return ode2, mod
    for v, x0 in zip(ref.states, ref.init):
        g = s0[mod["state_index"](nm[v])]
        if not cm.close(g, x0, 1e-14, 0):
            add("C15:reloaded-state-value-changed", f"initial value of state {v.qname()} differs after save + load", base_inp, x0, float(g))
    for v, val, is_num in ref.constants():
        if nm[v] in mod["parameter"]:
            g = p0[mod["parameter_index"](nm[v])]
            if not cm.close(g, val, 1e-14, 0):
                add("C15:reloaded-constant-value-changed", f"value of constant {v.qname()} differs after save + load", base_inp, val, float(g))
    nontriv = ref.nontrivial_model()
    cm.note(res, "models-reloaded-and-compiled")
    for pt in pts:
        ev = ref.eval(pt)
        if ev is None:
            cm.note(res, "points-skipped-myokit-not-finite-or-at-a-discontinuity")
            continue
        want, scale, vals = ev
        res["evals"] += 1
        inp = dict(base_inp, points=[pt])
        if nontriv and any(w != 0 for w in want.values()):
            res["nontrivial"].append(cm.sha([key, pt]))
        s = np.array(s0)
        for v in ref.states:
            s[mod["state_index"](nm[v])] = pt["states"][v.qname()]
        try:
            with cm.quiet():
                got = np.asarray(mod["rhs"](pt["t"], s, np.array(p0)), dtype=float)
            if got.shape != (len(ref.states),):
                raise ValueError(f"rhs returns shape {got.shape}")
        except Exception as e:  # noqa: BLE001
            sig = f"C15:rhs-raises:{cm.exc_name(e)}"
            add(sig, "generated rhs of the reloaded model raises where Myokit evaluates the model", inp, want, cm.exc_name(e), cm.short(e))
            break
        bad = {v: float(got[mod["state_index"](nm[v])]) for v in ref.states
               if not cm.close(got[mod["state_index"](nm[v])], want[v.qname()], 1e-7, 1e-12 * scale)}
        if bad:
            first = culprit(ref, mod, vals, scale, pt["t"], s, np.array(p0))
            kind = construct(ref, first, deep=False, vals=vals) if first else construct(ref, list(bad))
            v0 = sorted(bad, key=lambda v: v.qname())[0]
            where = f"first wrong variable(s): {[v.qname() + ' = ' + v.rhs().code()[:100] for v in first]} | " if first else ""
            add(f"C15:rhs-differs:{kind}", f"d{nm[v0]}_dt of the reloaded model differs from Myokit's dot({v0.qname()}) = {v0.rhs().code()[:120]}", inp,
                {v.qname(): want[v.qname()] for v in bad}, {v.qname(): g for v, g in bad.items()},
                where + "generated: " + "; ".join(gen_lines(code, first or closure(list(bad)), nm))[:900])
            break
    else:
        cm.note(res, "models-rhs-equal-at-all-points")
    return ode2, mod


def gen_lines(code, variables, nm):
    names = {("d" + nm[v] + "_dt" if v.is_state() else nm[v]) for v in variables if v in nm} | {v.name() for v in variables}
    out = []
    for ln in code.split("def rhs(")[1].split("\ndef ")[0].splitlines():
        if ln.strip().split(" =")[0] in names:
            out.append(ln.strip()[:200])
    return out


COMPLEX = ("re", "im", "cosh", "sinh", "tanh", "arg", "sign", "conjugate", "Abs", "atan2")


def keyerror_kind(ode, k, ref):
    """why the SymPy reader of gotran_to_myokit cannot resolve a name.  Which unresolvable name is met first depends on
    set iteration order, so the kind is the highest-ranking one over *all* names of the model's expressions (k included)"""
    import sympy as sp

    defined = {x.name for x in list(ode.states) + list(ode.parameters) + list(ode.intermediates)}
    syms = {sym for a in list(ode.state_derivatives) + list(ode.intermediates) for sym in a.expr.free_symbols}
    kinds = set()
    for n in {k} | {sym.name for sym in syms}:
        if ref is not None and n not in defined and any((name_construct(ref, v) or "").startswith("nested") for v in ref.vars if v.name() == n):
            kinds.add("dangling-nested-name")  # left behind by the import
        elif any(sym.name == n and sym != sp.Symbol(n) for sym in syms) and n in defined:
            kinds.add("symbol-assumptions")  # defined, but the expression holds Symbol(n, real=True) != Symbol(n)
        elif n == "t" and n not in defined:
            kinds.add("time-symbol")
        elif n == k:
            kinds.add("defined-symbol" if n in defined else "undefined-symbol")
    return [x for x in ("dangling-nested-name", "symbol-assumptions", "time-symbol", "defined-symbol", "undefined-symbol") if x in kinds][0]


def to_myokit(res, ode, label, base_inp, add, ref=None, units_of_ref=False, expect=None, pts=()):
    """gotran_to_myokit(ode): validates, same states / constants / units, same derivatives.  `ref` (imported models): the
    Myokit original, giving the expected derivatives (and, for the directly imported model, units); `expect(pt)`
    (.ode text): (derivatives, state values, scale) by state name from the independent reference evaluator"""
    res["evals"] += 1
    inp = dict(base_inp, export=label) if ref is not None else dict(base_inp)
    try:
        with cm.quiet():
            mk = gm.gotran_to_myokit(ode)
            mk.validate()
    except Exception as e:  # noqa: BLE001
        for a in (list(ode.states) + list(ode.parameters) + list(ode.intermediates)) if isinstance(e, myokit.ParseError) else []:
            try:
                myokit.parse_unit((a.unit_str or "1").replace("**", "^"))
            except Exception:  # noqa: BLE001 - a unit Myokit cannot spell: outside the property
                cm.note(res, "model-with-a-unit-myokit-cannot-parse-skipped")
                return
        sub = ""
        if isinstance(e, myokit.InvalidNameError):
            names = [c.name for c in ode.components]
            sub = ":unnamed-component" if "" in names else ":component-name" if any(not re.fullmatch(r"[a-zA-Z]\w*", n) for n in names) else ":variable-name"
        elif isinstance(e, ValueError) and "Unsupported type" in str(e):
            typ = re.sub(r"[^A-Za-z0-9_]", "", str(e).split("Unsupported type:")[1].replace("<class", "").split(".")[-1])
            sub = ":unsupported-" + ("complex-rewrite" if typ in COMPLEX else typ)
        elif isinstance(e, KeyError) and e.args:
            sub = ":" + keyerror_kind(ode, str(e.args[0]), ref if units_of_ref else None)
        add(f"C15:to-myokit-raises:{cm.exc_site(e)}{sub}", f"gotran_to_myokit raises for the {label} model", inp, "a Myokit model", cm.exc_name(e), cm.short(e))
        return
    cm.note(res, f"exports-ok:{label}")
    byname = {}
    tv = mk.time()
    for v in mk.variables(deep=True):
        if v is not tv:
            byname.setdefault(v.name(), []).append(v)

    def var(n):
        return byname[n][0] if len(byname.get(n, [])) == 1 else None

    for s in ode.states:
        v = var(s.name)
        if v is None or not v.is_state():
            add("C15:to-myokit-state-missing", f"state {s.name} of the {label} model is no state of the Myokit model", inp, s.name, sorted(x.name() for x in mk.states()))
        elif not cm.close(v.initial_value(as_float=True), fval(s.value), 1e-14, 0):
            add("C15:to-myokit-value-changed", f"initial value of state {s.name} differs in the Myokit model ({label})", inp, fval(s.value), float(v.initial_value(as_float=True)))
    if mk.count_states() != len(ode.states):
        add("C15:to-myokit-state-extra", f"the Myokit model has {mk.count_states()} states, the {label} model {len(ode.states)}", inp, len(ode.states), mk.count_states())
    for p in ode.parameters:
        v = var(p.name)
        if v is None or v.is_state() or not v.is_literal():
            add("C15:to-myokit-constant-missing", f"parameter {p.name} of the {label} model is no literal constant of the Myokit model", inp, p.name, None)
        elif not cm.close(float(v.rhs().eval()), fval(p.value), 1e-14, 0):
            add("C15:to-myokit-value-changed", f"value of parameter {p.name} differs in the Myokit model ({label})", inp, fval(p.value), float(v.rhs().eval()))
    units = {}
    if units_of_ref:  # round trip Myokit -> gotranx -> Myokit
        units = {ref.name[v]: v.unit() for v in ref.vars}
    else:
        for a in list(ode.states) + list(ode.parameters) + list(ode.intermediates):
            try:
                units[a.name] = None if a.unit_str is None else myokit.parse_unit(a.unit_str.replace("**", "^"))
            except Exception:  # noqa: BLE001 - a unit Myokit cannot spell: outside the property
                cm.note(res, "unit-not-myokit-parsable")
    for n in sorted(units):
        v = var(n)
        if v is not None and v.unit() != units[n]:
            add("C15:to-myokit-unit-changed", f"unit of {n} differs in the Myokit model ({label})", inp, str(units[n]), str(v.unit()))
            break
    mst = list(mk.states())
    for pt in pts:
        if ref is not None:
            ev = ref.eval(pt)
            if ev is None:
                continue
            want, scale = {ref.name[v]: ev[0][v.qname()] for v in ref.states}, ev[1]
            vals = {ref.name[v]: pt["states"][v.qname()] for v in ref.states}
        else:
            e = expect(pt)
            if e is None:
                continue
            want, vals, scale = e
        if sorted(v.name() for v in mst) != sorted(want):
            return
        try:
            with np.errstate(all="ignore"), cm.quiet():
                got = mk.evaluate_derivatives(state=[vals[v.name()] for v in mst], inputs={"time": pt["t"]}, ignore_errors=True)
        except Exception as e:  # noqa: BLE001
            add(f"C15:to-myokit-eval-raises:{cm.exc_name(e)}", f"the Myokit model exported from the {label} model cannot be evaluated", dict(inp, points=[pt]), want, cm.exc_name(e), cm.short(e))
            return
        res["evals"] += 1
        bad = {v.name(): float(g) for v, g in zip(mst, got) if math.isfinite(float(g)) and not cm.close(g, want[v.name()], 1e-7, 1e-12 * scale)}
        if bad:
            n0 = sorted(bad)[0]
            kind = ":" + construct(ref, [v for v in ref.states if ref.name[v] in bad]) if ref is not None else ""
            add("C15:to-myokit-rhs-differs" + kind, f"dot({n0}) of the Myokit model exported from the {label} model differs", dict(inp, points=[pt]),
                {k: want[k] for k in bad}, bad, f"exported: {var(n0).rhs().code()[:300]}")
            return


# --------------------------------------------------------------------------------------
# models written in .ode text -> Myokit
# --------------------------------------------------------------------------------------
def ode_text(case):
    if "ode" in case:
        return case["ode"]
    if "ode_file" in case:
        return open(case["ode_file"]).read()
    k = int(case["mseed"])
    named = k % 4 != 0  # 3 of 4 models: every object in a component whose name Myokit accepts
    o = mg.GenOpts(n_states=(1, 4), n_params=(1, 4), n_inter=(0, 5), n_comps=(1, 3) if named else (0, 2), features=tuple(ODE_FEATURES), depth=2,
                   min_comps_used=1 if named else 0, unused=False)
    for i in range(6):  # no And / Or nested in itself: SymPy flattens it and Myokit's own SymPy reader takes two operands only
        text = mg.gen_model(k + i * 10**7, o).text
        if not any(ln.count("And(") > 1 or ln.count("Or(") > 1 for ln in text.splitlines()):
            break
    return text.replace('"I Na"', '"I_Na"') if named else text


def check_ode(case, res):
    text = ode_text(case)
    inp = {"ode": text}
    res["sample"] = inp
    try:
        rm = mg.RefModel(text)
        ode = cm.load(text)
    except Exception as e:  # noqa: BLE001 - what the loader accepts is C08's business
        cm.note(res, f"ode-text-not-usable:{cm.exc_name(e)}")
        return res
    st0, par0 = rm.defaults()

    def expect(pt):
        try:
            want, frag = rm.rhs(pt["t"], st0, par0)
        except mg.RefError:
            return None
        if frag or not all(math.isfinite(x) for x in want.values()):
            return None
        return {n: want[n] for n in rm.state_names}, dict(st0), max(1.0, rm.last_maxabs)

    def add(sig, what, inp_, exp=None, act=None, detail="", base=None):
        res["failures"].append(cm.fail(sig, what, inp_, exp, act, detail))

    n0 = res["evals"]
    to_myokit(res, ode, ".ode text", inp, add, expect=expect, pts=[{"t": 0.0}, {"t": 1.7}])
    if res["evals"] > n0 + 1 and (ode.intermediates or len(ode.states) > 1):
        res["nontrivial"].append(cm.sha(text))
    return res


# --------------------------------------------------------------------------------------
# delta debugging of generated .mmt texts with Myokit itself
# --------------------------------------------------------------------------------------
def reductions(text):
    """smaller variants of a .mmt text: drop the protocol, drop a variable (references replaced by its
    value), replace a sub-expression by its value"""
    model, protocol, _ = myokit.parse(text.splitlines())

    def render(m, p):
        if degenerate(m):
            raise ValueError("degenerate")
        return m.code() + ("\n" + p.code() if p is not None else "")

    if protocol is not None:
        try:
            yield render(model, None)
        except ValueError:
            pass
    qn = [v.qname() for v in model.variables(deep=True) if v.binding() is None]
    for q in reversed(qn):
        try:
            m = model.clone()
            v = m.get(q)
            val = myokit.Number(float(v.initial_value(as_float=True) if v.is_state() else v.rhs().eval()))
            if not math.isfinite(val.eval()) or (v.is_state() and m.count_states() == 1):
                continue
            for r in list(v.refs_by(True) if v.is_state() else v.refs_by()):
                r.set_rhs(r.rhs().clone(subst={myokit.Name(v): val}))
            if v.is_state():
                v.demote()
            v.set_rhs(0)
            for a_comp in m.components():
                for al in [a for a in a_comp._alias_map if a_comp._alias_map[a] is v]:
                    a_comp.remove_alias(al)
            v.parent().remove_variable(v, recursive=True)
            for c in [c for c in m.components() if c.count_variables() == 0 and not list(c._alias_map)]:
                m.remove_component(c)
            m.validate()
            yield render(m, protocol)
        except Exception:  # noqa: BLE001
            continue
    def subexprs(v):
        es = {e for e in v.rhs().walk() if len(e) > 0 and not isinstance(e, myokit.Condition)}
        if v.is_state():
            es.discard(v.rhs())
        return sorted(es, key=lambda e: (-len(e.code()), e.code()))

    for q in qn:
        for i in range(len(subexprs(model.get(q)))):
            try:
                m = model.clone()
                w = m.get(q)
                e = subexprs(w)[i]
                x = float(e.eval())
                if not math.isfinite(x):
                    continue
                w.set_rhs(w.rhs().clone(subst={e: myokit.Number(x)}))
                m.validate()
                yield render(m, protocol)
            except Exception:  # noqa: BLE001
                continue


def shrink_job(f, max_seconds=8.0):
    base, inp = f["_shrink"]["base"], f["input"]
    best, best_f, t_end = inp.get("mmt"), f, time.time() + max_seconds
    if not best:
        return f
    rest = {k: v for k, v in inp.items() if k not in ("mmt", "points", "export") and not k.startswith("_")}
    stage = 2 if base.startswith(tuple(T_IMPORT)) else 3 if base.startswith(tuple(T_RHS)) else 4
    progress = True
    while progress and time.time() < t_end:
        progress = False
        try:
            for text in reductions(best):
                if time.time() > t_end:
                    break
                if len(text) >= len(best) + 40:
                    continue
                r = check(dict(rest, mmt=text, _noshrink=True, _stage=stage))
                hit = [g for g in r["failures"] if g["signature"].startswith(base)]
                if hit and not r["errors"]:
                    best, best_f, progress = text, hit[0], True
                    break
        except Exception:  # noqa: BLE001
            break
    if best_f is not f:
        best_f = dict(best_f)
        best_f["detail"] = (str(best_f.get("detail", "")) + f" [shrunk from a {len(inp['mmt'])}-char model]").strip()
    return best_f


RUNDIR = None  # per-run parent of all case directories: workers killed at the deadline cannot clean up themselves
_run, _replay = cm.make_api(globals())


def _in_rundir(fn, *args):
    global RUNDIR
    RUNDIR = tempfile.mkdtemp(prefix="replay_c15_run_", dir=cm.TMPROOT)
    try:
        return fn(*args)
    finally:
        shutil.rmtree(RUNDIR, ignore_errors=True)
        RUNDIR = None


def run(tier, seed, focus, deadline):
    return _in_rundir(_run, tier, seed, focus, deadline)


def replay(failure):
    return _in_rundir(_replay, failure)
