"""C15: importing a Myokit / CellML model preserves states, constants and dynamics; exporting a
gotranx model back to Myokit preserves values, units and dynamics."""
from __future__ import annotations

import math
import os
import random
import re
import time

import numpy as np
import myokit
import myokit.formats.cellml
import myokit.lib.guess

import common as cm
import modelgen as mg
import gotranx
import gotranx.myokit as gm

from . import _c15_mmtgen as mmtgen

ID = "C15"
RULE = """Models: every distinct *.mmt / *.cellml file under /repo (example.mmt, noble_1962.cellml, ToRORd_dynCl_mid.cellml),
106 hand-written feature-isolating micro .mmt models (one Myokit operator / naming / nesting / pacing construct each) and
seeded random .mmt models from oracles/_c15_mmtgen.py (1-3 components + optional engine component, 1-4 states, 1-3
constants and 0-3 intermediates per component, nested variables up to 3 levels deep, the same local name reused across
components and across nested scopes, `use c.v as alias`, names that are attributes of the sympy module (beta gamma E I S N
Q O zeta pi Ci Si re ff), their `_` twins (beta_ next to beta ...), the python keyword `lambda`, if / piecewise with
state-vs-constant comparisons combined by and/or/not, all Myokit operators incl. // % log10 log(a,b) ceil, numbers with
units, in/desc/label/bind, time variable named time|t|T, optional `bind pace` + [[protocol]] with or without a labelled
stimulus current); every text is first parsed and validated by Myokit itself (rejected text = harness error).  The
reference is Myokit's own model: myokit.load + myokit.lib.guess.add_embedded_protocol on a clone (as mmt_to_gotran is
documented to do) + create_unique_names; the expected gotranx name of a variable is its uname plus `_` when it is in
gotranx.myokit.reserved_names.  Checked per model: import succeeds; the gotranx state set equals Myokit's with
initial_values(); every Number-valued Myokit variable is a parameter with its value (other literal constants may be
parameters or closed intermediates with that value) and every gotranx parameter is a Myokit constant; after ode.save +
gotranx.load_ode + numpy code generation the rhs equals Model.evaluate_derivatives(state, inputs={time: t}) of the
embedded-protocol reference at the initial state and at 4 (quick) / 8 (thorough) states perturbed by 1 +- 5 % and a
+-1e-3 shift, at times 0, mid-pulse, after the pulse and in the next period (models whose protocol could not be
embedded by Myokit are compared with pace = its rhs 0), rtol 1e-7 plus 1e-12 x the largest variable magnitude; points
where Myokit's evaluation is not finite are skipped.  gotran_to_myokit is run on the imported model, on the reloaded
model and on .ode texts (lorentz / fitzhughnagumo / beeler_reuter_1977 and modelgen models with 1-3 named
components, units on ScalarParams, features restricted to what Myokit expresses): result validates, same states /
initial values, same constants / values, same units (myokit.parse_unit of the .ode unit with ** -> ^), and its
evaluate_derivatives equals the Myokit reference (imported) or the numpy rhs (reloaded / .ode text).  quick: repo
models + 106 micro + 400 random .mmt + 3 + 120 .ode texts; thorough: 6000 random .mmt, 1500 .ode texts.  One case = one
(model, point) rhs comparison or one model-level conversion check; non-trivial when the model has an intermediate or
nested variable and the reference derivative is finite and not identically zero; distinct by sha1(model, point).
Failing random models are delta-debugged with Myokit (drop variables, replace sub-expressions by their value) and the
construct sub-kind is read off the shrunk model."""

USES_SHRINK = True
CASE_TIMEOUT = 90
ODE_FILES = ["/repo/tests/odefiles/lorentz.ode", "/repo/tests/odefiles/fitzhughnagumo.ode", "/repo/tests/odefiles/beeler_reuter_1977.ode"]
ODE_FEATURES = ["exp", "log", "ln", "sqrt", "sin", "cos", "tan", "asin", "acos", "atan", "abs", "Abs", "floor", "Mod", "Conditional",
                "Lt", "Gt", "Le", "Ge", "Eq", "Not", "And2", "Or2", "pow", "intquot", "sci", "time", "t", "unary", "nestcond"]
T_IMPORT = ["C15:import-raises", "C15:name-not-unique", "C15:state-", "C15:constant-", "C15:parameter-extra"]
T_RHS = ["C15:save-raises", "C15:reload-raises", "C15:codegen-raises", "C15:generated-module-invalid", "C15:rhs-"]
T_BACK = ["C15:to-myokit-"]


def repo_models():
    seen, out = set(), []
    for root, _, files in sorted(os.walk("/repo")):
        if "/." in root or "node_modules" in root:
            continue
        for f in sorted(files):
            if f.endswith((".mmt", ".cellml")):
                p = os.path.join(root, f)
                h = cm.sha(open(p, "rb").read())
                if h not in seen:
                    seen.add(h)
                    out.append(p)
    return sorted(out, key=os.path.getsize)


def cases(tier, seed, focus):
    quick = tier == "quick"
    npts = 4 if quick else 8
    tags = T_IMPORT + T_RHS + T_BACK
    for p in repo_models():
        big = os.path.getsize(p) > 200000
        yield {"repo": p, "npts": 1 if big and quick else npts, "pseed": seed, "tags": tags}
    for f in ODE_FILES:
        yield {"ode_file": f, "tags": T_BACK}
    micro = [{"micro": k, "npts": npts, "pseed": seed, "tags": tags} for k in mmtgen.MICRO]
    n_mmt, n_ode = (400, 120) if quick else (6000, 1500)
    gen = [{"gseed": seed * 100003 + i, "npts": npts, "pseed": seed, "tags": tags} for i in range(n_mmt)]
    odes = [{"mseed": seed * 100003 + i, "tags": T_BACK} for i in range(n_ode)]
    # interleave: 2 micro, 3 random, 1 .ode text ...
    its = [iter(micro), iter(micro), iter(gen), iter(gen), iter(gen), iter(odes)]
    live = list(its)
    while live:
        for it in list(live):
            try:
                yield next(it)
            except StopIteration:
                live.remove(it)


# --------------------------------------------------------------------------------------
# the Myokit side (reference)
# --------------------------------------------------------------------------------------
def expected_name(v):
    n = v.uname()
    return n + "_" if n in gm.reserved_names else n


class Ref:
    """Myokit's own reading of the file: protocol embedded on a clone (myokit.lib.guess), unique names"""

    def __init__(self, path, kind):
        self.embedded, self.protocol = False, None
        with cm.quiet():
            if kind == "mmt":
                model, protocol, _ = myokit.load(path)
                model.validate()
                if protocol is not None:
                    model = model.clone()
                    self.embedded = bool(myokit.lib.guess.add_embedded_protocol(model, protocol))
                    self.protocol = protocol
            else:
                model = myokit.formats.cellml.CellMLImporter().model(path)
            model.validate()
            model.create_unique_names()
        self.model, self.tvar = model, model.time()
        self.vars = [v for v in model.variables(deep=True) if v is not self.tvar]
        self.states = list(model.states())
        self.name = {v: expected_name(v) for v in self.vars}
        self.init = [float(x) for x in model.initial_values(as_floats=True)]
        self.times = [0.0, 1.7, 13.0, 250.5]
        if self.embedded:
            e = protocol.head()
            s, d, p = e.start(), e.duration(), e.period()
            self.times = [0.0, s + d / 2, s + d + 0.37 * (p - d), s + p + d / 4, s + 3 * p + d / 2, s + 2 * p - 0.1 * (p - d)]

    def constants(self):
        """(variable, value, is_number) of every literal constant"""
        out = []
        for v in self.vars:
            if not v.is_state() and v.rhs().is_literal():  # includes bound variables (pace, diffusion_current) with a literal rhs
                out.append((v, float(v.rhs().eval()), isinstance(v.rhs(), myokit.Number)))
        return out

    def nontrivial_model(self):
        return any((not v.is_state() and not v.rhs().is_literal()) or v.is_nested() for v in self.vars)

    def points(self, pseed, n):
        rng = random.Random(f"c15-pts/{pseed}")
        qn = [s.qname() for s in self.states]
        pts = [{"t": 0.0, "states": dict(zip(qn, self.init))}]
        for i in range(n):
            st = {q: v * (1 + rng.choice([-1, 1]) * 0.05 * rng.uniform(0.2, 1)) + rng.uniform(-1e-3, 1e-3) for q, v in zip(qn, self.init)}
            pts.append({"t": self.times[(i + 1) % len(self.times)], "states": st})
        return pts

    def eval(self, pt):
        """(derivatives by state qname | None, magnitude of the largest variable)"""
        m = self.model
        state = [float(pt["states"][s.qname()]) for s in self.states]
        try:
            with np.errstate(all="ignore"), cm.quiet():
                want = m.evaluate_derivatives(state=state, inputs={"time": pt["t"]}, ignore_errors=True)
                vals = {myokit.Name(s): x for s, x in zip(self.states, state)}
                if self.tvar is not None:
                    vals[myokit.Name(self.tvar)] = float(pt["t"])
                for grp in m.solvable_order().values():
                    for eq in grp:
                        if eq.lhs not in vals:
                            try:
                                vals[eq.lhs] = eq.rhs.eval(vals)
                            except Exception:  # noqa: BLE001
                                vals[eq.lhs] = float("nan")
        except Exception:  # noqa: BLE001
            return None, 0.0
        want = [float(w) for w in want]
        if not all(math.isfinite(w) for w in want):
            return None, 0.0
        mags = [abs(float(x)) for x in vals.values()]
        if not all(math.isfinite(x) for x in mags):
            return None, 0.0
        return {s.qname(): w for s, w in zip(self.states, want)}, max(mags + [1.0])


OP_PRIORITY = [("quotient", myokit.Quotient), ("remainder", myokit.Remainder), ("log10", myokit.Log10), ("ceil", myokit.Ceil), ("floor", myokit.Floor),
               ("not", myokit.Not), ("and", myokit.And), ("or", myokit.Or), ("eq", myokit.Equal), ("ne", myokit.NotEqual), ("ge", myokit.MoreEqual),
               ("le", myokit.LessEqual), ("piecewise", myokit.Piecewise), ("if", myokit.If), ("gt", myokit.More), ("lt", myokit.Less), ("abs", myokit.Abs),
               ("sqrt", myokit.Sqrt), ("power", myokit.Power), ("tan", myokit.Tan), ("asin", myokit.ASin), ("acos", myokit.ACos), ("atan", myokit.ATan),
               ("sin", myokit.Sin), ("cos", myokit.Cos), ("exp", myokit.Exp), ("log", myokit.Log), ("prefix-minus", myokit.PrefixMinus),
               ("prefix-plus", myokit.PrefixPlus), ("divide", myokit.Divide), ("minus", myokit.Minus), ("times", myokit.Multiply), ("plus", myokit.Plus)]


def closure(variables):
    todo, seen = list(variables), []
    while todo:
        v = todo.pop()
        if v in seen:
            continue
        seen.append(v)
        todo += [r.var() for r in v.rhs().references()]
    return seen


def name_construct(ref: Ref, v):
    """how the gotranx name of a Myokit variable differs from the name written in the model's expressions"""
    if ref.name.get(v, v.name()) == v.name():
        return None
    where = "nested" if v.is_nested() else "toplevel"
    return f"{where}-{'reserved' if v.uname() in gm.reserved_names else 'renamed'}-name"


def construct(ref: Ref, variables):
    """names the construct the derivatives of `variables` depend on: a nested / renamed name first (the import
    has to substitute it), then the time variable, then the highest-priority Myokit operator"""
    cl = closure(variables)
    kinds = sorted({k for k in (name_construct(ref, v) for v in cl if v is not ref.tvar) if k and k.startswith("nested")})
    if kinds:
        return kinds[0]
    if ref.tvar is not None and ref.tvar in cl and ref.tvar.name() != "time":
        return "time-variable-name"
    if ref.tvar is not None and ref.tvar in cl and ref.tvar.uname() != "time":
        return "time-variable-renamed"
    types = set()
    for v in cl:
        for e in v.rhs().walk():
            types.add(type(e))
            if isinstance(e, myokit.Log) and len(e) == 2:
                return "log-base"
    for k, t in OP_PRIORITY:
        if t in types:
            return k
    return "plain"


# --------------------------------------------------------------------------------------
# the check
# --------------------------------------------------------------------------------------
def source(case):
    if "repo" in case:
        p = case["repo"]
        return ("cellml" if p.endswith(".cellml") else "mmt"), None, p
    if "micro" in case:
        return "mmt", mmtgen.MICRO[case["micro"]], None
    if "gseed" in case:
        return "mmt", mmtgen.gen_mmt(int(case["gseed"])), None
    return "mmt", case["mmt"], None


def fval(x):
    for f in (float, lambda e: float(e.doit()), lambda e: float(e.evalf())):
        try:
            return f(x)
        except Exception:  # noqa: BLE001
            continue
    return float("nan")


def check(case):
    res = cm.new_result()
    try:
        if "ode" in case or "ode_file" in case or "mseed" in case:
            return check_ode(case, res)
        with cm.tempdir("replay_c15_") as d:
            return check_myokit(case, res, d)
    except Exception as e:  # noqa: BLE001
        import traceback

        res["errors"].append(f"C15 harness exception: {cm.exc_name(e)}: {cm.short(e)} :: {traceback.format_exc()[-500:]}")
        return res


def check_myokit(case, res, d):
    kind, text, path = source(case)
    if text is not None:
        path = os.path.join(d, "m.mmt")
        with open(path, "w") as f:
            f.write(text)
    try:
        ref = Ref(path, kind)
    except Exception as e:  # noqa: BLE001 - Myokit itself rejects the file: the generator's fault
        res["errors"].append(f"myokit rejects {'generated model ' + str({k: case[k] for k in ('micro', 'gseed') if k in case}) if text else path}: {cm.exc_name(e)}: {cm.short(e)}")
        return res
    base_inp = {"mmt": text} if text is not None else {"repo": path}
    res["sample"] = dict(base_inp, npts=case.get("npts", 4), pseed=case.get("pseed", 0))
    shr = text is not None and "gseed" in case and not case.get("_noshrink")
    key = text if text is not None else path

    def add(sig, what, inp, exp=None, act=None, detail="", base=None):
        f = cm.fail(sig, what, inp, exp, act, detail)
        if shr:
            f["_shrink"] = {"base": base or sig}
        res["failures"].append(f)

    # ---- 1. import ----------------------------------------------------------------------------
    res["evals"] += 1
    try:
        with cm.quiet():
            ode = gm.mmt_to_gotran(path) if kind == "mmt" else gm.cellml_to_gotran(path)
    except Exception as e:  # noqa: BLE001
        dup = sorted(n for n in set(ref.name.values()) if list(ref.name.values()).count(n) > 1)
        add(f"C15:import-raises:{cm.exc_site(e)}", f"{kind}_to_gotran raises for a model that Myokit loads and validates", base_inp, "a gotranx ODE",
            cm.exc_name(e), cm.short(e) + (f" | Myokit variables mapped to the same gotranx name: {dup}" if dup else ""))
        return res
    # ---- 2. states / constants under their unique names -------------------------------------------
    nm = ref.name
    dup = sorted(n for n in set(nm.values()) if list(nm.values()).count(n) > 1)
    if dup:
        add("C15:name-not-unique", "two Myokit variables are given the same gotranx name", base_inp, "injective naming", dup,
            str({v.qname(): nm[v] for v in ref.vars if nm[v] in dup}))
    gst = {s.name: fval(s.value) for s in ode.states}
    gpar = {p.name: fval(p.value) for p in ode.parameters}
    gint = {i.name: i for i in ode.intermediates}
    for v, x0 in zip(ref.states, ref.init):
        if nm[v] not in gst:
            add("C15:state-missing", f"Myokit state {v.qname()} is no gotranx state `{nm[v]}`", base_inp, nm[v], sorted(gst))
        elif not cm.close(gst[nm[v]], x0, 1e-14, 0):
            add("C15:state-value-changed", f"initial value of state {v.qname()} differs", base_inp, x0, gst[nm[v]])
    extra = sorted(set(gst) - {nm[v] for v in ref.states})
    if extra:
        add("C15:state-extra", "gotranx has states that are no Myokit states", base_inp, sorted(nm[v] for v in ref.states), extra)
    cnames = set()
    for v, val, is_num in ref.constants():
        n = nm[v]
        cnames.add(n)
        if n in gpar:
            got = gpar[n]
        elif not is_num and n in gint and not gint[n].expr.free_symbols:
            got = fval(gint[n].expr)
            cm.note(res, "literal-constant-imported-as-intermediate")
            if math.isnan(got):  # the harness cannot evaluate the unevaluated SymPy expression: covered by the rhs comparison
                cm.note(res, "literal-constant-not-evaluable")
                continue
        else:
            add("C15:constant-missing", f"Myokit constant {v.qname()} = {v.rhs().code()} is no gotranx parameter `{n}`", base_inp, n, sorted(gpar))
            continue
        if not cm.close(got, val, 1e-14, 0):
            add("C15:constant-value-changed", f"value of constant {v.qname()} differs", base_inp, val, got)
    extra = sorted(set(gpar) - cnames)
    if extra:
        tn = ref.tvar is not None and (ref.tvar.uname() in extra or ref.tvar.uname() + "_" in extra)
        add("C15:parameter-extra" + (":time-variable" if tn else ""), "gotranx has parameters that are no Myokit constants" +
            (f" (the time variable {ref.tvar.qname()} became a parameter)" if tn else ""), base_inp, sorted(cnames), extra)
    # ---- 3. save, reload, numpy rhs ---------------------------------------------------------------
    pts = case.get("points") or ref.points(case.get("pseed", 0), int(case.get("npts", 4)))
    stage = case.get("_stage", 4)
    if stage < 3:
        return res
    nf = len(res["failures"])
    mod = reload_and_compare(case, res, ref, ode, d, base_inp, pts, key, add)
    if stage < 4:
        return res
    if any(f["signature"].startswith("C15:rhs-") for f in res["failures"][nf:]):
        mod = None  # exporting a reloaded model that is already wrong tells nothing new
    # ---- 4. back to Myokit ----------------------------------------------------------------------------
    to_myokit(res, ode, "imported", base_inp, add, ref=ref, units_of_ref=True, pts=pts[:2])
    if mod is not None:
        to_myokit(res, mod[0], "imported+reloaded", base_inp, add, ref=ref, pts=pts[:2])
    return res


def reload_and_compare(case, res, ref, ode, d, base_inp, pts, key, add):
    nm = ref.name
    f = os.path.join(d, "m.ode")
    res["evals"] += 1
    try:
        with cm.quiet():
            ode.save(f)
    except Exception as e:  # noqa: BLE001
        add(f"C15:save-raises:{cm.exc_site(e)}", "ODE.save raises for an imported model", base_inp, "an .ode file", cm.exc_name(e), cm.short(e))
        return None
    try:
        with cm.quiet():
            ode2 = gotranx.load_ode(f)
    except Exception as e:  # noqa: BLE001
        sub, detail = "", ""
        m = re.search(r"Symbol '([^']+)'", str(e))
        if m:
            vs = [v for v in ref.vars if v.name() == m.group(1)]
            ks = sorted({k for k in (name_construct(ref, v) for v in vs) if k})
            sub = ":" + (ks[0] if ks else "other")
            detail = f" | `{m.group(1)}` is the local name of {[v.qname() + ' -> ' + nm[v] for v in vs]}"
        m = re.search(r"Previous tokens: \[Token\('VARIABLE', '(\w+)'\)\]", str(e))
        if m and not sub:
            sub = ":after-" + m.group(1)
        sig = f"C15:reload-raises:{cm.exc_site(e)}"
        add(sig + sub, "the .ode file saved from the imported model cannot be loaded", base_inp, "a loadable .ode file", cm.exc_name(e), cm.short(e) + detail, base=sig)
        return None
    try:
        code = cm.py_code(ode2)
    except Exception as e:  # noqa: BLE001
        add(f"C15:codegen-raises:{cm.exc_site(e)}", "numpy code generation raises for the reloaded model", base_inp, "code", cm.exc_name(e), cm.short(e))
        return None
    try:
        mod = cm.exec_py(code)
        s0, p0 = np.asarray(mod["init_state_values"](), dtype=float), np.asarray(mod["init_parameter_values"](), dtype=float)
    except Exception as e:  # noqa: BLE001
        add(f"C15:generated-module-invalid:{cm.exc_name(e)}", "generated numpy module of the reloaded model does not import", base_inp, "importable module", cm.exc_name(e), cm.short(e))
        return None
    missing = sorted(nm[v] for v in ref.states if nm[v] not in mod["state"])
    if missing or len(mod["state"]) != len(ref.states):
        add("C15:state-missing:after-reload", "states of the reloaded model differ from Myokit's", base_inp, sorted(nm[v] for v in ref.states), sorted(mod["state"]))
        return ode2, mod
    for v, x0 in zip(ref.states, ref.init):
        g = s0[mod["state_index"](nm[v])]
        if not cm.close(g, x0, 1e-14, 0):
            add("C15:state-value-changed:after-reload", f"initial value of state {v.qname()} differs after save + load", base_inp, x0, float(g))
    for v, val, is_num in ref.constants():
        if nm[v] in mod["parameter"]:
            g = p0[mod["parameter_index"](nm[v])]
            if not cm.close(g, val, 1e-14, 0):
                add("C15:constant-value-changed:after-reload", f"value of constant {v.qname()} differs after save + load", base_inp, val, float(g))
    nontriv = ref.nontrivial_model()
    for pt in pts:
        want, scale = ref.eval(pt)
        if want is None:
            cm.note(res, "points-skipped-myokit-not-finite")
            continue
        res["evals"] += 1
        inp = dict(base_inp, points=[pt])
        if nontriv and any(w != 0 for w in want.values()):
            res["nontrivial"].append(cm.sha([key, pt]))
        s = np.array(s0)
        for v in ref.states:
            s[mod["state_index"](nm[v])] = pt["states"][v.qname()]
        try:
            with cm.quiet():
                got = np.asarray(mod["rhs"](pt["t"], s, np.array(p0)), dtype=float)
            if got.shape != (len(ref.states),):
                raise ValueError(f"rhs returns shape {got.shape}")
        except Exception as e:  # noqa: BLE001
            sig = f"C15:rhs-raises:{cm.exc_name(e)}"
            add(sig, "generated rhs of the reloaded model raises where Myokit evaluates the model", inp, want, cm.exc_name(e), cm.short(e))
            break
        bad = {v: float(got[mod["state_index"](nm[v])]) for v in ref.states
               if not cm.close(got[mod["state_index"](nm[v])], want[v.qname()], 1e-7, 1e-12 * scale)}
        if bad:
            kind = construct(ref, list(bad))
            v0 = sorted(bad, key=lambda v: v.qname())[0]
            add(f"C15:rhs-differs:{kind}", f"d{nm[v0]}_dt of the reloaded model differs from Myokit's dot({v0.qname()}) = {v0.rhs().code()[:120]}", inp,
                {v.qname(): want[v.qname()] for v in bad}, {v.qname(): g for v, g in bad.items()},
                "generated: " + "; ".join(gen_lines(code, closure(list(bad)), nm))[:900], base="C15:rhs-differs")
            break
    return ode2, mod


def gen_lines(code, variables, nm):
    names = {("d" + nm[v] + "_dt" if v.is_state() else nm[v]) for v in variables if v in nm} | {v.name() for v in variables}
    out = []
    for ln in code.split("def rhs(")[1].split("\ndef ")[0].splitlines():
        if ln.strip().split(" =")[0] in names:
            out.append(ln.strip()[:200])
    return out


def myokit_unit(u):
    return None if u is None else myokit.parse_unit(u.replace("**", "^"))


def keyerror_kind(ode, k, ref):
    """why the SymPy reader of gotran_to_myokit cannot resolve name k"""
    import sympy as sp

    if ref is not None:
        ks = sorted({c for c in (name_construct(ref, v) for v in ref.vars if v.name() == k) if c})
        if ks:
            return ks[0]
    for a in list(ode.state_derivatives) + list(ode.intermediates):
        for sym in a.expr.free_symbols:
            if sym.name == k and sym != sp.Symbol(k):
                return "symbol-assumptions"
    defined = {x.name for x in list(ode.states) + list(ode.parameters) + list(ode.intermediates)}
    return "defined-symbol" if k in defined else "time-symbol" if k == "t" else "undefined-symbol"


def to_myokit(res, ode, label, base_inp, add, ref=None, units_of_ref=False, expect=None, pts=()):
    """gotran_to_myokit(ode): validates, same states / constants / units, same derivatives.  `ref` (imported models): the
    Myokit original, giving the expected derivatives (and, for the directly imported model, units); `expect(pt)`
    (.ode text): (derivatives, state values, scale) by state name from the independent reference evaluator"""
    res["evals"] += 1
    inp = dict(base_inp, export=label) if ref is not None else dict(base_inp)
    try:
        with cm.quiet():
            mk = gm.gotran_to_myokit(ode)
            mk.validate()
    except Exception as e:  # noqa: BLE001
        sub = ""
        if isinstance(e, myokit.InvalidNameError):
            names = [c.name for c in ode.components]
            sub = ":unnamed-component" if "" in names else ":component-name" if any(not re.fullmatch(r"[a-zA-Z]\w*", n) for n in names) else ":variable-name"
        elif isinstance(e, KeyError) and e.args:
            sub = ":" + keyerror_kind(ode, str(e.args[0]), ref if units_of_ref else None)
            if sub[1:].startswith(("nested", "toplevel")) and any(sub in f["signature"] for f in res["failures"]):
                cm.note(res, "export-of-imported-model-hits-the-dangling-name-already-reported")
                return
        add(f"C15:to-myokit-raises:{cm.exc_site(e)}{sub}", f"gotran_to_myokit raises for the {label} model", inp, "a Myokit model", cm.exc_name(e), cm.short(e))
        return
    byname = {}
    tv = mk.time()
    for v in mk.variables(deep=True):
        if v is not tv:
            byname.setdefault(v.name(), []).append(v)

    def var(n):
        return byname[n][0] if len(byname.get(n, [])) == 1 else None

    for s in ode.states:
        v = var(s.name)
        if v is None or not v.is_state():
            add("C15:to-myokit-state-missing", f"state {s.name} of the {label} model is no state of the Myokit model", inp, s.name, sorted(x.name() for x in mk.states()))
        elif not cm.close(v.initial_value(as_float=True), fval(s.value), 1e-14, 0):
            add("C15:to-myokit-value-changed", f"initial value of state {s.name} differs in the Myokit model ({label})", inp, fval(s.value), float(v.initial_value(as_float=True)))
    if mk.count_states() != len(ode.states):
        add("C15:to-myokit-state-extra", f"the Myokit model has {mk.count_states()} states, the {label} model {len(ode.states)}", inp, len(ode.states), mk.count_states())
    for p in ode.parameters:
        v = var(p.name)
        if v is None or v.is_state() or not v.is_literal():
            add("C15:to-myokit-constant-missing", f"parameter {p.name} of the {label} model is no literal constant of the Myokit model", inp, p.name, None)
        elif not cm.close(float(v.rhs().eval()), fval(p.value), 1e-14, 0):
            add("C15:to-myokit-value-changed", f"value of parameter {p.name} differs in the Myokit model ({label})", inp, fval(p.value), float(v.rhs().eval()))
    units = {}
    if units_of_ref:  # round trip Myokit -> gotranx -> Myokit
        units = {ref.name[v]: v.unit() for v in ref.vars}
    else:
        for a in list(ode.states) + list(ode.parameters) + list(ode.intermediates):
            try:
                units[a.name] = None if a.unit_str is None else myokit.parse_unit(a.unit_str.replace("**", "^"))
            except Exception:  # noqa: BLE001 - a unit Myokit cannot spell: outside the property
                cm.note(res, "unit-not-myokit-parsable")
    for n in sorted(units):
        v = var(n)
        if v is not None and v.unit() != units[n]:
            add("C15:to-myokit-unit-changed", f"unit of {n} differs in the Myokit model ({label})", inp, str(units[n]), str(v.unit()))
            break
    mst = list(mk.states())
    for pt in pts:
        if ref is not None:
            want, scale = ref.eval(pt)
            if want is None:
                continue
            want = {ref.name[v]: want[v.qname()] for v in ref.states}
            vals = {ref.name[v]: pt["states"][v.qname()] for v in ref.states}
        else:
            e = expect(pt)
            if e is None:
                continue
            want, vals, scale = e
        if sorted(v.name() for v in mst) != sorted(want):
            return
        try:
            with np.errstate(all="ignore"), cm.quiet():
                got = mk.evaluate_derivatives(state=[vals[v.name()] for v in mst], inputs={"time": pt["t"]}, ignore_errors=True)
        except Exception as e:  # noqa: BLE001
            add(f"C15:to-myokit-eval-raises:{cm.exc_name(e)}", f"the Myokit model exported from the {label} model cannot be evaluated", dict(inp, points=[pt]), want, cm.exc_name(e), cm.short(e))
            return
        res["evals"] += 1
        bad = {v.name(): float(g) for v, g in zip(mst, got) if math.isfinite(float(g)) and not cm.close(g, want[v.name()], 1e-7, 1e-12 * scale)}
        if bad:
            n0 = sorted(bad)[0]
            kind = ":" + construct(ref, [v for v in ref.states if ref.name[v] in bad]) if ref is not None else ""
            add("C15:to-myokit-rhs-differs" + kind, f"dot({n0}) of the Myokit model exported from the {label} model differs", dict(inp, points=[pt]),
                {k: want[k] for k in bad}, bad, f"exported: {var(n0).rhs().code()[:300]}")
            return


# --------------------------------------------------------------------------------------
# models written in .ode text -> Myokit
# --------------------------------------------------------------------------------------
def ode_text(case):
    if "ode" in case:
        return case["ode"]
    if "ode_file" in case:
        return open(case["ode_file"]).read()
    k = int(case["mseed"])
    named = k % 4 != 0  # 3 of 4 models: every object in a component whose name Myokit accepts
    o = mg.GenOpts(n_states=(1, 4), n_params=(1, 4), n_inter=(0, 5), n_comps=(1, 3) if named else (0, 2), features=tuple(ODE_FEATURES), depth=2,
                   min_comps_used=1 if named else 0, unused=False)
    text = mg.gen_model(k, o).text
    return text.replace('"I Na"', '"I_Na"') if named else text


def check_ode(case, res):
    text = ode_text(case)
    inp = {"ode": text}
    res["sample"] = inp
    try:
        rm = mg.RefModel(text)
        ode = cm.load(text)
    except Exception as e:  # noqa: BLE001 - what the loader accepts is C08's business
        cm.note(res, f"ode-text-not-usable:{cm.exc_name(e)}")
        return res
    st0, par0 = rm.defaults()

    def expect(pt):
        try:
            want, frag = rm.rhs(pt["t"], st0, par0)
        except mg.RefError:
            return None
        if frag or not all(math.isfinite(x) for x in want.values()):
            return None
        return {n: want[n] for n in rm.state_names}, dict(st0), max(1.0, rm.last_maxabs)

    def add(sig, what, inp_, exp=None, act=None, detail="", base=None):
        res["failures"].append(cm.fail(sig, what, inp_, exp, act, detail))

    n0 = res["evals"]
    to_myokit(res, ode, ".ode text", inp, add, expect=expect, pts=[{"t": 0.0}, {"t": 1.7}])
    if res["evals"] > n0 + 1 and (ode.intermediates or len(ode.states) > 1):
        res["nontrivial"].append(cm.sha(text))
    return res


# --------------------------------------------------------------------------------------
# delta debugging of generated .mmt texts with Myokit itself
# --------------------------------------------------------------------------------------
def reductions(text):
    """smaller variants of a .mmt text: drop the protocol, drop a variable (references replaced by its
    value), replace a sub-expression by its value"""
    model, protocol, _ = myokit.parse(text.splitlines())

    def render(m, p):
        for v in m.variables(deep=True):  # never turn a condition into a constant one (C01's degenerate conditionals)
            for e in v.rhs().walk():
                if isinstance(e, (myokit.Equal, myokit.NotEqual, myokit.More, myokit.Less, myokit.MoreEqual, myokit.LessEqual)) and e.is_constant():
                    raise ValueError("degenerate")
        return m.code() + ("\n" + p.code() if p is not None else "")

    if protocol is not None:
        try:
            yield render(model, None)
        except ValueError:
            pass
    qn = [v.qname() for v in model.variables(deep=True) if v.binding() is None]
    for q in reversed(qn):
        try:
            m = model.clone()
            v = m.get(q)
            val = myokit.Number(float(v.initial_value(as_float=True) if v.is_state() else v.rhs().eval()))
            if not math.isfinite(val.eval()) or (v.is_state() and m.count_states() == 1):
                continue
            for r in list(v.refs_by(True) if v.is_state() else v.refs_by()):
                r.set_rhs(r.rhs().clone(subst={myokit.Name(v): val}))
            if v.is_state():
                v.demote()
            v.set_rhs(0)
            for a_comp in m.components():
                for al in [a for a in a_comp._alias_map if a_comp._alias_map[a] is v]:
                    a_comp.remove_alias(al)
            v.parent().remove_variable(v, recursive=True)
            for c in [c for c in m.components() if c.count_variables() == 0 and not list(c._alias_map)]:
                m.remove_component(c)
            m.validate()
            yield render(m, protocol)
        except Exception:  # noqa: BLE001
            continue
    def subexprs(v):
        es = {e for e in v.rhs().walk() if len(e) > 0 and not isinstance(e, myokit.Condition)}
        if v.is_state():
            es.discard(v.rhs())
        return sorted(es, key=lambda e: (-len(e.code()), e.code()))

    for q in qn:
        for i in range(len(subexprs(model.get(q)))):
            try:
                m = model.clone()
                w = m.get(q)
                e = subexprs(w)[i]
                x = float(e.eval())
                if not math.isfinite(x):
                    continue
                w.set_rhs(w.rhs().clone(subst={e: myokit.Number(x)}))
                m.validate()
                yield render(m, protocol)
            except Exception:  # noqa: BLE001
                continue


def shrink_job(f, max_seconds=8.0):
    base, inp = f["_shrink"]["base"], f["input"]
    best, best_f, t_end = inp.get("mmt"), f, time.time() + max_seconds
    if not best:
        return f
    rest = {k: v for k, v in inp.items() if k not in ("mmt", "points", "export") and not k.startswith("_")}
    stage = 2 if base.startswith(("C15:import-", "C15:name-", "C15:state-", "C15:constant-", "C15:parameter-")) and "after-reload" not in base else \
        3 if base.startswith(("C15:save-", "C15:reload-", "C15:codegen-", "C15:generated-", "C15:rhs-")) or "after-reload" in base else 4
    progress = True
    while progress and time.time() < t_end:
        progress = False
        try:
            for text in reductions(best):
                if time.time() > t_end:
                    break
                if len(text) >= len(best) + 40:
                    continue
                r = check(dict(rest, mmt=text, _noshrink=True, _stage=stage))
                hit = [g for g in r["failures"] if g["signature"].startswith(base)]
                if hit and not r["errors"]:
                    best, best_f, progress = text, hit[0], True
                    break
        except Exception:  # noqa: BLE001
            break
    if best_f is not f:
        best_f = dict(best_f)
        best_f["detail"] = (str(best_f.get("detail", "")) + f" [shrunk from a {len(inp['mmt'])}-char model]").strip()
    return best_f


run, replay = cm.make_api(globals())
