"""C01: generated NumPy rhs == reference meaning of the model text."""
from __future__ import annotations

import numpy as np

import common as cm
import modelgen as mg

ID = "C01"
RULE = """Models come from modelgen.gen_model(seed) (1-5 states, 0-5 parameters, 0-8 intermediates in random
DAG shapes, 0-3 components, every operator/function/literal form of the grammar; model i is forced to contain
three features of the feature list in rotation so that all appear) plus a fixed list of hand-written precedence /
associativity probes.  Each model is evaluated at its default point and at random / special (integer, negative,
zero) points where the independent reference evaluator (own parser, Python floats) is finite and not within
1e-9 of a discontinuity.  One case = one (model, point) comparison of the whole rhs vector against the reference
(rtol 1e-9 plus atol 1e-12 x (1 + the largest operand of an addition / subtraction / Mod / trigonometric function)); points where the
reference leaves the real domain (acos/asin of |x| > 1, log/sqrt of negatives, fractional powers of negatives, division by zero) or sits on
its edge are skipped.  General models never have `pi` inside the argument of sin/cos/tan: the known sympy problem "an evaluating
trigonometric function applied to an unevaluated sum containing pi drops terms" is exercised only by the dedicated probe list PI_TRIG_PROBES
and every mismatch of a model with pi inside a trigonometric argument is reported as C01:rhs-mismatch:trig-of-unevaluated-sum-with-pi.  A
fraction of the models has intermediates that mention a d<state>_dt name.  Exception signatures are classified from the model text:
codegen-raises:AttributeError@<site> gets :boolean-used-arithmetically when the message names a sympy Boolean and the text uses a relational /
logical value as a number (`2 + Eq(2, 1e-1)`; modelgen.boolean_in_arithmetic), rhs-raises:<Exc> of such a text gets
:boolean-used-arithmetically:<message key> (`2**-aux**2` with an integer-typed aux: integers-to-negative-integer-powers-are); an exception at a
_print_Piecewise site gets :piecewise-collapses-under-simplify when sympy.simplify, applied by the oracle to the Piecewise sub-expressions of
the LOADED model, returns something that is no longer a Piecewise of the same number (>= 2) of branches ending in True, or raises (what
codegen.base._print_Piecewise does before the printers index the result); PrintMethodNotImplementedError gets :unprintable-<node> from
`Unsupported by <class ...>: re`; AttributeError@_hprint_Pow gets its message key (common.codegen_exception_class); others stay bare.  A case is non-trivial when the model has an
intermediate or an expression of nesting depth >= 2 and the reference rhs is not identically zero; cases are
distinct by sha1(model text, point)."""

def _precedence_probes():
    """every binary operator over every binary operator, left and right, written with only the parentheses the grammar needs; powers with the
    small integer exponents that printers like to special-case (2, 3, -1, -2, 0.5) in numerators, denominators, bases and exponents"""
    out = []
    ops = ["+", "-", "*", "/", "**"]
    for o1 in ops:
        for o2 in ops:
            out.append(f"a {o1} x {o2} y")          # precedence decides the grouping
            out.append(f"a {o1} (x {o2} y)")
            out.append(f"(a {o1} x) {o2} y")
    for e in ("2", "3", "-1", "-2", "0.5", "2.0"):
        out += [f"a/x**{e}", f"1/y**{e}", f"a/x**{e}/y", f"a/x**{e}*y", f"a*x**{e}/y**{e}", f"(a + y)**{e}/x**{e}", f"a/(x**{e})", f"a/(x*y)**{e}",
                f"-x**{e}/y", f"a - x**{e}", f"a/-x**{e}", f"x**{e}**2", f"(x**{e})**2", f"a/x**{e}**2"]
    return out


PROBES = _precedence_probes() + [
    "-x**2", "2**-x", "--x", "x**y**2", "-2**2", "-+-x", "x - -y", "x*-y", "x/-y**2", "2**-x**2", "(-x)**2",
    "x**-2", "1e3*x", "1E-2*x", "1.5e+2*x", ".5*x", "5.*x", "x*pi", "t*x + time", "Mod(x, 3)", "Mod(-x, 3)", "Mod(x, -3)",
    "x - y - 2", "x/y/2", "x/y*2", "x - (y - 2)", "x/(y*2)", "x**2**0.5", "(x**2)**0.5", "Lt(x, y) + 1", "1/3*x",
    "x**(1/3)", "abs(-x)", "Abs(y - 5)", "floor(-x)", "floor(x/2)", "2*(x + y)*3", "-(x + y)", "-(x*y)", "-(x/y)",
    "-(x**y)", "x - (y + 2)", "x - (y*2)", "x/(y/2)", "x/(y + 2)", "(x + y)**2", "(x*y)**2", "(x/y)**2", "(-x)**3",
    "x**(y + 1)", "x**(-y)", "x**(y*2)", "2 - 3 - 4", "2/3/4", "2**3**2", "2 - (3 - 4)", "8/(4/2)", "x*(y - 2)/(x + 1)",
    "Conditional(Lt(x, y), x - y, -(x - y))", "Conditional(Not(Eq(x, y)), 1, 2)", "Conditional(Eq(x, 1.5), 1, 2)",
    "Conditional(Or(Lt(x, 0), Gt(y, 0), Ge(x, 5)), 1, 2)", "Conditional(And(Gt(x, 0), Lt(y, 1), Ge(x, 0.5)), 1, 2)",
    "ContinuousConditional(Gt(x, 1), 2, 3, 0.5)", "ContinuousConditional(Le(x, 1), 2, 3, 0.5)",
    "ContinuousConditional(Ge(x, y), x, y, 2)", "ContinuousConditional(Lt(x, y), x, y, 0.1)",
    "exp(-x)*log(y) + ln(y)", "sqrt(y) + sin(x)*cos(y) - tan(0.3*x)", "asin(0.3*x) + acos(0.2*y) - atan(x*y)",
    "Conditional(Lt(x, 1), Conditional(Gt(y, 3), 1, 2), Conditional(Le(y, 2), 3, 4))", "Gt(x, 1)*Lt(y, 3)*5",
    "1e300*x*1e-300", "x*1e-300*1e300", "3.0e0 - x", "x - 1 + 1", "(x + 1e-3) - 1e-3",
    "cos(acos(0.0*x))", "cos(acos(x - x))", "sin(asin(y - 2*x + 1))", "cos(x)**2 + sin(x)**2 - 1", "acos(2*x)", "log(-y)", "sqrt(1 - y)", "(-y)**0.5", "asin(x - 0.5)",
]
# dedicated probes of the KNOWN sympy problem (pi inside a trigonometric argument); signature C01:rhs-mismatch:trig-of-unevaluated-sum-with-pi
PI_TRIG_PROBES = [
    "cos(2 - pi + 2)", "cos(2 - pi + a)", "sin(x + pi + y)", "sin(w0 + pi + y)", "cos((x + pi) + y)", "cos(x + (pi + y))", "cos(pi/2 + x + y)", "tan(x + pi + y)",
    "cos(x - pi + y)*2", "sin(x + y + 2*pi)", "cos(pi - x - y)", "cos(x*y + pi)", "cos(pi*x)", "sin(2*pi*t)", "tan(x + pi)", "cos(x - pi)", "sin(pi + x)", "cos(x + 3.14 + y)",
]


USES_SHRINK = True


def cases(tier, seed, focus):
    n = 420 if tier == "quick" else 6000
    for lo in range(0, len(PROBES), 12):  # a dozen one-line models per case keeps every case far below the per-case timeout
        yield {"probe": True, "lo": lo, "hi": lo + 12, "tags": ["C01:rhs-mismatch"]}
    yield {"probe": "pi-trig", "tags": ["C01:rhs-mismatch:trig-of-unevaluated-sum-with-pi"]}
    for i in range(n):
        k = seed * 100003 + i
        yield {"mseed": k, "opts": {"force": list(mg.feature_cycle(k)), "deriv_ref": 0.2}, "npts": 5 if tier == "quick" else 8, "tags": ["C01"]}


def check(case):
    res = cm.new_result()
    if case.get("probe"):
        for e in (PI_TRIG_PROBES if case["probe"] == "pi-trig" else PROBES[case.get("lo", 0):case.get("hi", len(PROBES))]):
            sub = check({"ode": f"parameters(a=2.0)\nstates(x=1.5, y=2.0)\nw0 = 0.5*x\ndx_dt = {e}\ndy_dt = a - y\n", "npts": 4})
            for k in ("failures", "errors", "nontrivial"):
                res[k] += sub[k]
            res["evals"] += sub["evals"]
        return res
    try:
        c = cm.materialize(case)
        ref = mg.RefModel(c["ode"])
    except Exception as e:  # noqa: BLE001
        res["errors"].append(f"reference cannot read generated model: {cm.exc_name(e)}: {cm.short(e)}")
        return res
    text = c["ode"]
    shr = None if case.get("_noshrink") else True
    res["sample"] = {"ode": text, "points": c["points"][:1]}

    def add(sig, what, inp, exp, act, detail="", base=None):
        f = cm.fail(sig, what, inp, exp, act, detail)
        if shr and base:
            f["_shrink"] = {"base": base}
        res["failures"].append(f)

    try:
        ode = cm.load(text)
    except Exception as e:  # noqa: BLE001 - not accepted by the loader: outside C01
        cm.note(res, f"loader-rejects:{cm.exc_name(e)}")
        return res
    try:
        code = cm.py_code(ode)
    except Exception as e:  # noqa: BLE001
        res["evals"] += 1
        sig = f"C01:codegen-raises:{cm.exc_site(e)}"
        # a sympy Boolean handled as a number (`'BooleanFalse' object has no attribute 'as_coeff_Mul'`) in a model whose TEXT uses a
        # relational / logical value as a number: the listed boolean-used-arithmetically finding; anything else keeps the bare signature
        # (common.codegen_exception_class: also :piecewise-collapses-under-simplify at a _print_Piecewise site, :unprintable-<node>, message key at _hprint_Pow)
        sig += cm.codegen_exception_class(e, cm.model_exprs(ode), ref)
        add(sig, "numpy code generation raises for an accepted model", {"ode": text}, "code", cm.exc_name(e), cm.short(e), base=sig)
        return res
    try:
        mod = cm.exec_py(code)
        names = list(mod["state"])
        if sorted(names) != sorted(ref.state_names):
            raise ValueError(f"state names {names} != {ref.state_names}")
    except Exception as e:  # noqa: BLE001
        res["evals"] += 1
        sig = f"C01:generated-module-invalid:{cm.exc_name(e)}"
        add(sig, "generated numpy module does not import / has wrong states", {"ode": text}, "importable module", cm.exc_name(e), cm.short(e), base=sig)
        return res
    nontriv_model = bool(ref.inter_names) or ref.max_depth() >= 2
    for pt in c["points"]:
        pt = cm.restrict_point(pt, ref)
        try:
            want, frag = ref.rhs(pt["t"], pt["states"], pt["params"])
            scale = ref.last_maxabs
        except mg.RefError:
            continue
        if frag:
            continue
        res["evals"] += 1
        inp = {"ode": text, "points": [pt]}
        if nontriv_model and any(v != 0 for v in want.values()):
            res["nontrivial"].append(cm.sha([text, pt]))
        try:
            s, p = cm.np_args(mod, pt)
            with cm.quiet():
                got = np.asarray(mod["rhs"](pt["t"], s, p), dtype=float)
        except Exception as e:  # noqa: BLE001
            sig = f"C01:rhs-raises:{cm.exc_name(e)}" + (f":{cm.msg_key(e)}" if isinstance(e, NameError) else "")
            if ref.boolean_used_arithmetically():  # NumPy computes with booleans / integers there (`2**-int`): territory + message key
                sig += f":boolean-used-arithmetically:{cm.msg_key(e)}"
            add(sig, "generated rhs raises at a point where the model is defined", inp, want, cm.exc_name(e), cm.short(e), base=sig)
            continue
        if got.shape != (len(names),):
            add("C01:rhs-shape", "rhs returns an array of the wrong shape", inp, [len(names)], list(got.shape), base="C01:rhs-shape")
            continue
        bad = {}
        for n in ref.state_names:
            g = got[mod["state_index"](n)]
            if not cm.vclose(g, want[n], scale):
                bad[n] = float(g)
        if bad:
            # a model with pi inside a trigonometric argument is in the territory of the known sympy problem (never a general model)
            kind = "trig-of-unevaluated-sum-with-pi" if ref.has_pi_in_trig() else cm.main_feature(text, ["d" + k + "_dt" for k in bad])
            if kind != "trig-of-unevaluated-sum-with-pi":
                # does the generated value follow the text with every non-strict inequality read as a strict one?  (the point then sits exactly
                # on the boundary of a Ge / Le: _print_Piecewise's sympy.simplify turns `a >= -1*0.1` into `a > -0.1`)
                try:
                    alt, _ = ref.rhs(pt["t"], pt["states"], pt["params"], strict_rel=True)
                    if all(cm.vclose(bad[n], alt[n], scale) for n in bad):
                        kind = "non-strict-inequality-read-as-strict-on-its-boundary"
                except Exception:  # noqa: BLE001
                    pass
            if not kind.startswith(("trig-of", "non-strict")):
                # sympy folded a definition to a number although the text makes it depend on a variable (e.g. floor(floor(0.25)/exp(-abs(h)))
                # becomes -1: floor of an unevaluated product with a zero factor) - inside the dependency, named as such
                import re as _re
                for ln in gen_lines(code, list(ref.assigns)):
                    m_ = _re.fullmatch(r"(\w+) = \(?-?[0-9.eE+-]+\)?", ln)
                    if m_ and m_.group(1) in ref.assigns and ref.assigns[m_.group(1)].deps:
                        try:
                            if not cm.vclose(float(ln.split("=", 1)[1].strip(" ()")), ref.evaluate(pt["t"], pt["states"], pt["params"])[0][m_.group(1)], scale):
                                kind = "definition-folded-to-a-wrong-constant:" + kind
                                break
                        except Exception:  # noqa: BLE001
                            pass
            if not kind.startswith(("trig-of", "non-strict", "definition-folded")):
                try:
                    if ref.trig_inside_relational(["d" + k + "_dt" for k in bad]):
                        kind = "periodic-inequality-solved-for-one-period:" + kind
                except Exception:  # noqa: BLE001
                    pass
            n0 = sorted(bad)[0]
            add(f"C01:rhs-mismatch:{kind}", f"rhs value of d{n0}_dt differs from the reference meaning of `{ref.assigns['d' + n0 + '_dt'].expr_text[:80]}`", inp,
                {k: want[k] for k in bad}, bad, f"generated line(s): {gen_lines(code, ['d' + k + '_dt' for k in bad])}", base="C01:rhs-mismatch")
            if shr:
                break
    return res


def gen_lines(code, names):
    out = []
    for ln in code.split("def rhs(")[1].split("def ")[0].splitlines():
        if any(ln.strip().startswith(n + " =") for n in names):
            out.append(ln.strip()[:300])
    return out


run, replay = cm.make_api(globals())
